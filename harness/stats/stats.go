// Package stats collects what a check actually explored and writes it where the driver merges it.
package stats

import (
	"encoding/json"
	"fmt"
	"os"
	"path/filepath"
	"sort"
	"strconv"
	"sync"
)

type Collector struct {
	mu       sync.Mutex
	Property string            `json:"property"`
	Shard    int               `json:"shard"`
	Evals    int64             `json:"evaluations"`
	Cases    int64             `json:"cases"`
	NonTriv  map[uint64]bool   `json:"-"`
	NTList   []uint64          `json:"nontrivial_hashes"`
	Classes  map[string]int64  `json:"classes"`
	Samples  []json.RawMessage `json:"samples"`
	Known    map[string]int64  `json:"known_findings_seen"`
	KnownMsg map[string]string `json:"known_findings_what"`
	Notes    map[string]int64  `json:"notes"`
	Excluded map[string]int64  `json:"excluded"`
	Exhaust  bool              `json:"exhaustive"`
	Extra    map[string]any    `json:"extra"`
	maxSamp  int
}

func New(property string) *Collector {
	sh, _ := strconv.Atoi(os.Getenv("VERIF_SHARD"))
	return &Collector{Property: property, Shard: sh, NonTriv: map[uint64]bool{}, Classes: map[string]int64{}, Known: map[string]int64{},
		KnownMsg: map[string]string{}, Notes: map[string]int64{}, Excluded: map[string]int64{}, Extra: map[string]any{}, maxSamp: 4}
}

// Case records one generated case. evals is the number of executions it stood for (≥1).
func (c *Collector) Case(hash uint64, nontrivial bool, evals int, classes ...string) {
	c.mu.Lock()
	defer c.mu.Unlock()
	c.Cases++
	c.Evals += int64(evals)
	if nontrivial {
		c.NonTriv[hash] = true
	}
	for _, cl := range classes {
		c.Classes[cl]++
	}
}

func (c *Collector) Class(cl string, n int64) {
	c.mu.Lock()
	c.Classes[cl] += n
	c.mu.Unlock()
}

func (c *Collector) Note(n string) {
	c.mu.Lock()
	c.Notes[n]++
	c.mu.Unlock()
}

func (c *Collector) SetExtra(k string, v any) {
	c.mu.Lock()
	c.Extra[k] = v
	c.mu.Unlock()
}

func (c *Collector) Exclude(n string) {
	c.mu.Lock()
	c.Excluded[n]++
	c.mu.Unlock()
}

// Sample keeps the first few non-trivial cases written out.
func (c *Collector) Sample(v any) {
	c.mu.Lock()
	defer c.mu.Unlock()
	if len(c.Samples) >= c.maxSamp {
		return
	}
	b, err := json.Marshal(v)
	if err != nil {
		return
	}
	if len(b) > 6000 {
		b, _ = json.Marshal(map[string]any{"truncated_json_prefix": string(b[:6000])})
	}
	c.Samples = append(c.Samples, b)
}

func (c *Collector) WantSample() bool {
	c.mu.Lock()
	defer c.mu.Unlock()
	return len(c.Samples) < c.maxSamp
}

// KnownFinding records that the exact known-defective behaviour of an open finding was observed.
func (c *Collector) KnownFinding(key, what string) {
	c.mu.Lock()
	c.Known[key]++
	c.KnownMsg[key] = what
	c.mu.Unlock()
}

func (c *Collector) Flush() {
	dir := os.Getenv("VERIF_OUT")
	if dir == "" {
		return
	}
	c.mu.Lock()
	defer c.mu.Unlock()
	c.NTList = c.NTList[:0]
	for h := range c.NonTriv {
		c.NTList = append(c.NTList, h)
	}
	sort.Slice(c.NTList, func(i, j int) bool { return c.NTList[i] < c.NTList[j] })
	b, _ := json.Marshal(c)
	_ = os.WriteFile(filepath.Join(dir, fmt.Sprintf("stats-%s-%d.json", c.Property, c.Shard)), b, 0o644)
}

// Violation is what a failing property leaves behind for the driver.
type Violation struct {
	Property string          `json:"property"`
	Kind     string          `json:"kind"`
	Message  string          `json:"message"`
	Case     json.RawMessage `json:"case"`
}

// DumpViolation (over)writes this shard's violation file; the last write is the shrunk case.
func DumpViolation(property, kind, msg string, cse any) string {
	dir := os.Getenv("VERIF_OUT")
	if dir == "" {
		dir = os.TempDir()
	}
	b, _ := json.Marshal(cse)
	if len(msg) > 4000 {
		msg = msg[:4000]
	}
	v, _ := json.MarshalIndent(Violation{property, kind, msg, b}, "", " ")
	p := filepath.Join(dir, fmt.Sprintf("violation-%s-%s.json", property, os.Getenv("VERIF_SHARD")))
	_ = os.WriteFile(p, v, 0o644)
	return p
}
