// Package faultio holds the failing / fragmenting sinks and sources used for fault enumeration.
package faultio

import (
	"errors"
	"io"
)

var ErrInjected = errors.New("injected I/O fault")

// Sink is an io.Writer that fails its FailAt-th Write call (0-based).
type Sink struct {
	Buf       []byte
	Calls     int
	FailAt    int  // -1: never
	Short     bool // accept a strict, non-empty part of the failing write and report io.ErrShortWrite
	Silent    bool // with Short: report the short count with a nil error (a destination that just stops taking bytes)
	Permanent bool // every later call fails too
	Fired     bool
	CurCall   int // set by the driver: index of the API call in progress
	FiredCall int
	PrefixLen int // bytes accepted up to and including the first fault
}

func (s *Sink) Write(p []byte) (int, error) {
	k := s.Calls
	s.Calls++
	if s.FailAt >= 0 && (k == s.FailAt || (s.Permanent && k > s.FailAt)) {
		if !s.Fired {
			s.Fired = true
			s.FiredCall = s.CurCall
			n := 0
			err := ErrInjected
			if s.Short && len(p) > 1 {
				n = len(p) / 2
				err = io.ErrShortWrite
				if s.Silent {
					err = nil
				}
			}
			s.Buf = append(s.Buf, p[:n]...)
			s.PrefixLen = len(s.Buf)
			return n, err
		}
		return 0, ErrInjected
	}
	s.Buf = append(s.Buf, p...)
	return len(p), nil
}

// Source is a fragmenting, optionally failing io.Reader over a byte slice.
type Source struct {
	Data        []byte
	Pos         int
	Sizes       []int // read sizes, cycled; empty = whatever the caller asks for
	Halving     bool  // deliver max(1, remaining/2) bytes per call
	EOFWithData bool  // the final bytes are returned together with io.EOF
	FailAt      int   // byte offset that cannot be read; -1: none
	Together    bool  // the error is returned together with the bytes that precede FailAt
	Sticky      bool  // non-seekable model: once fired, every later Read fails
	OneShot     bool  // the error is reported exactly once; later reads continue where the source stands
	Fired       bool
	i           int
}

func (s *Source) Read(p []byte) (int, error) {
	if s.Sticky && s.Fired {
		return 0, ErrInjected
	}
	if len(p) == 0 {
		return 0, nil
	}
	if s.Pos >= len(s.Data) {
		if s.FailAt == len(s.Data) && !(s.OneShot && s.Fired) {
			s.Fired = true
			return 0, ErrInjected // an error where the end of the data was due
		}
		return 0, io.EOF
	}
	n := len(p)
	if len(s.Sizes) > 0 {
		if sz := s.Sizes[s.i%len(s.Sizes)]; sz > 0 && sz < n {
			n = sz
		}
		s.i++
	}
	if s.Halving {
		if h := (len(s.Data) - s.Pos) / 2; h >= 1 && h < n {
			n = h
		}
	}
	if n > len(s.Data)-s.Pos {
		n = len(s.Data) - s.Pos
	}
	if s.FailAt >= 0 && s.Pos <= s.FailAt && s.Pos+n > s.FailAt && !(s.OneShot && s.Fired) {
		n = s.FailAt - s.Pos
		if n == 0 || s.Together {
			s.Fired = true
			copy(p, s.Data[s.Pos:s.Pos+n])
			s.Pos += n
			return n, ErrInjected
		}
	}
	copy(p, s.Data[s.Pos:s.Pos+n])
	s.Pos += n
	if s.EOFWithData && s.Pos == len(s.Data) {
		return n, io.EOF
	}
	return n, nil
}

// SeekSource adds Seek; its fault is tied to the absolute offset (a bad sector), not sticky.
type SeekSource struct {
	Source
	// SeekFail = k > 0 makes the k-th Seek call (1-based) fail without moving; with SeekSticky every later Seek
	// fails too (a handle that stopped seeking); otherwise the failure is reported once (a transient fault).
	SeekFail   int
	SeekSticky bool
	Seeks      int
	SeekFired  bool
}

func (s *SeekSource) Seek(off int64, whence int) (int64, error) {
	s.Seeks++
	if s.SeekFail > 0 && (s.Seeks == s.SeekFail || (s.SeekSticky && s.Seeks > s.SeekFail)) {
		s.SeekFired = true
		return 0, ErrInjected
	}
	var base int64
	switch whence {
	case io.SeekStart:
	case io.SeekCurrent:
		base = int64(s.Pos)
	case io.SeekEnd:
		base = int64(len(s.Data))
	default:
		return 0, errors.New("bad whence")
	}
	np := base + off
	if np < 0 {
		return 0, errors.New("negative position")
	}
	s.Pos = int(np)
	return np, nil
}

// AtSeekSource is a SeekSource that also offers positioned reads. As io.ReaderAt allows, a read that ends exactly
// at the end of the data returns its bytes together with io.EOF (EOFWithData); the fault offset applies to
// positioned reads as well.
type AtSeekSource struct{ SeekSource }

func (s *AtSeekSource) ReadAt(p []byte, off int64) (int, error) {
	if off < 0 {
		return 0, errors.New("negative offset")
	}
	if off >= int64(len(s.Data)) {
		return 0, io.EOF
	}
	n := copy(p, s.Data[off:])
	if s.FailAt >= 0 && int64(s.FailAt) >= off && int64(s.FailAt) < off+int64(n) && !(s.OneShot && s.Fired) {
		s.Fired = true
		return s.FailAt - int(off), ErrInjected
	}
	if n < len(p) || (s.EOFWithData && off+int64(n) == int64(len(s.Data))) {
		return n, io.EOF
	}
	return n, nil
}

// AttSource produces attachment data with a fault after J bytes.
type AttSource struct {
	Data  []byte
	J     int
	Mode  int // 0: error after J bytes; 1: EOF after J bytes (ends early); 2: all data then Extra more bytes
	Extra int
	pos   int
}

func (a *AttSource) Read(p []byte) (int, error) {
	switch a.Mode {
	case 0, 1:
		if a.pos >= a.J {
			if a.Mode == 0 {
				return 0, ErrInjected
			}
			return 0, io.EOF
		}
		n := copy(p, a.Data[a.pos:a.J])
		a.pos += n
		return n, nil
	default:
		total := len(a.Data) + a.Extra
		if a.pos >= total {
			return 0, io.EOF
		}
		n := 0
		for n < len(p) && a.pos < total {
			if a.pos < len(a.Data) {
				p[n] = a.Data[a.pos]
			} else {
				p[n] = 0xEE
			}
			n++
			a.pos++
		}
		return n, nil
	}
}
