// Package conf ports tests/conformance/variants (inputs.ts, generateTestVariants.ts) and reads the
// conformance expectations and Git-LFS pointers under tests/conformance/data.
package conf

import (
	"bufio"
	"encoding/json"
	"fmt"
	"os"
	"path/filepath"
	"sort"
	"strings"

	"verifharness/specdec"
	"verifharness/wl"
)

type Input struct {
	BaseName string
	W        wl.Workload
}

func tenMessages() []wl.Op {
	var ops []wl.Op
	for seq, lt := range []uint64{0, 2, 1, 3, 3, 5, 4, 7, 8, 9} {
		ops = append(ops, wl.Op{M: &wl.Message{ChannelID: 1, PublishTime: lt, LogTime: lt, Data: []byte{1, 2, 3}, Sequence: uint32(seq)}})
	}
	return ops
}

func Inputs() []Input {
	schema := func() wl.Op { return wl.Op{S: &wl.Schema{ID: 1, Name: "Example", Encoding: "c", Data: []byte{4, 5, 6}}} }
	channel := func() wl.Op {
		return wl.Op{C: &wl.Channel{ID: 1, Topic: "example", SchemaID: 1, MessageEncoding: "a", Metadata: []wl.KV{{K: "foo", V: "bar"}}}}
	}
	oneMsg := func() wl.Op {
		return wl.Op{M: &wl.Message{ChannelID: 1, PublishTime: 1, LogTime: 2, Data: []byte{1, 2, 3}, Sequence: 10}}
	}
	return []Input{
		{"NoData", wl.Workload{}},
		{"OneSchemalessMessage", wl.Workload{Ops: []wl.Op{{C: &wl.Channel{ID: 1, Topic: "example", SchemaID: 0, MessageEncoding: "text"}}, oneMsg()}}},
		{"OneMessage", wl.Workload{Ops: []wl.Op{schema(), channel(), oneMsg()}}},
		{"OneAttachment", wl.Workload{Ops: []wl.Op{{A: &wl.Attachment{Name: "myFile", MediaType: "application/octet-stream", LogTime: 2, CreateTime: 1, Data: []byte{1, 2, 3}}}}}},
		{"OneMetadata", wl.Workload{Ops: []wl.Op{{D: &wl.Metadata{Name: "myMetadata", Metadata: []wl.KV{{K: "foo", V: "bar"}}}}}}},
		{"TenMessages", wl.Workload{Ops: append([]wl.Op{schema(), channel()}, tenMessages()...)}},
	}
}

// Feature order of Object.values(TestFeatures).
var FeatureOrder = []string{"ch", "mx", "st", "rsh", "rch", "ax", "mdx", "chx", "sum", "pad"}

type Variant struct {
	Input
	Name     string
	Features map[string]bool
}

func has(w *wl.Workload, kind string) bool {
	for _, o := range w.Ops {
		if o.Kind() == kind {
			return true
		}
	}
	return false
}

// Admissible applies generateTestVariants.ts' filters.
func Admissible(w *wl.Workload, f map[string]bool) bool {
	if f["ax"] && !has(w, "attachment") {
		return false
	}
	if f["mdx"] && !has(w, "metadata") {
		return false
	}
	if f["rsh"] && !has(w, "schema") {
		return false
	}
	if f["rch"] && !has(w, "channel") {
		return false
	}
	if !(has(w, "message") || has(w, "channel") || has(w, "schema")) && (f["ch"] || f["chx"] || f["mx"]) {
		return false
	}
	if f["sum"] && !(f["chx"] || f["rsh"] || f["rch"] || f["mdx"] || f["ax"] || f["st"]) {
		return false
	}
	if (f["chx"] || f["mx"]) && !f["ch"] {
		return false
	}
	return true
}

func VariantName(base string, f map[string]bool) string {
	var fs []string
	for k, v := range f {
		if v {
			fs = append(fs, k)
		}
	}
	sort.Strings(fs)
	return strings.Join(append([]string{base}, fs...), "-")
}

func Variants() []Variant {
	var out []Variant
	for _, in := range Inputs() {
		for mask := 0; mask < 1<<len(FeatureOrder); mask++ {
			f := map[string]bool{}
			for i, n := range FeatureOrder {
				if mask&(1<<i) != 0 {
					f[n] = true
				}
			}
			w := in.W
			if !Admissible(&w, f) {
				continue
			}
			out = append(out, Variant{Input: in, Name: VariantName(in.BaseName, f), Features: f})
		}
	}
	return out
}

func DataDir(repo string) string { return filepath.Join(repo, "tests", "conformance", "data") }

type Pointer struct {
	SHA256 string
	Size   int64
}

// ReadPointer parses a Git-LFS pointer file.
func ReadPointer(path string) (Pointer, error) {
	f, err := os.Open(path)
	if err != nil {
		return Pointer{}, err
	}
	defer f.Close()
	var p Pointer
	sc := bufio.NewScanner(f)
	for sc.Scan() {
		line := sc.Text()
		if strings.HasPrefix(line, "oid sha256:") {
			p.SHA256 = strings.TrimPrefix(line, "oid sha256:")
		}
		if strings.HasPrefix(line, "size ") {
			fmt.Sscanf(line, "size %d", &p.Size)
		}
	}
	if p.SHA256 == "" {
		return p, fmt.Errorf("%s is not an LFS pointer", path)
	}
	return p, nil
}

// Expectation is a parsed tests/conformance/data/**.json.
type Expectation struct {
	Records []ExpRecord `json:"records"`
	Meta    struct {
		Variant struct {
			Features []string `json:"features"`
		} `json:"variant"`
	} `json:"meta"`
}

type ExpRecord struct {
	Type   string              `json:"type"`
	Fields [][]json.RawMessage `json:"fields"`
}

func ReadExpectation(path string) (*Expectation, error) {
	b, err := os.ReadFile(path)
	if err != nil {
		return nil, err
	}
	var e Expectation
	if err := json.Unmarshal(b, &e); err != nil {
		return nil, err
	}
	return &e, nil
}

// ---- rendering of decoded records in the expectations' JSON form (toSerializableMcapRecord.ts)

type field struct {
	name string
	val  any
}

func RenderRecord(r *specdec.Record) (map[string]any, bool) {
	u := func(v uint64) string { return fmt.Sprint(v) }
	bytesArr := func(b []byte) []any {
		out := make([]any, len(b))
		for i, x := range b {
			out[i] = fmt.Sprint(x)
		}
		return out
	}
	strMap := func(kvs []specdec.KV) map[string]any {
		m := map[string]any{}
		for _, kv := range kvs {
			m[kv.K] = kv.V
		}
		return m
	}
	numMap := func(kvs []specdec.U16U64) map[string]any {
		m := map[string]any{}
		for _, kv := range kvs {
			m[fmt.Sprint(kv.K)] = fmt.Sprint(kv.V)
		}
		return m
	}
	var typ string
	var fs []field
	switch r.Op {
	case specdec.OpHeader:
		typ, fs = "Header", []field{{"library", r.Library}, {"profile", r.Profile}}
	case specdec.OpFooter:
		typ, fs = "Footer", []field{{"summary_crc", u(uint64(r.SummaryCRC))}, {"summary_offset_start", u(r.SummaryOffsetStart)}, {"summary_start", u(r.SummaryStart)}}
	case specdec.OpSchema:
		typ, fs = "Schema", []field{{"data", bytesArr(r.Data)}, {"encoding", r.Encoding}, {"id", u(uint64(r.ID))}, {"name", r.Name}}
	case specdec.OpChannel:
		typ, fs = "Channel", []field{{"id", u(uint64(r.ID))}, {"message_encoding", r.MessageEncoding}, {"metadata", strMap(r.Meta)}, {"schema_id", u(uint64(r.SchemaID))}, {"topic", r.Topic}}
	case specdec.OpMessage:
		typ, fs = "Message", []field{{"channel_id", u(uint64(r.ChannelID))}, {"data", bytesArr(r.Data)}, {"log_time", u(r.LogTime)}, {"publish_time", u(r.PublishTime)}, {"sequence", u(uint64(r.Sequence))}}
	case specdec.OpChunkIndex:
		typ, fs = "ChunkIndex", []field{{"chunk_length", u(r.ChunkLength)}, {"chunk_start_offset", u(r.ChunkStartOffset)}, {"compressed_size", u(r.CompressedSize)}, {"compression", r.Compression},
			{"message_end_time", u(r.MessageEndTime)}, {"message_index_length", u(r.MessageIndexLength)}, {"message_index_offsets", numMap(r.MessageIndexOffsets)}, {"message_start_time", u(r.MessageStartTime)}, {"uncompressed_size", u(r.UncompressedSize)}}
	case specdec.OpAttachment:
		typ, fs = "Attachment", []field{{"create_time", u(r.CreateTime)}, {"data", bytesArr(r.Data)}, {"log_time", u(r.LogTime)}, {"media_type", r.MediaType}, {"name", r.Name}}
	case specdec.OpAttachmentIndex:
		typ, fs = "AttachmentIndex", []field{{"create_time", u(r.CreateTime)}, {"data_size", u(r.DataSize)}, {"length", u(r.AttLength)}, {"log_time", u(r.LogTime)}, {"media_type", r.MediaType}, {"name", r.Name}, {"offset", u(r.AttOffset)}}
	case specdec.OpStatistics:
		typ, fs = "Statistics", []field{{"attachment_count", u(uint64(r.AttachmentCount))}, {"channel_count", u(uint64(r.ChannelCount))}, {"channel_message_counts", numMap(r.ChannelMessageCounts)}, {"chunk_count", u(uint64(r.ChunkCount))},
			{"message_count", u(r.MessageCount)}, {"message_end_time", u(r.MessageEndTime)}, {"message_start_time", u(r.MessageStartTime)}, {"metadata_count", u(uint64(r.MetadataCount))}, {"schema_count", u(uint64(r.SchemaCount))}}
	case specdec.OpMetadata:
		typ, fs = "Metadata", []field{{"metadata", strMap(r.Meta)}, {"name", r.Name}}
	case specdec.OpMetadataIndex:
		typ, fs = "MetadataIndex", []field{{"length", u(r.AttLength)}, {"name", r.Name}, {"offset", u(r.AttOffset)}}
	case specdec.OpSummaryOffset:
		typ, fs = "SummaryOffset", []field{{"group_length", u(r.GroupLength)}, {"group_opcode", u(uint64(r.GroupOpcode))}, {"group_start", u(r.GroupStart)}}
	case specdec.OpDataEnd:
		typ, fs = "DataEnd", []field{{"data_section_crc", u(uint64(r.DataSectionCRC))}}
	default:
		return nil, false // chunks are de-chunked, message indexes are not listed, unknown records are skipped
	}
	var fl []any
	for _, f := range fs {
		fl = append(fl, []any{f.name, f.val})
	}
	return map[string]any{"type": typ, "fields": fl}, true
}

// RenderFile renders the streamed record list of a decoded file.
func RenderFile(f *specdec.File) []any {
	out := []any{}
	for _, r := range f.Flat(true) {
		if m, ok := RenderRecord(r); ok {
			out = append(out, m)
		}
	}
	return out
}

// Normalize round-trips a value through JSON so that two renderings can be compared structurally.
func Normalize(v any) any {
	b, _ := json.Marshal(v)
	var out any
	_ = json.Unmarshal(b, &out)
	return out
}

// ExpectedRecords returns the expectation's record list in normalized form.
func (e *Expectation) ExpectedRecords() any {
	return Normalize(e.Records)
}

func (r ExpRecord) MarshalJSON() ([]byte, error) {
	return json.Marshal(map[string]any{"type": r.Type, "fields": r.Fields})
}

func fieldOf(rec map[string]any, name string) (string, bool) {
	fl, _ := rec["fields"].([]any)
	for _, f := range fl {
		p, _ := f.([]any)
		if len(p) == 2 && p[0] == name {
			s, ok := p[1].(string)
			return s, ok
		}
	}
	return "", false
}

// IndexedExpectation ports IndexedReadTestRunner.expectedResult.
func IndexedExpectation(records any) map[string]any {
	res := map[string][]any{"schemas": {}, "channels": {}, "messages": {}, "statistics": {}}
	seenS, seenC := map[string]bool{}, map[string]bool{}
	list, _ := records.([]any)
	for _, x := range list {
		rec, _ := x.(map[string]any)
		switch rec["type"] {
		case "Schema":
			id, _ := fieldOf(rec, "id")
			if !seenS[id] {
				seenS[id] = true
				res["schemas"] = append(res["schemas"], rec)
			}
		case "Channel":
			id, _ := fieldOf(rec, "id")
			if !seenC[id] {
				seenC[id] = true
				res["channels"] = append(res["channels"], rec)
			}
		case "Message":
			res["messages"] = append(res["messages"], rec)
		case "Statistics":
			res["statistics"] = append(res["statistics"], rec)
		}
	}
	num := func(rec any, name string) uint64 {
		s, _ := fieldOf(rec.(map[string]any), name)
		var v uint64
		fmt.Sscan(s, &v)
		return v
	}
	sort.SliceStable(res["messages"], func(i, j int) bool { return num(res["messages"][i], "log_time") < num(res["messages"][j], "log_time") })
	sort.SliceStable(res["schemas"], func(i, j int) bool { return num(res["schemas"][i], "id") < num(res["schemas"][j], "id") })
	sort.SliceStable(res["channels"], func(i, j int) bool { return num(res["channels"][i], "id") < num(res["channels"][j], "id") })
	return map[string]any{"schemas": res["schemas"], "channels": res["channels"], "messages": res["messages"], "statistics": res["statistics"]}
}

// IndexedSupported ports GoIndexedReaderTestRunner.supportsVariant.
func IndexedSupported(w *wl.Workload, f map[string]bool) bool {
	return has(w, "message") && f["ch"] && f["chx"] && f["rch"] && f["rsh"] && f["mx"]
}
