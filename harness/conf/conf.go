// Package conf ports tests/conformance/variants (inputs.ts, generateTestVariants.ts) and reads the
// conformance expectations and Git-LFS pointers under tests/conformance/data.
package conf

import (
	"bufio"
	"encoding/json"
	"fmt"
	"os"
	"path/filepath"
	"sort"
	"strings"

	"verifharness/wl"
)

type Input struct {
	BaseName string
	W        wl.Workload
}

func tenMessages() []wl.Op {
	var ops []wl.Op
	for seq, lt := range []uint64{0, 2, 1, 3, 3, 5, 4, 7, 8, 9} {
		ops = append(ops, wl.Op{M: &wl.Message{ChannelID: 1, PublishTime: lt, LogTime: lt, Data: []byte{1, 2, 3}, Sequence: uint32(seq)}})
	}
	return ops
}

func Inputs() []Input {
	schema := func() wl.Op { return wl.Op{S: &wl.Schema{ID: 1, Name: "Example", Encoding: "c", Data: []byte{4, 5, 6}}} }
	channel := func() wl.Op {
		return wl.Op{C: &wl.Channel{ID: 1, Topic: "example", SchemaID: 1, MessageEncoding: "a", Metadata: []wl.KV{{K: "foo", V: "bar"}}}}
	}
	oneMsg := func() wl.Op {
		return wl.Op{M: &wl.Message{ChannelID: 1, PublishTime: 1, LogTime: 2, Data: []byte{1, 2, 3}, Sequence: 10}}
	}
	return []Input{
		{"NoData", wl.Workload{}},
		{"OneSchemalessMessage", wl.Workload{Ops: []wl.Op{{C: &wl.Channel{ID: 1, Topic: "example", SchemaID: 0, MessageEncoding: "text"}}, oneMsg()}}},
		{"OneMessage", wl.Workload{Ops: []wl.Op{schema(), channel(), oneMsg()}}},
		{"OneAttachment", wl.Workload{Ops: []wl.Op{{A: &wl.Attachment{Name: "myFile", MediaType: "application/octet-stream", LogTime: 2, CreateTime: 1, Data: []byte{1, 2, 3}}}}}},
		{"OneMetadata", wl.Workload{Ops: []wl.Op{{D: &wl.Metadata{Name: "myMetadata", Metadata: []wl.KV{{K: "foo", V: "bar"}}}}}}},
		{"TenMessages", wl.Workload{Ops: append([]wl.Op{schema(), channel()}, tenMessages()...)}},
	}
}

// Feature order of Object.values(TestFeatures).
var FeatureOrder = []string{"ch", "mx", "st", "rsh", "rch", "ax", "mdx", "chx", "sum", "pad"}

type Variant struct {
	Input
	Name     string
	Features map[string]bool
}

func has(w *wl.Workload, kind string) bool {
	for _, o := range w.Ops {
		if o.Kind() == kind {
			return true
		}
	}
	return false
}

// Admissible applies generateTestVariants.ts' filters.
func Admissible(w *wl.Workload, f map[string]bool) bool {
	if f["ax"] && !has(w, "attachment") {
		return false
	}
	if f["mdx"] && !has(w, "metadata") {
		return false
	}
	if f["rsh"] && !has(w, "schema") {
		return false
	}
	if f["rch"] && !has(w, "channel") {
		return false
	}
	if !(has(w, "message") || has(w, "channel") || has(w, "schema")) && (f["ch"] || f["chx"] || f["mx"]) {
		return false
	}
	if f["sum"] && !(f["chx"] || f["rsh"] || f["rch"] || f["mdx"] || f["ax"] || f["st"]) {
		return false
	}
	if (f["chx"] || f["mx"]) && !f["ch"] {
		return false
	}
	return true
}

func VariantName(base string, f map[string]bool) string {
	var fs []string
	for k, v := range f {
		if v {
			fs = append(fs, k)
		}
	}
	sort.Strings(fs)
	return strings.Join(append([]string{base}, fs...), "-")
}

func Variants() []Variant {
	var out []Variant
	for _, in := range Inputs() {
		for mask := 0; mask < 1<<len(FeatureOrder); mask++ {
			f := map[string]bool{}
			for i, n := range FeatureOrder {
				if mask&(1<<i) != 0 {
					f[n] = true
				}
			}
			w := in.W
			if !Admissible(&w, f) {
				continue
			}
			out = append(out, Variant{Input: in, Name: VariantName(in.BaseName, f), Features: f})
		}
	}
	return out
}

func DataDir(repo string) string { return filepath.Join(repo, "tests", "conformance", "data") }

type Pointer struct {
	SHA256 string
	Size   int64
}

// ReadPointer parses a Git-LFS pointer file.
func ReadPointer(path string) (Pointer, error) {
	f, err := os.Open(path)
	if err != nil {
		return Pointer{}, err
	}
	defer f.Close()
	var p Pointer
	sc := bufio.NewScanner(f)
	for sc.Scan() {
		line := sc.Text()
		if strings.HasPrefix(line, "oid sha256:") {
			p.SHA256 = strings.TrimPrefix(line, "oid sha256:")
		}
		if strings.HasPrefix(line, "size ") {
			fmt.Sscanf(line, "size %d", &p.Size)
		}
	}
	if p.SHA256 == "" {
		return p, fmt.Errorf("%s is not an LFS pointer", path)
	}
	return p, nil
}

// Expectation is a parsed tests/conformance/data/**.json.
type Expectation struct {
	Records []ExpRecord `json:"records"`
	Meta    struct {
		Variant struct {
			Features []string `json:"features"`
		} `json:"variant"`
	} `json:"meta"`
}

type ExpRecord struct {
	Type   string              `json:"type"`
	Fields [][]json.RawMessage `json:"fields"`
}

func ReadExpectation(path string) (*Expectation, error) {
	b, err := os.ReadFile(path)
	if err != nil {
		return nil, err
	}
	var e Expectation
	if err := json.Unmarshal(b, &e); err != nil {
		return nil, err
	}
	return &e, nil
}
