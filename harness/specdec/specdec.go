// Package specdec is an MCAP decoder and validator written from the format
// specification (website/docs/spec/index.md) only. It deliberately does not import
// github.com/foxglove/mcap/go/mcap: it is the independent oracle for what a file says.
package specdec

import (
	"bytes"
	"encoding/binary"
	"fmt"
	"hash/crc32"
	"io"
	"sort"

	"github.com/klauspost/compress/zstd"
	"github.com/pierrec/lz4/v4"
)

var Magic = []byte{0x89, 'M', 'C', 'A', 'P', 0x30, '\r', '\n'}

const (
	OpHeader          = 0x01
	OpFooter          = 0x02
	OpSchema          = 0x03
	OpChannel         = 0x04
	OpMessage         = 0x05
	OpChunk           = 0x06
	OpMessageIndex    = 0x07
	OpChunkIndex      = 0x08
	OpAttachment      = 0x09
	OpAttachmentIndex = 0x0A
	OpStatistics      = 0x0B
	OpMetadata        = 0x0C
	OpMetadataIndex   = 0x0D
	OpSummaryOffset   = 0x0E
	OpDataEnd         = 0x0F
)

type KV struct{ K, V string }

type IdxEntry struct{ Time, Offset uint64 }

type U16U64 struct {
	K uint16
	V uint64
}

// Record is one decoded record. Only the fields of its opcode are meaningful.
type Record struct {
	Op     byte
	Offset uint64 // offset of the opcode byte within its container (file, or uncompressed chunk)
	Len    uint64 // record content length
	Body   []byte // record content
	Extra  int    // number of content bytes after the last specified field
	InChunk int   // index of the containing chunk record in File.Records, or -1

	// header
	Profile, Library string
	// footer
	SummaryStart, SummaryOffsetStart uint64
	SummaryCRC                       uint32
	// schema / channel
	ID, SchemaID           uint16
	Name, Encoding         string
	Data                   []byte
	Topic, MessageEncoding string
	Meta                   []KV // in file order
	// message
	ChannelID            uint16
	Sequence             uint32
	LogTime, PublishTime uint64
	// chunk
	MessageStartTime, MessageEndTime uint64
	UncompressedSize                 uint64
	UncompressedCRC                  uint32
	Compression                      string
	CompressedSize                   uint64
	PayloadOffset                    uint64 // absolute offset of the first byte of the stored records field payload
	Uncompressed                     []byte
	Inner                            []*Record
	// message index
	Entries []IdxEntry
	// chunk index
	ChunkStartOffset, ChunkLength uint64
	MessageIndexOffsets           []U16U64
	MessageIndexLength            uint64
	// attachment (+index)
	CreateTime uint64
	MediaType  string
	DataSize   uint64
	CRC        uint32
	AttOffset, AttLength uint64 // attachment index / metadata index: offset,length
	// statistics
	MessageCount                                                  uint64
	SchemaCount                                                   uint16
	ChannelCount, AttachmentCount, MetadataCount, ChunkCount      uint32
	ChannelMessageCounts                                          []U16U64
	// summary offset
	GroupOpcode             byte
	GroupStart, GroupLength uint64
	// data end
	DataSectionCRC uint32
}

func (r *Record) MetaMap() map[string]string {
	m := map[string]string{}
	for _, kv := range r.Meta {
		m[kv.K] = kv.V
	}
	return m
}

// End returns the offset one past the record's last byte.
func (r *Record) End() uint64 { return r.Offset + 9 + r.Len }

type File struct {
	Bytes      []byte
	SkipMagic  bool
	Records    []*Record // top-level records in file order
	DataEndIdx int       // index in Records of the DataEnd record, -1 if none
	FooterIdx  int
}

type Options struct {
	SkipMagic bool // file has no leading magic
	// Decompress handles compression strings other than "", "zstd", "lz4".
	Decompress map[string]func(in []byte, size uint64) ([]byte, error)
	// AllowTruncated: stop without error at a cleanly truncated tail (used by C09 for extents)
}

type cur struct {
	b   []byte
	pos int
	err error
}

func (c *cur) need(n int) bool {
	if c.err != nil {
		return false
	}
	if n < 0 || len(c.b)-c.pos < n {
		c.err = fmt.Errorf("short record: need %d bytes at %d of %d", n, c.pos, len(c.b))
		return false
	}
	return true
}
func (c *cur) u8() byte {
	if !c.need(1) {
		return 0
	}
	v := c.b[c.pos]
	c.pos++
	return v
}
func (c *cur) u16() uint16 {
	if !c.need(2) {
		return 0
	}
	v := binary.LittleEndian.Uint16(c.b[c.pos:])
	c.pos += 2
	return v
}
func (c *cur) u32() uint32 {
	if !c.need(4) {
		return 0
	}
	v := binary.LittleEndian.Uint32(c.b[c.pos:])
	c.pos += 4
	return v
}
func (c *cur) u64() uint64 {
	if !c.need(8) {
		return 0
	}
	v := binary.LittleEndian.Uint64(c.b[c.pos:])
	c.pos += 8
	return v
}
func (c *cur) bytesN(n uint64) []byte {
	if n > uint64(len(c.b)) || !c.need(int(n)) {
		if c.err == nil {
			c.err = fmt.Errorf("short record: need %d bytes", n)
		}
		return nil
	}
	v := c.b[c.pos : c.pos+int(n)]
	c.pos += int(n)
	return v
}
func (c *cur) str() string { return string(c.bytesN(uint64(c.u32()))) }
func (c *cur) strmap() []KV {
	n := c.u32()
	raw := c.bytesN(uint64(n))
	if c.err != nil {
		return nil
	}
	in := &cur{b: raw}
	out := []KV{}
	for in.pos < len(raw) && in.err == nil {
		k := in.str()
		v := in.str()
		out = append(out, KV{k, v})
	}
	if in.err != nil {
		c.err = fmt.Errorf("bad map: %w", in.err)
	}
	return out
}
func (c *cur) u16u64map() []U16U64 {
	n := c.u32()
	raw := c.bytesN(uint64(n))
	if c.err != nil {
		return nil
	}
	if len(raw)%10 != 0 {
		c.err = fmt.Errorf("map<uint16,uint64> byte length %d not a multiple of 10", len(raw))
		return nil
	}
	out := []U16U64{}
	for i := 0; i < len(raw); i += 10 {
		out = append(out, U16U64{binary.LittleEndian.Uint16(raw[i:]), binary.LittleEndian.Uint64(raw[i+2:])})
	}
	return out
}

// ParseRecord parses the content of one record.
func ParseRecord(op byte, body []byte) (*Record, error) {
	r := &Record{Op: op, Len: uint64(len(body)), Body: body, InChunk: -1}
	c := &cur{b: body}
	switch op {
	case OpHeader:
		r.Profile = c.str()
		r.Library = c.str()
	case OpFooter:
		r.SummaryStart = c.u64()
		r.SummaryOffsetStart = c.u64()
		r.SummaryCRC = c.u32()
	case OpSchema:
		r.ID = c.u16()
		r.Name = c.str()
		r.Encoding = c.str()
		r.Data = c.bytesN(uint64(c.u32()))
	case OpChannel:
		r.ID = c.u16()
		r.SchemaID = c.u16()
		r.Topic = c.str()
		r.MessageEncoding = c.str()
		r.Meta = c.strmap()
	case OpMessage:
		r.ChannelID = c.u16()
		r.Sequence = c.u32()
		r.LogTime = c.u64()
		r.PublishTime = c.u64()
		r.Data = body[min(c.pos, len(body)):]
		c.pos = len(body)
	case OpChunk:
		r.MessageStartTime = c.u64()
		r.MessageEndTime = c.u64()
		r.UncompressedSize = c.u64()
		r.UncompressedCRC = c.u32()
		r.Compression = c.str()
		r.CompressedSize = c.u64()
		r.PayloadOffset = uint64(c.pos) // relative for now; fixed up by the caller
		r.Data = c.bytesN(r.CompressedSize)
	case OpMessageIndex:
		r.ChannelID = c.u16()
		n := c.u32()
		raw := c.bytesN(uint64(n))
		if c.err == nil {
			if len(raw)%16 != 0 {
				c.err = fmt.Errorf("message index array length %d not a multiple of 16", len(raw))
			}
			r.Entries = []IdxEntry{}
			for i := 0; i+16 <= len(raw); i += 16 {
				r.Entries = append(r.Entries, IdxEntry{binary.LittleEndian.Uint64(raw[i:]), binary.LittleEndian.Uint64(raw[i+8:])})
			}
		}
	case OpChunkIndex:
		r.MessageStartTime = c.u64()
		r.MessageEndTime = c.u64()
		r.ChunkStartOffset = c.u64()
		r.ChunkLength = c.u64()
		r.MessageIndexOffsets = c.u16u64map()
		r.MessageIndexLength = c.u64()
		r.Compression = c.str()
		r.CompressedSize = c.u64()
		r.UncompressedSize = c.u64()
	case OpAttachment:
		r.LogTime = c.u64()
		r.CreateTime = c.u64()
		r.Name = c.str()
		r.MediaType = c.str()
		r.DataSize = c.u64()
		r.Data = c.bytesN(r.DataSize)
		r.CRC = c.u32()
	case OpAttachmentIndex:
		r.AttOffset = c.u64()
		r.AttLength = c.u64()
		r.LogTime = c.u64()
		r.CreateTime = c.u64()
		r.DataSize = c.u64()
		r.Name = c.str()
		r.MediaType = c.str()
	case OpStatistics:
		r.MessageCount = c.u64()
		r.SchemaCount = c.u16()
		r.ChannelCount = c.u32()
		r.AttachmentCount = c.u32()
		r.MetadataCount = c.u32()
		r.ChunkCount = c.u32()
		r.MessageStartTime = c.u64()
		r.MessageEndTime = c.u64()
		r.ChannelMessageCounts = c.u16u64map()
	case OpMetadata:
		r.Name = c.str()
		r.Meta = c.strmap()
	case OpMetadataIndex:
		r.AttOffset = c.u64()
		r.AttLength = c.u64()
		r.Name = c.str()
	case OpSummaryOffset:
		r.GroupOpcode = c.u8()
		r.GroupStart = c.u64()
		r.GroupLength = c.u64()
	case OpDataEnd:
		r.DataSectionCRC = c.u32()
	default:
		c.pos = len(body) // unknown record: opaque
	}
	if c.err != nil {
		return nil, fmt.Errorf("op 0x%02x: %w", op, c.err)
	}
	r.Extra = len(body) - c.pos
	return r, nil
}

// SplitRecords walks a byte string that must consist of whole records.
func SplitRecords(b []byte, base uint64) ([]*Record, error) {
	var out []*Record
	pos := 0
	for pos < len(b) {
		if len(b)-pos < 9 {
			return out, fmt.Errorf("truncated record header at %d", base+uint64(pos))
		}
		op := b[pos]
		n := binary.LittleEndian.Uint64(b[pos+1:])
		if n > uint64(len(b)-pos-9) {
			return out, fmt.Errorf("record op 0x%02x at %d: length %d exceeds remaining %d", op, base+uint64(pos), n, len(b)-pos-9)
		}
		if op == 0 {
			return out, fmt.Errorf("zero opcode at %d", base+uint64(pos))
		}
		r, err := ParseRecord(op, b[pos+9:pos+9+int(n)])
		if err != nil {
			return out, fmt.Errorf("at %d: %w", base+uint64(pos), err)
		}
		r.Offset = base + uint64(pos)
		out = append(out, r)
		pos += 9 + int(n)
	}
	return out, nil
}

func Decompress(compression string, in []byte, size uint64, custom map[string]func([]byte, uint64) ([]byte, error)) ([]byte, error) {
	if f, ok := custom[compression]; ok {
		return f(in, size)
	}
	switch compression {
	case "":
		return in, nil
	case "zstd":
		d, err := zstd.NewReader(nil)
		if err != nil {
			return nil, err
		}
		defer d.Close()
		return d.DecodeAll(in, nil)
	case "lz4":
		return io.ReadAll(lz4.NewReader(bytes.NewReader(in)))
	}
	return nil, fmt.Errorf("unknown compression %q", compression)
}

// Decode strictly decodes a complete file. Any structural problem is an error.
func Decode(file []byte, opts Options) (*File, error) {
	f := &File{Bytes: file, SkipMagic: opts.SkipMagic, DataEndIdx: -1, FooterIdx: -1}
	start := 0
	if !opts.SkipMagic {
		if len(file) < 8 || !bytes.Equal(file[:8], Magic) {
			return nil, fmt.Errorf("bad leading magic")
		}
		start = 8
	}
	if len(file) < start+8 || !bytes.Equal(file[len(file)-8:], Magic) {
		return nil, fmt.Errorf("bad trailing magic")
	}
	recs, err := SplitRecords(file[start:len(file)-8], uint64(start))
	if err != nil {
		return nil, err
	}
	f.Records = recs
	for i, r := range recs {
		switch r.Op {
		case OpChunk:
			r.PayloadOffset += r.Offset + 9
			un, err := Decompress(r.Compression, r.Data, r.UncompressedSize, opts.Decompress)
			if err != nil {
				return nil, fmt.Errorf("chunk at %d: decompress: %w", r.Offset, err)
			}
			r.Uncompressed = un
			inner, err := SplitRecords(un, 0)
			if err != nil {
				return nil, fmt.Errorf("chunk at %d: %w", r.Offset, err)
			}
			for _, in := range inner {
				in.InChunk = i
			}
			r.Inner = inner
		case OpDataEnd:
			if f.DataEndIdx < 0 {
				f.DataEndIdx = i
			}
		case OpFooter:
			f.FooterIdx = i
		}
	}
	return f, nil
}

// Flat returns the data-section record stream as a sequential reader sees it: chunks replaced by
// their contents, stopping before DataEnd (or at the end when there is none).
func (f *File) Flat(includeSummary bool) []*Record {
	var out []*Record
	for i, r := range f.Records {
		if !includeSummary && f.DataEndIdx >= 0 && i >= f.DataEndIdx {
			break
		}
		if r.Op == OpChunk {
			out = append(out, r.Inner...)
			continue
		}
		out = append(out, r)
	}
	return out
}

// Issue is one validation finding.
type Issue struct {
	Cat string // "grammar", "pointer", "crc", "note"
	Msg string
}

func (i Issue) String() string { return i.Cat + ": " + i.Msg }

type ValidateOptions struct {
	// ExpectCRC: nil = accept zero or correct; true = all CRCs must be present and correct;
	// false = data/summary/chunk CRCs must be zero. Attachment CRCs must always be correct when non-zero.
	ExpectCRC *bool
	// RequireAttachmentCRC: attachment CRC must be non-zero-correct (writer always computes it).
	RequireAttachmentCRC bool
	// Presence expectations for the writer's configuration (nil = not checked).
	ExpectSummaryOffsets *bool
	ExpectMessageIndexes *bool
	// WaiveSummaryChannels: configuration deliberately skipped repeated channels/schemas.
	WaiveSummaryChannels bool
	WaiveSummarySchemas  bool
	// StrictWriter: checks that hold for the Go writer (one message index per channel with messages
	// when message indexes exist, chunk index for every chunk when any exists, etc.).
	StrictWriter bool
}

func crc(b []byte) uint32 { return crc32.ChecksumIEEE(b) }

// Validate checks grammar, pointer exactness and checksums of a decoded file.
func Validate(f *File, vo ValidateOptions) []Issue {
	var is []Issue
	add := func(cat, format string, a ...any) { is = append(is, Issue{cat, fmt.Sprintf(format, a...)}) }
	recs := f.Records
	if len(recs) == 0 || recs[0].Op != OpHeader {
		add("grammar", "first record is not a header")
		return is
	}
	if f.FooterIdx != len(recs)-1 {
		add("grammar", "footer is not the last record (footer index %d of %d)", f.FooterIdx, len(recs))
		return is
	}
	if f.DataEndIdx < 0 {
		add("grammar", "no DataEnd record")
		return is
	}
	footer := recs[f.FooterIdx]
	if footer.Len != 20 {
		add("grammar", "footer length %d", footer.Len)
	}
	de := recs[f.DataEndIdx]
	// ---- data section
	schemas := map[uint16]*Record{}
	channels := map[uint16]*Record{}
	checkSchema := func(r *Record, where string) {
		if r.ID == 0 {
			add("grammar", "%s: schema with id 0 at %d", where, r.Offset)
		}
		if p, ok := schemas[r.ID]; ok {
			if p.Name != r.Name || p.Encoding != r.Encoding || !bytes.Equal(p.Data, r.Data) {
				add("grammar", "%s: schema %d redefined differently", where, r.ID)
			}
		} else {
			schemas[r.ID] = r
		}
	}
	checkChannel := func(r *Record, where string) {
		if r.SchemaID != 0 && schemas[r.SchemaID] == nil {
			add("grammar", "%s: channel %d at %d references schema %d not yet defined", where, r.ID, r.Offset, r.SchemaID)
		}
		if p, ok := channels[r.ID]; ok {
			if p.SchemaID != r.SchemaID || p.Topic != r.Topic || p.MessageEncoding != r.MessageEncoding || fmt.Sprint(p.MetaMap()) != fmt.Sprint(r.MetaMap()) {
				add("grammar", "%s: channel %d redefined differently", where, r.ID)
			}
		} else {
			channels[r.ID] = r
		}
		seen := map[string]bool{}
		for _, kv := range r.Meta {
			if seen[kv.K] {
				add("grammar", "%s: channel %d duplicate metadata key %q", where, r.ID, kv.K)
			}
			seen[kv.K] = true
		}
	}
	type chunkInfo struct {
		rec        *Record
		idxRecs    []*Record // message index records directly after
		idxStart   uint64
		idxEnd     uint64
		msgs       map[uint16][]IdxEntry // expected index entries
		nMsgs      int
		minT, maxT uint64
	}
	var chunks []*chunkInfo
	var attachments, metadatas []*Record
	var msgTotal uint64
	chanCounts := map[uint16]uint64{}
	var gMin, gMax uint64
	haveMsg := false
	noteMsg := func(m *Record) {
		msgTotal++
		chanCounts[m.ChannelID]++
		if !haveMsg || m.LogTime < gMin {
			gMin = m.LogTime
		}
		if !haveMsg || m.LogTime > gMax {
			gMax = m.LogTime
		}
		haveMsg = true
	}
	var lastChunk *chunkInfo
	for i := 1; i < f.DataEndIdx; i++ {
		r := recs[i]
		if r.Op != OpMessageIndex {
			lastChunk = nil
		}
		switch r.Op {
		case OpSchema:
			checkSchema(r, "data")
		case OpChannel:
			checkChannel(r, "data")
		case OpMessage:
			if channels[r.ChannelID] == nil {
				add("grammar", "message at %d on channel %d before its channel record", r.Offset, r.ChannelID)
			}
			noteMsg(r)
		case OpChunk:
			ci := &chunkInfo{rec: r, msgs: map[uint16][]IdxEntry{}, idxStart: r.End(), idxEnd: r.End()}
			if uint64(len(r.Uncompressed)) != r.UncompressedSize {
				add("pointer", "chunk at %d: uncompressed_size %d but payload decompresses to %d", r.Offset, r.UncompressedSize, len(r.Uncompressed))
			}
			if r.Extra != 0 {
				add("grammar", "chunk at %d has %d bytes after records field", r.Offset, r.Extra)
			}
			for _, in := range r.Inner {
				switch in.Op {
				case OpSchema:
					checkSchema(in, "chunk")
				case OpChannel:
					checkChannel(in, "chunk")
				case OpMessage:
					if channels[in.ChannelID] == nil {
						add("grammar", "message in chunk at %d(+%d) on channel %d before its channel record", r.Offset, in.Offset, in.ChannelID)
					}
					noteMsg(in)
					ci.msgs[in.ChannelID] = append(ci.msgs[in.ChannelID], IdxEntry{in.LogTime, in.Offset})
					if ci.nMsgs == 0 || in.LogTime < ci.minT {
						ci.minT = in.LogTime
					}
					if ci.nMsgs == 0 || in.LogTime > ci.maxT {
						ci.maxT = in.LogTime
					}
					ci.nMsgs++
				default:
					if in.Op <= 0x0F {
						add("grammar", "record op 0x%02x inside chunk at %d", in.Op, r.Offset)
					}
				}
			}
			if r.MessageStartTime != ci.minT || r.MessageEndTime != ci.maxT {
				add("pointer", "chunk at %d: header times [%d,%d] but messages span [%d,%d] (n=%d)", r.Offset, r.MessageStartTime, r.MessageEndTime, ci.minT, ci.maxT, ci.nMsgs)
			}
			c := crc(r.Uncompressed)
			if r.UncompressedCRC != 0 && r.UncompressedCRC != c {
				add("crc", "chunk at %d: uncompressed_crc %08x, computed %08x", r.Offset, r.UncompressedCRC, c)
			}
			if vo.ExpectCRC != nil {
				if *vo.ExpectCRC && r.UncompressedCRC != c {
					add("crc", "chunk at %d: uncompressed_crc %08x, expected %08x", r.Offset, r.UncompressedCRC, c)
				}
				if !*vo.ExpectCRC && r.UncompressedCRC != 0 {
					add("crc", "chunk at %d: uncompressed_crc %08x with CRCs disabled", r.Offset, r.UncompressedCRC)
				}
			}
			chunks = append(chunks, ci)
			lastChunk = ci
		case OpMessageIndex:
			if lastChunk == nil {
				add("grammar", "message index at %d does not directly follow a chunk", r.Offset)
			} else {
				lastChunk.idxRecs = append(lastChunk.idxRecs, r)
				lastChunk.idxEnd = r.End()
			}
		case OpAttachment:
			attachments = append(attachments, r)
			c := crc(r.Body[:len(r.Body)-4-r.Extra])
			if r.CRC != c && (r.CRC != 0 || vo.RequireAttachmentCRC) {
				add("crc", "attachment at %d: crc %08x, computed %08x", r.Offset, r.CRC, c)
			}
		case OpMetadata:
			metadatas = append(metadatas, r)
		case OpHeader, OpFooter, OpChunkIndex, OpAttachmentIndex, OpStatistics, OpMetadataIndex, OpSummaryOffset, OpDataEnd:
			add("grammar", "record op 0x%02x at %d not allowed in data section", r.Op, r.Offset)
		}
	}
	// message index content
	for _, ci := range chunks {
		seen := map[uint16]bool{}
		for _, ir := range ci.idxRecs {
			if seen[ir.ChannelID] {
				add("pointer", "chunk at %d: two message index records for channel %d", ci.rec.Offset, ir.ChannelID)
			}
			seen[ir.ChannelID] = true
			want := ci.msgs[ir.ChannelID]
			if len(want) != len(ir.Entries) {
				add("pointer", "chunk at %d: message index for channel %d has %d entries, chunk has %d messages", ci.rec.Offset, ir.ChannelID, len(ir.Entries), len(want))
				continue
			}
			// entries must designate exactly the messages (as a multiset; writer order = file order)
			a := append([]IdxEntry{}, want...)
			b := append([]IdxEntry{}, ir.Entries...)
			less := func(s []IdxEntry) func(i, j int) bool {
				return func(i, j int) bool {
					if s[i].Offset != s[j].Offset {
						return s[i].Offset < s[j].Offset
					}
					return s[i].Time < s[j].Time
				}
			}
			sort.Slice(a, less(a))
			sort.Slice(b, less(b))
			for k := range a {
				if a[k] != b[k] {
					add("pointer", "chunk at %d: message index channel %d entry %v, expected %v", ci.rec.Offset, ir.ChannelID, b[k], a[k])
					break
				}
			}
		}
		if len(ci.idxRecs) > 0 || (vo.ExpectMessageIndexes != nil && *vo.ExpectMessageIndexes) {
			for ch := range ci.msgs {
				if !seen[ch] {
					add("pointer", "chunk at %d: no message index record for channel %d which has messages", ci.rec.Offset, ch)
				}
			}
		}
		if vo.ExpectMessageIndexes != nil && !*vo.ExpectMessageIndexes && len(ci.idxRecs) > 0 {
			add("grammar", "chunk at %d: message index records present although disabled", ci.rec.Offset)
		}
	}
	// ---- data end CRC
	dataCRC := crc(f.Bytes[:de.Offset])
	if de.DataSectionCRC != 0 && de.DataSectionCRC != dataCRC {
		add("crc", "data_section_crc %08x, computed %08x", de.DataSectionCRC, dataCRC)
	}
	if vo.ExpectCRC != nil {
		if *vo.ExpectCRC && de.DataSectionCRC != dataCRC {
			add("crc", "data_section_crc %08x, expected %08x", de.DataSectionCRC, dataCRC)
		}
		if !*vo.ExpectCRC && de.DataSectionCRC != 0 {
			add("crc", "data_section_crc %08x with CRCs disabled", de.DataSectionCRC)
		}
	}
	if de.Len != 4 {
		add("grammar", "DataEnd length %d", de.Len)
	}
	// ---- summary section
	summaryBegin := de.End()
	var groups []struct {
		op         byte
		start, end uint64
	}
	firstSO := -1
	var sumSchemas, sumChannels = map[uint16]*Record{}, map[uint16]*Record{}
	var chunkIdx, attIdx, mdIdx, stats, sos []*Record
	seenChannelsBeforeStats := true
	for i := f.DataEndIdx + 1; i < f.FooterIdx; i++ {
		r := recs[i]
		if r.Op == OpSummaryOffset {
			if firstSO < 0 {
				firstSO = i
			}
			sos = append(sos, r)
			continue
		}
		if firstSO >= 0 {
			add("grammar", "record op 0x%02x at %d after the summary offset section began", r.Op, r.Offset)
		}
		switch r.Op {
		case OpSchema:
			sumSchemas[r.ID] = r
			if p, ok := schemas[r.ID]; ok && (p.Name != r.Name || p.Encoding != r.Encoding || !bytes.Equal(p.Data, r.Data)) {
				add("grammar", "summary schema %d differs from data section", r.ID)
			}
		case OpChannel:
			sumChannels[r.ID] = r
			if p, ok := channels[r.ID]; ok && (p.SchemaID != r.SchemaID || p.Topic != r.Topic || p.MessageEncoding != r.MessageEncoding || fmt.Sprint(p.MetaMap()) != fmt.Sprint(r.MetaMap())) {
				add("grammar", "summary channel %d differs from data section", r.ID)
			}
		case OpChunkIndex:
			chunkIdx = append(chunkIdx, r)
		case OpAttachmentIndex:
			attIdx = append(attIdx, r)
		case OpMetadataIndex:
			mdIdx = append(mdIdx, r)
		case OpStatistics:
			stats = append(stats, r)
			if len(sumChannels) == 0 {
				seenChannelsBeforeStats = false
			}
		default:
			if r.Op <= 0x0F {
				add("grammar", "record op 0x%02x at %d not allowed in summary section", r.Op, r.Offset)
			}
		}
		if n := len(groups); n > 0 && groups[n-1].op == r.Op {
			groups[n-1].end = r.End()
		} else {
			for _, g := range groups {
				if g.op == r.Op {
					add("grammar", "summary records of op 0x%02x are not contiguous (again at %d)", r.Op, r.Offset)
				}
			}
			groups = append(groups, struct {
				op         byte
				start, end uint64
			}{r.Op, r.Offset, r.End()})
		}
	}
	if len(stats) > 1 {
		add("grammar", "%d statistics records", len(stats))
	}
	// footer pointers
	hasSummary := len(groups) > 0
	if hasSummary {
		if footer.SummaryStart != summaryBegin {
			add("pointer", "footer summary_start %d, first summary record at %d", footer.SummaryStart, summaryBegin)
		}
	} else if footer.SummaryStart != 0 {
		add("pointer", "footer summary_start %d but summary section is empty", footer.SummaryStart)
	}
	if len(sos) > 0 {
		if footer.SummaryOffsetStart != recs[firstSO].Offset {
			add("pointer", "footer summary_offset_start %d, first summary offset record at %d", footer.SummaryOffsetStart, recs[firstSO].Offset)
		}
	} else if footer.SummaryOffsetStart != 0 {
		if footer.SummaryOffsetStart == footer.Offset {
			add("note", "footer summary_offset_start = footer offset with no summary offset records (spec: should be 0)")
		} else {
			add("pointer", "footer summary_offset_start %d with no summary offset records (footer at %d)", footer.SummaryOffsetStart, footer.Offset)
		}
	}
	// summary CRC: from the byte after DataEnd through the footer's summary_offset_start field
	sumCRC := crc(f.Bytes[summaryBegin : footer.Offset+9+16])
	if footer.SummaryCRC != 0 && footer.SummaryCRC != sumCRC {
		add("crc", "summary_crc %08x, computed %08x", footer.SummaryCRC, sumCRC)
	}
	if vo.ExpectCRC != nil {
		if *vo.ExpectCRC && footer.SummaryCRC != sumCRC {
			add("crc", "summary_crc %08x, expected %08x", footer.SummaryCRC, sumCRC)
		}
		if !*vo.ExpectCRC && footer.SummaryCRC != 0 {
			add("crc", "summary_crc %08x with CRCs disabled", footer.SummaryCRC)
		}
	}
	// summary offsets
	if vo.ExpectSummaryOffsets != nil {
		if *vo.ExpectSummaryOffsets && len(sos) != len(groups) {
			add("pointer", "%d summary offset records for %d summary groups", len(sos), len(groups))
		}
		if !*vo.ExpectSummaryOffsets && len(sos) != 0 {
			add("grammar", "summary offsets present although disabled")
		}
	}
	soSeen := map[byte]bool{}
	for _, so := range sos {
		if so.GroupOpcode > 0x0F {
			continue // groups of unknown records: nothing the specification lets us check
		}
		if soSeen[so.GroupOpcode] {
			add("pointer", "two summary offsets for op 0x%02x", so.GroupOpcode)
		}
		soSeen[so.GroupOpcode] = true
		found := false
		for _, g := range groups {
			if g.op == so.GroupOpcode {
				found = true
				if so.GroupStart != g.start || so.GroupLength != g.end-g.start {
					add("pointer", "summary offset op 0x%02x: (%d,+%d), group is (%d,+%d)", so.GroupOpcode, so.GroupStart, so.GroupLength, g.start, g.end-g.start)
				}
			}
		}
		if !found {
			add("pointer", "summary offset for op 0x%02x without such group", so.GroupOpcode)
		}
	}
	// chunk indexes
	if len(chunkIdx) > 0 {
		if len(chunkIdx) != len(chunks) {
			add("pointer", "%d chunk index records for %d chunks", len(chunkIdx), len(chunks))
		}
		byOff := map[uint64]*chunkInfo{}
		for _, ci := range chunks {
			byOff[ci.rec.Offset] = ci
		}
		used := map[uint64]bool{}
		for _, x := range chunkIdx {
			ci := byOff[x.ChunkStartOffset]
			if ci == nil {
				add("pointer", "chunk index at %d: chunk_start_offset %d is not a chunk record", x.Offset, x.ChunkStartOffset)
				continue
			}
			if used[x.ChunkStartOffset] {
				add("pointer", "two chunk indexes for chunk at %d", x.ChunkStartOffset)
			}
			used[x.ChunkStartOffset] = true
			c := ci.rec
			if x.ChunkLength != 9+c.Len {
				add("pointer", "chunk index for %d: chunk_length %d, record is %d", c.Offset, x.ChunkLength, 9+c.Len)
			}
			if x.MessageStartTime != c.MessageStartTime || x.MessageEndTime != c.MessageEndTime {
				add("pointer", "chunk index for %d: times [%d,%d], chunk header [%d,%d]", c.Offset, x.MessageStartTime, x.MessageEndTime, c.MessageStartTime, c.MessageEndTime)
			}
			if x.Compression != c.Compression || x.CompressedSize != c.CompressedSize || x.UncompressedSize != c.UncompressedSize {
				add("pointer", "chunk index for %d: compression/size (%q,%d,%d) vs chunk (%q,%d,%d)", c.Offset, x.Compression, x.CompressedSize, x.UncompressedSize, c.Compression, c.CompressedSize, c.UncompressedSize)
			}
			if x.MessageIndexLength != ci.idxEnd-ci.idxStart {
				add("pointer", "chunk index for %d: message_index_length %d, records after chunk span %d", c.Offset, x.MessageIndexLength, ci.idxEnd-ci.idxStart)
			}
			mio := map[uint16]uint64{}
			for _, e := range x.MessageIndexOffsets {
				if _, dup := mio[e.K]; dup {
					add("pointer", "chunk index for %d: duplicate message index offset for channel %d", c.Offset, e.K)
				}
				mio[e.K] = e.V
			}
			for _, ir := range ci.idxRecs {
				if off, ok := mio[ir.ChannelID]; !ok {
					add("pointer", "chunk index for %d: no message_index_offsets entry for channel %d", c.Offset, ir.ChannelID)
				} else if off != ir.Offset {
					add("pointer", "chunk index for %d: message index offset for channel %d is %d, record at %d", c.Offset, ir.ChannelID, off, ir.Offset)
				}
				delete(mio, ir.ChannelID)
			}
			for ch, off := range mio {
				add("pointer", "chunk index for %d: message_index_offsets[%d]=%d designates no message index record", c.Offset, ch, off)
			}
			if x.Extra != 0 && vo.StrictWriter {
				add("grammar", "chunk index at %d has %d trailing bytes", x.Offset, x.Extra)
			}
		}
		// messages in indexed chunks need summary channel + schema
		for _, ci := range chunks {
			for ch := range ci.msgs {
				sc := sumChannels[ch]
				if sc == nil {
					if !vo.WaiveSummaryChannels {
						add("grammar", "chunk-indexed message channel %d has no summary channel record", ch)
					}
					continue
				}
				if sc.SchemaID != 0 && sumSchemas[sc.SchemaID] == nil && !vo.WaiveSummarySchemas {
					add("grammar", "summary channel %d: schema %d has no summary schema record", ch, sc.SchemaID)
				}
			}
		}
	}
	// attachment index
	if len(attIdx) > 0 {
		if len(attIdx) != len(attachments) {
			add("pointer", "%d attachment index records for %d attachments", len(attIdx), len(attachments))
		}
		for k, x := range attIdx {
			if k >= len(attachments) {
				break
			}
			var a *Record
			for _, c := range attachments {
				if c.Offset == x.AttOffset {
					a = c
				}
			}
			if a == nil {
				add("pointer", "attachment index at %d: offset %d is not an attachment record", x.Offset, x.AttOffset)
				continue
			}
			if x.AttLength != 9+a.Len || x.LogTime != a.LogTime || x.CreateTime != a.CreateTime || x.DataSize != a.DataSize || x.Name != a.Name || x.MediaType != a.MediaType {
				add("pointer", "attachment index for %d: (len %d, %d, %d, size %d, %q, %q) vs record (len %d, %d, %d, size %d, %q, %q)", a.Offset,
					x.AttLength, x.LogTime, x.CreateTime, x.DataSize, x.Name, x.MediaType, 9+a.Len, a.LogTime, a.CreateTime, a.DataSize, a.Name, a.MediaType)
			}
		}
		seen := map[uint64]bool{}
		for _, x := range attIdx {
			if seen[x.AttOffset] {
				add("pointer", "two attachment indexes for offset %d", x.AttOffset)
			}
			seen[x.AttOffset] = true
		}
	}
	if len(mdIdx) > 0 {
		if len(mdIdx) != len(metadatas) {
			add("pointer", "%d metadata index records for %d metadata records", len(mdIdx), len(metadatas))
		}
		seen := map[uint64]bool{}
		for _, x := range mdIdx {
			var m *Record
			for _, c := range metadatas {
				if c.Offset == x.AttOffset {
					m = c
				}
			}
			if m == nil {
				add("pointer", "metadata index at %d: offset %d is not a metadata record", x.Offset, x.AttOffset)
				continue
			}
			if x.AttLength != 9+m.Len || x.Name != m.Name {
				add("pointer", "metadata index for %d: (len %d, %q) vs record (len %d, %q)", m.Offset, x.AttLength, x.Name, 9+m.Len, m.Name)
			}
			if seen[x.AttOffset] {
				add("pointer", "two metadata indexes for offset %d", x.AttOffset)
			}
			seen[x.AttOffset] = true
		}
	}
	// statistics vs channels ordering MUST
	if len(stats) == 1 && len(stats[0].ChannelMessageCounts) > 0 && !vo.WaiveSummaryChannels {
		if !seenChannelsBeforeStats {
			add("grammar", "statistics with channel_message_counts precedes summary channel records")
		}
		for _, e := range stats[0].ChannelMessageCounts {
			if sumChannels[e.K] == nil {
				add("grammar", "statistics counts channel %d which has no summary channel record", e.K)
			}
		}
	}
	_ = msgTotal
	_ = chanCounts
	_ = gMin
	_ = gMax
	return is
}

// Aggregates are the true aggregates of a decoded file's data section.
type Aggregates struct {
	MessageCount                            uint64
	ChannelCounts                           map[uint16]uint64
	Schemas, Channels                       map[uint16]bool
	Attachments, Metadata, Chunks           int
	MinTime, MaxTime                        uint64
}

func (f *File) Aggregate() Aggregates {
	a := Aggregates{ChannelCounts: map[uint16]uint64{}, Schemas: map[uint16]bool{}, Channels: map[uint16]bool{}}
	first := true
	for i, r := range f.Records {
		if f.DataEndIdx >= 0 && i >= f.DataEndIdx {
			break
		}
		var list []*Record
		if r.Op == OpChunk {
			a.Chunks++
			list = r.Inner
		} else {
			list = []*Record{r}
		}
		for _, x := range list {
			switch x.Op {
			case OpSchema:
				if x.ID != 0 {
					a.Schemas[x.ID] = true
				}
			case OpChannel:
				a.Channels[x.ID] = true
			case OpMessage:
				a.MessageCount++
				a.ChannelCounts[x.ChannelID]++
				if first || x.LogTime < a.MinTime {
					a.MinTime = x.LogTime
				}
				if first || x.LogTime > a.MaxTime {
					a.MaxTime = x.LogTime
				}
				first = false
			case OpAttachment:
				a.Attachments++
			case OpMetadata:
				a.Metadata++
			}
		}
	}
	return a
}

// Find returns the top-level records with the given opcode (summary: after DataEnd only).
func (f *File) Summary(op byte) []*Record {
	var out []*Record
	for i := f.DataEndIdx + 1; i < len(f.Records) && f.DataEndIdx >= 0; i++ {
		if f.Records[i].Op == op {
			out = append(out, f.Records[i])
		}
	}
	return out
}

func (f *File) Data(op byte) []*Record {
	var out []*Record
	for i, r := range f.Records {
		if f.DataEndIdx >= 0 && i >= f.DataEndIdx {
			break
		}
		if r.Op == op {
			out = append(out, r)
		}
	}
	return out
}
