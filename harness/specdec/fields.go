package specdec

import "encoding/binary"

// Field is one numeric field of a file: where it is, how wide, what it means.
type Field struct {
	Off   uint64 // absolute file offset
	Width int    // 1, 2, 4 or 8
	Kind  string // opcode | reclen | strlen | byteslen | maplen | arrlen | offset | length | size | count | time | id | crc | other
	Op    byte   // opcode of the containing record
	Name  string
	InChunk bool
}

type tok struct{ t, kind, name string }

var layouts = map[byte][]tok{
	OpHeader:          {{"str", "", "profile"}, {"str", "", "library"}},
	OpFooter:          {{"u64", "offset", "summary_start"}, {"u64", "offset", "summary_offset_start"}, {"u32", "crc", "summary_crc"}},
	OpSchema:          {{"u16", "id", "id"}, {"str", "", "name"}, {"str", "", "encoding"}, {"bytes32", "", "data"}},
	OpChannel:         {{"u16", "id", "id"}, {"u16", "id", "schema_id"}, {"str", "", "topic"}, {"str", "", "message_encoding"}, {"map_ss", "", "metadata"}},
	OpMessage:         {{"u16", "id", "channel_id"}, {"u32", "count", "sequence"}, {"u64", "time", "log_time"}, {"u64", "time", "publish_time"}},
	OpChunk:           {{"u64", "time", "message_start_time"}, {"u64", "time", "message_end_time"}, {"u64", "size", "uncompressed_size"}, {"u32", "crc", "uncompressed_crc"}, {"str", "", "compression"}, {"u64", "length", "records_length"}},
	OpMessageIndex:    {{"u16", "id", "channel_id"}, {"arr", "", "records"}},
	OpChunkIndex:      {{"u64", "time", "message_start_time"}, {"u64", "time", "message_end_time"}, {"u64", "offset", "chunk_start_offset"}, {"u64", "length", "chunk_length"}, {"map_u16u64", "offset", "message_index_offsets"}, {"u64", "length", "message_index_length"}, {"str", "", "compression"}, {"u64", "size", "compressed_size"}, {"u64", "size", "uncompressed_size"}},
	OpAttachment:      {{"u64", "time", "log_time"}, {"u64", "time", "create_time"}, {"str", "", "name"}, {"str", "", "media_type"}, {"bytes64", "", "data"}, {"u32", "crc", "crc"}},
	OpAttachmentIndex: {{"u64", "offset", "offset"}, {"u64", "length", "length"}, {"u64", "time", "log_time"}, {"u64", "time", "create_time"}, {"u64", "size", "data_size"}, {"str", "", "name"}, {"str", "", "media_type"}},
	OpStatistics:      {{"u64", "count", "message_count"}, {"u16", "count", "schema_count"}, {"u32", "count", "channel_count"}, {"u32", "count", "attachment_count"}, {"u32", "count", "metadata_count"}, {"u32", "count", "chunk_count"}, {"u64", "time", "message_start_time"}, {"u64", "time", "message_end_time"}, {"map_u16u64", "count", "channel_message_counts"}},
	OpMetadata:        {{"str", "", "name"}, {"map_ss", "", "metadata"}},
	OpMetadataIndex:   {{"u64", "offset", "offset"}, {"u64", "length", "length"}, {"str", "", "name"}},
	OpSummaryOffset:   {{"u8", "opcode", "group_opcode"}, {"u64", "offset", "group_start"}, {"u64", "length", "group_length"}},
	OpDataEnd:         {{"u32", "crc", "data_section_crc"}},
}

func recordFields(op byte, body []byte, base uint64, inChunk bool, out []Field) []Field {
	pos := 0
	add := func(w int, kind, name string) {
		out = append(out, Field{Off: base + uint64(pos), Width: w, Kind: kind, Op: op, Name: name, InChunk: inChunk})
	}
	for _, t := range layouts[op] {
		switch t.t {
		case "u8":
			if pos+1 > len(body) {
				return out
			}
			add(1, t.kind, t.name)
			pos++
		case "u16":
			if pos+2 > len(body) {
				return out
			}
			add(2, t.kind, t.name)
			pos += 2
		case "u32":
			if pos+4 > len(body) {
				return out
			}
			add(4, t.kind, t.name)
			pos += 4
		case "u64":
			if pos+8 > len(body) {
				return out
			}
			add(8, t.kind, t.name)
			pos += 8
		case "str", "bytes32", "map_ss", "map_u16u64", "arr":
			if pos+4 > len(body) {
				return out
			}
			n := int(binary.LittleEndian.Uint32(body[pos:]))
			kind := map[string]string{"str": "strlen", "bytes32": "byteslen", "map_ss": "maplen", "map_u16u64": "maplen", "arr": "arrlen"}[t.t]
			add(4, kind, t.name)
			pos += 4
			if n > len(body)-pos {
				return out
			}
			switch t.t {
			case "map_ss":
				end := pos + n
				for pos+4 <= end {
					add(4, "strlen", t.name+".entry")
					l := int(binary.LittleEndian.Uint32(body[pos:]))
					pos += 4
					if l > end-pos {
						pos = end
						break
					}
					pos += l
				}
				pos = end
			case "map_u16u64":
				end := pos + n
				for pos+10 <= end {
					pos += 2
					add(8, t.kind, t.name+".value")
					pos += 8
				}
				pos = end
			case "arr":
				end := pos + n
				for pos+16 <= end {
					add(8, "time", "records.time")
					pos += 8
					add(8, "offset", "records.offset")
					pos += 8
				}
				pos = end
			default:
				pos += n
			}
		case "bytes64":
			if pos+8 > len(body) {
				return out
			}
			n := binary.LittleEndian.Uint64(body[pos:])
			add(8, "byteslen", t.name)
			pos += 8
			if n > uint64(len(body)-pos) {
				return out
			}
			pos += int(n)
		}
	}
	return out
}

// Fields lists every numeric field of a decoded file (records inside uncompressed chunks included).
func Fields(f *File) []Field {
	var out []Field
	for _, r := range f.Records {
		out = append(out, Field{Off: r.Offset, Width: 1, Kind: "opcode", Op: r.Op, Name: "opcode"})
		out = append(out, Field{Off: r.Offset + 1, Width: 8, Kind: "reclen", Op: r.Op, Name: "record_length"})
		out = recordFields(r.Op, r.Body, r.Offset+9, false, out)
		if r.Op == OpChunk && r.Compression == "" {
			for _, in := range r.Inner {
				b := r.PayloadOffset + in.Offset
				out = append(out, Field{Off: b, Width: 1, Kind: "opcode", Op: in.Op, Name: "opcode", InChunk: true})
				out = append(out, Field{Off: b + 1, Width: 8, Kind: "reclen", Op: in.Op, Name: "record_length", InChunk: true})
				out = recordFields(in.Op, in.Body, b+9, true, out)
			}
		}
	}
	return out
}
