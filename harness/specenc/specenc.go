// Package specenc is a layout-parameterised reference MCAP encoder written from the specification
// and from tests/conformance/scripts/generate-inputs.ts. It does not import go/mcap. It is pinned:
// with the conformance layout it reproduces all 416 conformance binaries byte for byte (TestPins).
package specenc

import (
	"bytes"
	"encoding/binary"
	"fmt"
	"hash/crc32"
	"sort"
	"strings"

	"github.com/klauspost/compress/zstd"
	"github.com/pierrec/lz4/v4"
	"verifharness/wl"
)

var Magic = []byte{0x89, 'M', 'C', 'A', 'P', 0x30, '\r', '\n'}

// Builder appends records to a buffer. Pad is appended to every extensible record.
type Builder struct {
	Buf        []byte
	Pad        []byte
	PadVary    bool // use a varying prefix (1..len(Pad) bytes) of Pad per record
	padN       int
	SortedMaps bool
}

func (b *Builder) Len() uint64 { return uint64(len(b.Buf)) }

type rec struct {
	b     *Builder
	start int
}

func (b *Builder) begin(op byte) rec {
	b.Buf = append(b.Buf, op, 0, 0, 0, 0, 0, 0, 0, 0)
	return rec{b, len(b.Buf)}
}
func (r rec) end(pad bool) uint64 {
	if pad && len(r.b.Pad) > 0 {
		p := r.b.Pad
		if r.b.PadVary {
			r.b.padN++
			p = p[:1+(r.b.padN*7)%len(p)]
		}
		r.b.Buf = append(r.b.Buf, p...)
	}
	binary.LittleEndian.PutUint64(r.b.Buf[r.start-8:], uint64(len(r.b.Buf)-r.start))
	return uint64(len(r.b.Buf) - r.start + 9)
}
func (b *Builder) u8(v byte)    { b.Buf = append(b.Buf, v) }
func (b *Builder) u16(v uint16) { b.Buf = binary.LittleEndian.AppendUint16(b.Buf, v) }
func (b *Builder) u32(v uint32) { b.Buf = binary.LittleEndian.AppendUint32(b.Buf, v) }
func (b *Builder) u64(v uint64) { b.Buf = binary.LittleEndian.AppendUint64(b.Buf, v) }
func (b *Builder) str(s string) { b.u32(uint32(len(s))); b.Buf = append(b.Buf, s...) }
func (b *Builder) kvs(in []wl.KV) {
	if b.SortedMaps {
		in = wl.SortedKV(in)
	}
	at := len(b.Buf)
	b.u32(0)
	for _, kv := range in {
		b.str(kv.K)
		b.str(kv.V)
	}
	binary.LittleEndian.PutUint32(b.Buf[at:], uint32(len(b.Buf)-at-4))
}

func (b *Builder) Magic() { b.Buf = append(b.Buf, Magic...) }
func (b *Builder) Header(profile, library string) uint64 {
	r := b.begin(0x01)
	b.str(profile)
	b.str(library)
	return r.end(true)
}
func (b *Builder) Footer(summaryStart, summaryOffsetStart uint64, crc uint32) uint64 {
	r := b.begin(0x02)
	b.u64(summaryStart)
	b.u64(summaryOffsetStart)
	b.u32(crc)
	return r.end(false)
}
func (b *Builder) Schema(s *wl.Schema) uint64 {
	r := b.begin(0x03)
	b.u16(s.ID)
	b.str(s.Name)
	b.str(s.Encoding)
	b.u32(uint32(len(s.Data)))
	b.Buf = append(b.Buf, s.Data...)
	return r.end(true)
}
func (b *Builder) Channel(c *wl.Channel) uint64 {
	r := b.begin(0x04)
	b.u16(c.ID)
	b.u16(c.SchemaID)
	b.str(c.Topic)
	b.str(c.MessageEncoding)
	b.kvs(c.Metadata)
	return r.end(true)
}
func (b *Builder) Message(m *wl.Message) uint64 {
	r := b.begin(0x05)
	b.u16(m.ChannelID)
	b.u32(m.Sequence)
	b.u64(m.LogTime)
	b.u64(m.PublishTime)
	b.Buf = append(b.Buf, m.Data...)
	return r.end(false)
}

type ChunkHdr struct {
	Start, End, UncompressedSize uint64
	CRC                          uint32
	Compression                  string
}

func (b *Builder) Chunk(h ChunkHdr, payload []byte) uint64 {
	r := b.begin(0x06)
	b.u64(h.Start)
	b.u64(h.End)
	b.u64(h.UncompressedSize)
	b.u32(h.CRC)
	b.str(h.Compression)
	b.u64(uint64(len(payload)))
	b.Buf = append(b.Buf, payload...)
	return r.end(false)
}

type IdxEntry struct{ Time, Offset uint64 }

func (b *Builder) MessageIndex(ch uint16, es []IdxEntry) uint64 {
	r := b.begin(0x07)
	b.u16(ch)
	b.u32(uint32(16 * len(es)))
	for _, e := range es {
		b.u64(e.Time)
		b.u64(e.Offset)
	}
	return r.end(true)
}

type ChunkIndex struct {
	Start, End, Offset, Length uint64
	MsgIdxOffsets              []struct {
		Ch  uint16
		Off uint64
	}
	MsgIdxLength                     uint64
	Compression                      string
	CompressedSize, UncompressedSize uint64
}

func (b *Builder) ChunkIndex(x *ChunkIndex) uint64 {
	r := b.begin(0x08)
	b.u64(x.Start)
	b.u64(x.End)
	b.u64(x.Offset)
	b.u64(x.Length)
	b.u32(uint32(10 * len(x.MsgIdxOffsets)))
	for _, e := range x.MsgIdxOffsets {
		b.u16(e.Ch)
		b.u64(e.Off)
	}
	b.u64(x.MsgIdxLength)
	b.str(x.Compression)
	b.u64(x.CompressedSize)
	b.u64(x.UncompressedSize)
	return r.end(true)
}
func (b *Builder) Attachment(a *wl.Attachment) uint64 {
	r := b.begin(0x09)
	b.u64(a.LogTime)
	b.u64(a.CreateTime)
	b.str(a.Name)
	b.str(a.MediaType)
	b.u64(uint64(len(a.Data)))
	b.Buf = append(b.Buf, a.Data...)
	b.u32(crc32.ChecksumIEEE(b.Buf[r.start:]))
	return r.end(true)
}

type AttachmentIndex struct {
	Offset, Length, LogTime, CreateTime, DataSize uint64
	Name, MediaType                               string
}

func (b *Builder) AttachmentIndex(x *AttachmentIndex) uint64 {
	r := b.begin(0x0A)
	b.u64(x.Offset)
	b.u64(x.Length)
	b.u64(x.LogTime)
	b.u64(x.CreateTime)
	b.u64(x.DataSize)
	b.str(x.Name)
	b.str(x.MediaType)
	return r.end(true)
}

type Statistics struct {
	MessageCount                                             uint64
	SchemaCount                                              uint16
	ChannelCount, AttachmentCount, MetadataCount, ChunkCount uint32
	Start, End                                               uint64
	Counts                                                   []struct {
		Ch uint16
		N  uint64
	}
}

func (b *Builder) Statistics(s *Statistics) uint64 {
	r := b.begin(0x0B)
	b.u64(s.MessageCount)
	b.u16(s.SchemaCount)
	b.u32(s.ChannelCount)
	b.u32(s.AttachmentCount)
	b.u32(s.MetadataCount)
	b.u32(s.ChunkCount)
	b.u64(s.Start)
	b.u64(s.End)
	b.u32(uint32(10 * len(s.Counts)))
	for _, e := range s.Counts {
		b.u16(e.Ch)
		b.u64(e.N)
	}
	return r.end(true)
}
func (b *Builder) Metadata(m *wl.Metadata) uint64 {
	r := b.begin(0x0C)
	b.str(m.Name)
	b.kvs(m.Metadata)
	return r.end(true)
}
func (b *Builder) MetadataIndex(off, length uint64, name string) uint64 {
	r := b.begin(0x0D)
	b.u64(off)
	b.u64(length)
	b.str(name)
	return r.end(true)
}
func (b *Builder) SummaryOffset(op byte, start, length uint64) uint64 {
	r := b.begin(0x0E)
	b.u8(op)
	b.u64(start)
	b.u64(length)
	return r.end(true)
}
func (b *Builder) DataEnd(crc uint32) uint64 {
	r := b.begin(0x0F)
	b.u32(crc)
	return r.end(false)
}
func (b *Builder) Unknown(op byte, body []byte) uint64 {
	r := b.begin(op)
	b.Buf = append(b.Buf, body...)
	return r.end(false)
}

// ---- layouts

type UnknownRec struct {
	Where string // "data" (before top-level unit #Pos), "chunk" (chunk #Chunk, before inner record #Pos), "summary" (own group before group #Pos)
	Chunk int
	Pos   int
	Op    byte
	Body  []byte
	// WithOffset: a summary-offset record is emitted for a summary unknown group
	WithOffset bool
}

// Layout says how a logical content is laid out in bytes.
type Layout struct {
	Chunked bool
	// CutAfter lists op indexes (into Workload.Ops) after which the open chunk is closed.
	// With Chunked and no cuts everything chunkable goes into one chunk closed at the end.
	CutAfter     []int
	Compression  []string // per chunk, cycled ("" | "zstd" | "lz4")
	RepeatDefs   int      // 0: none; 1: every chunk after the first re-states all known schemas+channels first; 2: same but at top level before the chunk
	MessageIndex bool
	// IndexAllChannels: conformance-generator style, one (possibly empty) index record per channel record added to the chunk.
	IndexAllChannels                                                                      bool
	ChunkIndex, RepeatSchemas, RepeatChannels, Statistics, AttachmentIndex, MetadataIndex bool
	SummaryOffsets                                                                        bool
	// SummaryOrder is a permutation of "schema","channel","stats","mdx","ax","chx". Empty = that order.
	SummaryOrder []string
	CRC          bool
	Pad          []byte
	PadVary      bool
	PadInChunks  bool
	SortedMaps   bool
	Unknown      []UnknownRec
	// ZeroSummaryOffsetStartWhenNone: footer.summary_offset_start = 0 when no summary offset record is written
	// (the conformance generator writes the would-be position instead when "sum" is on).
	ZeroSummaryOffsetStartWhenNone bool
	// CountRecords: statistics count schema/channel *records* (conformance generator) instead of distinct ids.
	CountRecords bool
}

var DefaultSummaryOrder = []string{"schema", "channel", "stats", "mdx", "ax", "chx"}

// ConformanceLayout is the layout generate-inputs.ts produces for a feature set.
func ConformanceLayout(features map[string]bool) Layout {
	l := Layout{
		Chunked: features["ch"], MessageIndex: features["mx"], IndexAllChannels: true,
		ChunkIndex: features["chx"], RepeatSchemas: features["rsh"], RepeatChannels: features["rch"], Statistics: features["st"],
		AttachmentIndex: features["ax"], MetadataIndex: features["mdx"], SummaryOffsets: features["sum"], CRC: true, CountRecords: true,
	}
	if features["pad"] {
		l.Pad = []byte{0x01, 0xff, 0xff}
	}
	return l
}

// CodecName is the compression string written into the file for a layout's compression kind. Kinds with
// a suffix are other legal ways to use the same codec: "zstd-zeroframe" (a proper empty frame for empty
// input, as the reference zstd library emits), "zstd-multi" (the data split over two concatenated frames),
// "zstd-skippable" (a skippable frame after the data frame), "zstd-nocrc" (no content checksum).
func CodecName(kind string) string {
	if i := strings.IndexByte(kind, '-'); i >= 0 {
		return kind[:i]
	}
	return kind
}

func compress(kind string, in []byte) ([]byte, error) {
	zenc := func(data []byte, opts ...zstd.EOption) ([]byte, error) {
		e, err := zstd.NewWriter(nil, opts...)
		if err != nil {
			return nil, err
		}
		defer e.Close()
		return e.EncodeAll(data, nil), nil
	}
	switch kind {
	case "":
		return in, nil
	case "zstd":
		return zenc(in)
	case "zstd-zeroframe":
		return zenc(in, zstd.WithZeroFrames(true))
	case "zstd-nocrc":
		return zenc(in, zstd.WithEncoderCRC(false), zstd.WithZeroFrames(true))
	case "zstd-multi":
		a, err := zenc(in[:len(in)/2], zstd.WithZeroFrames(true))
		if err != nil {
			return nil, err
		}
		b, err := zenc(in[len(in)/2:], zstd.WithZeroFrames(true))
		return append(a, b...), err
	case "zstd-skippable":
		a, err := zenc(in, zstd.WithZeroFrames(true))
		// skippable frame: magic 0x184D2A5x, little-endian size, that many bytes
		return append(a, 0x53, 0x2a, 0x4d, 0x18, 5, 0, 0, 0, 's', 'k', 'i', 'p', '!'), err
	case "lz4":
		var out bytes.Buffer
		w := lz4.NewWriter(&out)
		if _, err := w.Write(in); err != nil {
			return nil, err
		}
		if err := w.Close(); err != nil {
			return nil, err
		}
		return out.Bytes(), nil
	}
	return nil, fmt.Errorf("specenc: unknown compression %q", kind)
}

type openChunk struct {
	b          *Builder
	idx        map[uint16][]IdxEntry
	order      []uint16 // channels in index order
	nMsgs      int
	start, end uint64
	nInner     int
}

// Encode lays the workload out. It returns the file and the number of chunks written.
func Encode(w *wl.Workload, l Layout) ([]byte, int, error) {
	b := &Builder{Pad: l.Pad, PadVary: l.PadVary, SortedMaps: l.SortedMaps}
	b.Magic()
	b.Header(w.Profile, w.Library)

	cut := map[int]bool{}
	for _, i := range l.CutAfter {
		cut[i] = true
	}
	unkData := map[int][]UnknownRec{}
	unkChunk := map[[2]int][]UnknownRec{}
	unkSummary := map[int][]UnknownRec{}
	for _, u := range l.Unknown {
		switch u.Where {
		case "data":
			unkData[u.Pos] = append(unkData[u.Pos], u)
		case "chunk":
			unkChunk[[2]int{u.Chunk, u.Pos}] = append(unkChunk[[2]int{u.Chunk, u.Pos}], u)
		case "summary":
			unkSummary[u.Pos] = append(unkSummary[u.Pos], u)
		}
	}
	// summary records must be grouped by opcode: unknown records sharing a position are emitted op by op
	for _, list := range unkSummary {
		sort.SliceStable(list, func(i, j int) bool { return list[i].Op < list[j].Op })
	}
	unit := 0
	beforeUnit := func() {
		for _, u := range unkData[unit] {
			b.Unknown(u.Op, u.Body)
		}
		unit++
	}

	var chunkIdx []*ChunkIndex
	var attIdx []*AttachmentIndex
	type mdx struct {
		off, length uint64
		name        string
	}
	var mdIdx []mdx
	nChunks := 0
	var cur *openChunk
	var knownSchemas []*wl.Schema
	var knownChannels []*wl.Channel
	seenS, seenC := map[uint16]bool{}, map[uint16]bool{}

	var st Statistics
	counts := map[uint16]uint64{}
	var countOrder []uint16
	haveMsg := false

	chunkPad := func(cb *Builder) {
		if l.PadInChunks {
			cb.Pad = l.Pad
			cb.PadVary = l.PadVary
		}
	}
	inner := func(c *openChunk) {
		for _, u := range unkChunk[[2]int{nChunks, c.nInner}] {
			c.b.Unknown(u.Op, u.Body)
		}
		c.nInner++
	}
	addChannelToChunk := func(c *openChunk, ch *wl.Channel) {
		if l.IndexAllChannels {
			if _, ok := c.idx[ch.ID]; !ok {
				c.idx[ch.ID] = []IdxEntry{}
				c.order = append(c.order, ch.ID)
			}
		}
		inner(c)
		c.b.Channel(ch)
	}
	open := func() *openChunk {
		c := &openChunk{b: &Builder{SortedMaps: l.SortedMaps}, idx: map[uint16][]IdxEntry{}}
		chunkPad(c.b)
		if l.RepeatDefs == 1 && nChunks > 0 {
			for _, s := range knownSchemas {
				inner(c)
				c.b.Schema(s)
			}
			for _, ch := range knownChannels {
				addChannelToChunk(c, ch)
			}
		}
		return c
	}
	var encErr error
	closeChunk := func() {
		if cur == nil {
			return
		}
		c := cur
		cur = nil
		// trailing unknown records addressed past the last inner record (Pos = record count, or -1)
		for _, u := range unkChunk[[2]int{nChunks, c.nInner}] {
			c.b.Unknown(u.Op, u.Body)
		}
		for _, u := range unkChunk[[2]int{nChunks, -1}] {
			c.b.Unknown(u.Op, u.Body)
		}
		if l.RepeatDefs == 2 && nChunks > 0 {
			beforeUnit()
			for _, s := range knownSchemas {
				b.Schema(s)
			}
			for _, ch := range knownChannels {
				b.Channel(ch)
			}
		}
		comp := ""
		if len(l.Compression) > 0 {
			comp = l.Compression[nChunks%len(l.Compression)]
		}
		payload, err := compress(comp, c.b.Buf)
		if err != nil {
			encErr = err
			return
		}
		h := ChunkHdr{UncompressedSize: uint64(len(c.b.Buf)), Compression: CodecName(comp)}
		if c.nMsgs > 0 {
			h.Start, h.End = c.start, c.end
		}
		if l.CRC {
			h.CRC = crc32.ChecksumIEEE(c.b.Buf)
		}
		beforeUnit()
		off := b.Len()
		length := b.Chunk(h, payload)
		ci := &ChunkIndex{Start: h.Start, End: h.End, Offset: off, Length: length, Compression: CodecName(comp), CompressedSize: uint64(len(payload)), UncompressedSize: h.UncompressedSize}
		if l.MessageIndex {
			for _, ch := range c.order {
				if !l.IndexAllChannels && len(c.idx[ch]) == 0 {
					continue
				}
				ci.MsgIdxOffsets = append(ci.MsgIdxOffsets, struct {
					Ch  uint16
					Off uint64
				}{ch, b.Len()})
				ci.MsgIdxLength += b.MessageIndex(ch, c.idx[ch])
			}
		}
		if l.ChunkIndex {
			chunkIdx = append(chunkIdx, ci)
		}
		nChunks++
	}

	for i, o := range w.Ops {
		switch {
		case o.S != nil:
			if l.CountRecords || !seenS[o.S.ID] {
				st.SchemaCount++
			}
			if !seenS[o.S.ID] {
				seenS[o.S.ID] = true
				knownSchemas = append(knownSchemas, o.S)
			}
			if l.Chunked {
				if cur == nil {
					cur = open()
				}
				inner(cur)
				cur.b.Schema(o.S)
			} else {
				beforeUnit()
				b.Schema(o.S)
			}
		case o.C != nil:
			if l.CountRecords || !seenC[o.C.ID] {
				st.ChannelCount++
			}
			if !seenC[o.C.ID] {
				seenC[o.C.ID] = true
				knownChannels = append(knownChannels, o.C)
			}
			if l.Chunked {
				if cur == nil {
					cur = open()
				}
				addChannelToChunk(cur, o.C)
			} else {
				beforeUnit()
				b.Channel(o.C)
			}
		case o.M != nil:
			m := o.M
			st.MessageCount++
			if _, ok := counts[m.ChannelID]; !ok {
				countOrder = append(countOrder, m.ChannelID)
			}
			counts[m.ChannelID]++
			if !haveMsg || m.LogTime < st.Start {
				st.Start = m.LogTime
			}
			if !haveMsg || m.LogTime > st.End {
				st.End = m.LogTime
			}
			haveMsg = true
			if l.Chunked {
				if cur == nil {
					cur = open()
				}
				c := cur
				inner(c)
				if c.nMsgs == 0 || m.LogTime < c.start {
					c.start = m.LogTime
				}
				if c.nMsgs == 0 || m.LogTime > c.end {
					c.end = m.LogTime
				}
				c.nMsgs++
				if _, ok := c.idx[m.ChannelID]; !ok {
					c.order = append(c.order, m.ChannelID)
				}
				c.idx[m.ChannelID] = append(c.idx[m.ChannelID], IdxEntry{m.LogTime, c.b.Len()})
				c.b.Message(m)
			} else {
				beforeUnit()
				b.Message(m)
			}
		case o.A != nil:
			st.AttachmentCount++
			beforeUnit()
			off := b.Len()
			length := b.Attachment(o.A)
			if l.AttachmentIndex {
				attIdx = append(attIdx, &AttachmentIndex{off, length, o.A.LogTime, o.A.CreateTime, uint64(len(o.A.Data)), o.A.Name, o.A.MediaType})
			}
		case o.D != nil:
			st.MetadataCount++
			beforeUnit()
			off := b.Len()
			length := b.Metadata(o.D)
			if l.MetadataIndex {
				mdIdx = append(mdIdx, mdx{off, length, o.D.Name})
			}
		}
		if cut[i] {
			closeChunk()
		}
	}
	closeChunk()
	if encErr != nil {
		return nil, 0, encErr
	}
	for _, u := range unkData[unit] {
		b.Unknown(u.Op, u.Body)
	}
	st.ChunkCount = uint32(nChunks)
	for _, ch := range countOrder {
		st.Counts = append(st.Counts, struct {
			Ch uint16
			N  uint64
		}{ch, counts[ch]})
	}
	var dcrc uint32
	if l.CRC {
		dcrc = crc32.ChecksumIEEE(b.Buf)
	}
	b.DataEnd(dcrc)

	summaryStart := b.Len()
	order := l.SummaryOrder
	if len(order) == 0 {
		order = DefaultSummaryOrder
	}
	type group struct {
		op            byte
		start, length uint64
	}
	var groups []group
	emit := func(op byte, f func()) {
		s := b.Len()
		f()
		if b.Len() != s {
			groups = append(groups, group{op, s, b.Len() - s})
		}
	}
	for gi, g := range order {
		for _, u := range unkSummary[gi] {
			u := u
			s := b.Len()
			b.Unknown(u.Op, u.Body)
			if u.WithOffset {
				groups = append(groups, group{u.Op, s, b.Len() - s})
			}
		}
		switch g {
		case "schema":
			if l.RepeatSchemas {
				emit(0x03, func() {
					if l.CountRecords {
						for _, o := range w.Ops {
							if o.S != nil {
								b.Schema(o.S)
							}
						}
					} else {
						for _, s := range knownSchemas {
							b.Schema(s)
						}
					}
				})
			}
		case "channel":
			if l.RepeatChannels {
				emit(0x04, func() {
					if l.CountRecords {
						for _, o := range w.Ops {
							if o.C != nil {
								b.Channel(o.C)
							}
						}
					} else {
						for _, c := range knownChannels {
							b.Channel(c)
						}
					}
				})
			}
		case "stats":
			if l.Statistics {
				emit(0x0B, func() { b.Statistics(&st) })
			}
		case "mdx":
			emit(0x0D, func() {
				for _, x := range mdIdx {
					b.MetadataIndex(x.off, x.length, x.name)
				}
			})
		case "ax":
			emit(0x0A, func() {
				for _, x := range attIdx {
					b.AttachmentIndex(x)
				}
			})
		case "chx":
			emit(0x08, func() {
				for _, x := range chunkIdx {
					b.ChunkIndex(x)
				}
			})
		}
	}
	for _, u := range unkSummary[len(order)] {
		s := b.Len()
		b.Unknown(u.Op, u.Body)
		if u.WithOffset {
			groups = append(groups, group{u.Op, s, b.Len() - s})
		}
	}
	hasSummary := b.Len() != summaryStart
	var summaryOffsetStart uint64
	if l.SummaryOffsets {
		summaryOffsetStart = b.Len()
		for _, g := range groups {
			b.SummaryOffset(g.op, g.start, g.length)
		}
		if l.ZeroSummaryOffsetStartWhenNone && len(groups) == 0 {
			summaryOffsetStart = 0
		}
	}
	ss := summaryStart
	if !hasSummary {
		ss = 0
	}
	var scrc uint32
	if l.CRC {
		tmp := append([]byte{}, b.Buf[summaryStart:]...)
		tmp = append(tmp, 0x02)
		tmp = binary.LittleEndian.AppendUint64(tmp, 20)
		tmp = binary.LittleEndian.AppendUint64(tmp, ss)
		tmp = binary.LittleEndian.AppendUint64(tmp, summaryOffsetStart)
		scrc = crc32.ChecksumIEEE(tmp)
	}
	b.Footer(ss, summaryOffsetStart, scrc)
	b.Magic()
	return b.Buf, nChunks, nil
}

// SortStrings is exported for callers building summary orders.
func SortStrings(s []string) { sort.Strings(s) }
