// Package pk ("property kit") is the shared skeleton of every check: rapid wiring, replay,
// known-findings registry, violation dumps, comparison helpers.
package pk

import (
	"bytes"
	"encoding/json"
	"fmt"
	"os"
	"runtime/debug"
	"strings"
	"testing"

	"pgregory.net/rapid"
	"verifharness/stats"
	"verifharness/wl"
)

// ---- known findings

type Finding struct {
	Property string `json:"property"`
	Key      string `json:"key"`
	Status   string `json:"status"` // open | fixed
	What     string `json:"what"`
	Commit   string `json:"commit,omitempty"`
}

var findings map[string]Finding

func loadFindings() {
	if findings != nil {
		return
	}
	findings = map[string]Finding{}
	p := os.Getenv("VERIF_KF")
	if p == "" {
		p = "/verif/known_findings.json"
	}
	b, err := os.ReadFile(p)
	if err != nil {
		return
	}
	var doc struct {
		Findings []Finding `json:"findings"`
	}
	if json.Unmarshal(b, &doc) != nil {
		return
	}
	for _, f := range doc.Findings {
		findings[f.Property+"/"+f.Key] = f
	}
}

// Open reports whether the finding is listed as open (its exact defective behaviour is tolerated).
func Open(property, key string) bool {
	loadFindings()
	f, ok := findings[property+"/"+key]
	return ok && f.Status == "open"
}

func What(property, key string) string {
	loadFindings()
	return findings[property+"/"+key].What
}

// ---- running a property

func Tier() string {
	if os.Getenv("VERIF_TIER") == "thorough" {
		return "thorough"
	}
	return "quick"
}

func Thorough() bool { return Tier() == "thorough" }

// Failure is a property violation with a short kind (used for signatures).
type Failure struct {
	Kind string
	Msg  string
}

func (f *Failure) Error() string { return f.Kind + ": " + f.Msg }

func Failf(kind, format string, a ...any) error {
	return &Failure{Kind: kind, Msg: fmt.Sprintf(format, a...)}
}

func safe[C any](check func(C, *stats.Collector) error, c C, st *stats.Collector) (err error) {
	defer func() {
		if x := recover(); x != nil {
			err = &Failure{Kind: "panic", Msg: fmt.Sprintf("%v\n%s", x, trimStack(debug.Stack()))}
		}
	}()
	return check(c, st)
}

func trimStack(b []byte) string {
	s := string(b)
	if len(s) > 2500 {
		s = s[:2500]
	}
	return s
}

// Run drives one property: under VERIF_REPLAY it re-checks a saved case without rapid, otherwise it
// runs rapid with the flags the driver passed.
func Run[C any](t *testing.T, id string, gen func(*rapid.T) C, check func(C, *stats.Collector) error) {
	st := stats.New(id)
	defer st.Flush()
	if rp := os.Getenv("VERIF_REPLAY"); rp != "" {
		b, err := os.ReadFile(rp)
		if err != nil {
			t.Fatalf("replay: %v", err)
		}
		var v stats.Violation
		var c C
		raw := b
		if json.Unmarshal(b, &v) == nil && len(v.Case) > 0 {
			raw = v.Case
			if v.Property != "" && v.Property != id {
				t.Skipf("replay file belongs to %s", v.Property)
			}
		}
		if err := json.Unmarshal(raw, &c); err != nil {
			t.Fatalf("replay: cannot decode case: %v", err)
		}
		if err := safe(check, c, st); err != nil {
			stats.DumpViolation(id, kindOf(err), err.Error(), c)
			t.Fatalf("REPLAY-VIOLATION %s: %v", id, err)
		}
		t.Logf("replay of %s: property holds", rp)
		return
	}
	rapid.Check(t, func(rt *rapid.T) {
		c := gen(rt)
		if err := safe(check, c, st); err != nil {
			stats.DumpViolation(id, kindOf(err), err.Error(), c)
			rt.Fatalf("%s: %v", id, err)
		}
	})
}

// RunEnum drives an enumerated (non-rapid) check with the same replay/violation conventions.
func RunEnum[C any](t *testing.T, id string, enum func(yield func(C) bool), check func(C, *stats.Collector) error) {
	st := stats.New(id)
	defer st.Flush()
	if rp := os.Getenv("VERIF_REPLAY"); rp != "" {
		b, err := os.ReadFile(rp)
		if err != nil {
			t.Fatalf("replay: %v", err)
		}
		var v stats.Violation
		var c C
		raw := b
		if json.Unmarshal(b, &v) == nil && len(v.Case) > 0 {
			raw = v.Case
			if v.Property != "" && v.Property != id {
				t.Skipf("replay file belongs to %s", v.Property)
			}
		}
		if err := json.Unmarshal(raw, &c); err != nil {
			t.Fatalf("replay: cannot decode case: %v", err)
		}
		if err := safe(check, c, st); err != nil {
			stats.DumpViolation(id, kindOf(err), err.Error(), c)
			t.Fatalf("REPLAY-VIOLATION %s: %v", id, err)
		}
		return
	}
	failed := false
	enum(func(c C) bool {
		if err := safe(check, c, st); err != nil {
			stats.DumpViolation(id, kindOf(err), err.Error(), c)
			t.Errorf("%s: %v", id, err)
			failed = true
			return false
		}
		return true
	})
	_ = failed
}

func kindOf(err error) string {
	if f, ok := err.(*Failure); ok {
		return f.Kind
	}
	return "error"
}

// ---- comparison helpers (nil and empty slices are the same thing)

func EqSchema(a, b *wl.Schema) bool {
	if a == nil || b == nil {
		return a == b
	}
	return a.ID == b.ID && a.Name == b.Name && a.Encoding == b.Encoding && bytes.Equal(a.Data, b.Data)
}

func EqKV(a, b []wl.KV) bool {
	a, b = wl.SortedKV(a), wl.SortedKV(b)
	if len(a) != len(b) {
		return false
	}
	for i := range a {
		if a[i] != b[i] {
			return false
		}
	}
	return true
}

func EqChannel(a, b *wl.Channel) bool {
	if a == nil || b == nil {
		return a == b
	}
	return a.ID == b.ID && a.SchemaID == b.SchemaID && a.Topic == b.Topic && a.MessageEncoding == b.MessageEncoding && EqKV(a.Metadata, b.Metadata)
}

func EqMessage(a, b *wl.Message) bool {
	if a == nil || b == nil {
		return a == b
	}
	return a.ChannelID == b.ChannelID && a.Sequence == b.Sequence && a.LogTime == b.LogTime && a.PublishTime == b.PublishTime && bytes.Equal(a.Data, b.Data)
}

func EqMetadata(a, b *wl.Metadata) bool {
	if a == nil || b == nil {
		return a == b
	}
	return a.Name == b.Name && EqKV(a.Metadata, b.Metadata)
}

// Short renders a value for messages, cutting long output.
func Short(v any) string {
	b, _ := json.Marshal(v)
	s := string(b)
	if len(s) > 300 {
		s = s[:300] + "…"
	}
	return s
}

func JoinIssues[T fmt.Stringer](is []T, max int) string {
	var sb strings.Builder
	for i, x := range is {
		if i >= max {
			fmt.Fprintf(&sb, "… and %d more", len(is)-max)
			break
		}
		sb.WriteString(x.String())
		sb.WriteString("; ")
	}
	return sb.String()
}
