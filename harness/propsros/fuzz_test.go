package propsros

import (
	"testing"

	"verifharness/isolate"
)

func FuzzC19Ros1msg(f *testing.F) {
	f.Add("p", "uint8 a\nFoo b\n===\nMSG: p/Foo\nuint8[] x\n")
	f.Add("p", "p/T1 a\n===\nMSG: p/T1\nT1 self\n")
	f.Add("", "]x[ name")
	f.Add("std_msgs", "Header h\n===\nMSG: std_msgs/Header\nuint32 seq\ntime stamp\nstring frame_id\n")
	f.Fuzz(func(t *testing.T, pkg, def string) {
		in := append([]byte(pkg), def...)
		_ = handleRos(isolate.Req{Entry: entryRos1msg, Aux: uint64(len(pkg)), Input: in})
	})
}

func FuzzC18Bag(f *testing.F) {
	c := BagCase{Conns: []BagConn{{ID: 0, Topic: "/a", Type: "std_msgs/String", MD5: "x", Def: "string data\n"}}, Msgs: []BagMsg{{Conn: 0, Sec: 1, Nsec: 2, Data: []byte("hi")}},
		Chunked: true, Compression: "none", Trailer: true}
	b, _ := encodeBag(&c)
	// drop the 4 KiB header padding so that mutations reach the records
	f.Add(b, uint8(0))
	c.Compression = "lz4"
	b2, _ := encodeBag(&c)
	f.Add(b2, uint8(1))
	f.Add([]byte("#ROSBAG V2.0\n\xff\xff\xff\xff"), uint8(0))
	f.Fuzz(func(t *testing.T, data []byte, opts uint8) {
		_ = handleBag(isolate.Req{Entry: entryBag, Opts: uint32(opts & 1), Input: data})
	})
}
