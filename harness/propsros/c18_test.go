package propsros

import (
	"bufio"
	"bytes"
	"database/sql"
	"encoding/binary"
	"fmt"
	"hash/crc32"
	"io"
	"os"
	"path/filepath"
	"sort"
	"strings"
	"testing"
	"time"

	"github.com/foxglove/mcap/go/mcap"
	"github.com/foxglove/mcap/go/ros"
	_ "github.com/mattn/go-sqlite3"
	"github.com/pierrec/lz4/v4"
	"pgregory.net/rapid"
	"verifharness/isolate"
	"verifharness/mc"
	"verifharness/pk"
	"verifharness/specdec"
	"verifharness/stats"
	"verifharness/wl"
)

// ---- ROS1 bag v2.0 encoder (written from the bag format description)

type BagConn struct {
	ID    uint32
	Topic string
	Type  string
	MD5   string
	Def   string
	Extra []wl.KV // further connection-header fields (callerid, latching, ...)
	// DataTopic: the "topic" field inside the connection header (the record's data). The format keeps it
	// apart from the connection record's own topic, under which the messages are stored: a recorder that
	// remaps or prefixes topics writes two different strings. Mode 0 same, 1 DataTopicValue, 2 field absent.
	DataTopicMode  int    `json:",omitempty"`
	DataTopicValue string `json:",omitempty"`
}

type BagMsg struct {
	Conn      int // index into Conns
	Sec, Nsec uint32
	Data      []byte
}

type BagCase struct {
	Conns       []BagConn
	Msgs        []BagMsg
	Chunked     bool
	Compression string // none | lz4
	ChunkEvery  int    // messages per chunk
	RepeatConns bool   // connection records re-stated in every chunk that uses them
	Trailer     bool   // connection + chunk-info records after the chunks, index-data records after each chunk
	K           wl.Config
}

func bagField(name string, val []byte) []byte {
	b := binary.LittleEndian.AppendUint32(nil, uint32(len(name)+1+len(val)))
	b = append(b, name...)
	b = append(b, '=')
	return append(b, val...)
}

func u32b(v uint32) []byte { return binary.LittleEndian.AppendUint32(nil, v) }
func u64b(v uint64) []byte { return binary.LittleEndian.AppendUint64(nil, v) }

func bagRecord(fields [][]byte, data []byte) []byte {
	var h []byte
	for _, f := range fields {
		h = append(h, f...)
	}
	b := u32b(uint32(len(h)))
	b = append(b, h...)
	b = append(b, u32b(uint32(len(data)))...)
	return append(b, data...)
}

func (c *BagConn) header() []byte {
	var h []byte
	switch c.DataTopicMode {
	case 0:
		h = append(h, bagField("topic", []byte(c.Topic))...)
	case 1:
		h = append(h, bagField("topic", []byte(c.DataTopicValue))...)
	}
	h = append(h, bagField("type", []byte(c.Type))...)
	h = append(h, bagField("md5sum", []byte(c.MD5))...)
	h = append(h, bagField("message_definition", []byte(c.Def))...)
	for _, kv := range c.Extra {
		h = append(h, bagField(kv.K, []byte(kv.V))...)
	}
	return h
}

func (c *BagConn) record() []byte {
	return bagRecord([][]byte{bagField("op", []byte{0x07}), bagField("conn", u32b(c.ID)), bagField("topic", []byte(c.Topic))}, c.header())
}

func (m *BagMsg) record(conns []BagConn) []byte {
	t := append(u32b(m.Sec), u32b(m.Nsec)...)
	return bagRecord([][]byte{bagField("op", []byte{0x02}), bagField("conn", u32b(conns[m.Conn].ID)), bagField("time", t)}, m.Data)
}

func encodeBag(c *BagCase) ([]byte, error) {
	out := []byte("#ROSBAG V2.0\n")
	// bag header record padded to 4096 bytes
	hdr := bagRecord([][]byte{bagField("op", []byte{0x03}), bagField("index_pos", u64b(0)), bagField("conn_count", u32b(uint32(len(c.Conns)))), bagField("chunk_count", u32b(0))}, nil)
	pad := 4096 - len(hdr)
	if pad < 0 {
		pad = 0
	}
	hdr = hdr[:len(hdr)-4]
	hdr = append(hdr, u32b(uint32(pad))...)
	hdr = append(hdr, bytes.Repeat([]byte{' '}, pad)...)
	out = append(out, hdr...)
	seen := map[int]bool{}
	flush := func(body []byte, n int) error {
		if !c.Chunked {
			out = append(out, body...)
			return nil
		}
		data := body
		if c.Compression == "lz4" {
			var zb bytes.Buffer
			zw := lz4.NewWriter(&zb)
			if _, err := zw.Write(body); err != nil {
				return err
			}
			if err := zw.Close(); err != nil {
				return err
			}
			data = zb.Bytes()
		}
		out = append(out, bagRecord([][]byte{bagField("op", []byte{0x05}), bagField("compression", []byte(c.Compression)), bagField("size", u32b(uint32(len(body))))}, data)...)
		if c.Trailer {
			out = append(out, bagRecord([][]byte{bagField("op", []byte{0x04}), bagField("ver", u32b(1)), bagField("conn", u32b(0)), bagField("count", u32b(uint32(n)))}, make([]byte, 12*n))...)
		}
		return nil
	}
	var body []byte
	n := 0
	inChunk := map[int]bool{}
	every := c.ChunkEvery
	if every <= 0 {
		every = 1 << 30
	}
	for i := range c.Msgs {
		m := &c.Msgs[i]
		if !seen[m.Conn] || (c.RepeatConns && !inChunk[m.Conn]) {
			body = append(body, c.Conns[m.Conn].record()...)
			seen[m.Conn] = true
			inChunk[m.Conn] = true
		}
		body = append(body, m.record(c.Conns)...)
		n++
		if n >= every {
			if err := flush(body, n); err != nil {
				return nil, err
			}
			body, n, inChunk = nil, 0, map[int]bool{}
		}
	}
	// connections never used by a message still get their record
	for i := range c.Conns {
		if !seen[i] {
			body = append(body, c.Conns[i].record()...)
			seen[i] = true
		}
	}
	if len(body) > 0 {
		if err := flush(body, n); err != nil {
			return nil, err
		}
	}
	if c.Trailer {
		for i := range c.Conns {
			out = append(out, c.Conns[i].record()...)
		}
		out = append(out, bagRecord([][]byte{bagField("op", []byte{0x06}), bagField("ver", u32b(1)), bagField("chunk_pos", u64b(4109)), bagField("start_time", u64b(0)), bagField("end_time", u64b(0)), bagField("count", u32b(0))}, nil)...)
	}
	return out, nil
}

func genBag(t *rapid.T) BagCase {
	c := BagCase{Chunked: rapid.IntRange(0, 3).Draw(t, "chunked") != 0, Compression: rapid.SampledFrom([]string{"none", "lz4"}).Draw(t, "compression"),
		ChunkEvery: rapid.SampledFrom([]int{1, 2, 5, 0}).Draw(t, "chunk-every"), RepeatConns: rapid.Bool().Draw(t, "repeat-conns"), Trailer: rapid.Bool().Draw(t, "trailer")}
	nc := rapid.IntRange(1, 6).Draw(t, "n-conns")
	ids := rapid.Permutation([]uint32{0, 1, 2, 3, 7, 255, 256, 65534, 65535}).Draw(t, "conn-ids")
	types := []string{"std_msgs/String", "pkg/Foo", "geometry_msgs/Twist"}
	for i := 0; i < nc; i++ {
		ty := rapid.SampledFrom(types).Draw(t, "type")
		md5 := rapid.SampledFrom([]string{"992ce8a1687cec8c8bd883ec73ca41d1", "aaaa", ""}).Draw(t, "md5")
		cn := BagConn{ID: ids[i], Topic: rapid.SampledFrom([]string{"/chatter", "/a", "/a/b", "/tëst", ""}).Draw(t, "topic"), Type: ty, MD5: md5,
			Def: "string data\n# def of " + ty + " " + md5 + "\n"}
		if rapid.IntRange(0, 3).Draw(t, "data-topic?") == 0 {
			cn.DataTopicMode = rapid.IntRange(1, 2).Draw(t, "data-topic-mode")
			cn.DataTopicValue = rapid.SampledFrom([]string{"/scan", "/a", "", "/original/name"}).Draw(t, "data-topic")
		}
		if rapid.Bool().Draw(t, "extra-fields") {
			cn.Extra = append(cn.Extra, wl.KV{K: "callerid", V: rapid.SampledFrom([]string{"/talker", "", "/x=y"}).Draw(t, "callerid")})
			if rapid.Bool().Draw(t, "latching") {
				cn.Extra = append(cn.Extra, wl.KV{K: "latching", V: "1"})
			}
		}
		c.Conns = append(c.Conns, cn)
	}
	nm := rapid.IntRange(0, 30).Draw(t, "n-msgs")
	for i := 0; i < nm; i++ {
		m := BagMsg{Conn: rapid.IntRange(0, nc-1).Draw(t, "m-conn")}
		if rapid.IntRange(0, 9).Draw(t, "extreme-time") == 0 {
			m.Sec, m.Nsec = rapid.SampledFrom([]uint32{0, 1<<32 - 1}).Draw(t, "sec"), rapid.SampledFrom([]uint32{0, 999999999}).Draw(t, "nsec")
		} else {
			m.Sec, m.Nsec = rapid.Uint32().Draw(t, "sec"), rapid.Uint32Range(0, 999999999).Draw(t, "nsec")
		}
		switch rapid.IntRange(0, 9).Draw(t, "m-size") {
		case 0:
			m.Data = []byte{}
		case 1:
			m.Data = wl.Fill(rapid.IntRange(2000, 70000).Draw(t, "m-big"), rapid.Uint64().Draw(t, "m-seed"))
		default:
			m.Data = rapid.SliceOfN(rapid.Byte(), 1, 40).Draw(t, "m-data")
		}
		c.Msgs = append(c.Msgs, m)
	}
	c.K = wl.GenConfig(t, wl.CfgParams{NoCustom: true, NoSkipMagic: true})
	return c
}

func validateOutput(file []byte, k wl.Config) (*specdec.File, error) {
	d, err := specdec.Decode(file, specdec.Options{})
	if err != nil {
		return nil, pk.Failf("invalid-output", "reference decoder rejects the converter's output: %v", err)
	}
	vo := specdec.ValidateOptions{RequireAttachmentCRC: true, WaiveSummaryChannels: k.SkipRepeatedChannelInfos, WaiveSummarySchemas: k.SkipRepeatedSchemas}
	var bad []specdec.Issue
	for _, i := range specdec.Validate(d, vo) {
		if i.Cat != "note" {
			bad = append(bad, i)
		}
	}
	if len(bad) > 0 {
		return nil, pk.Failf("invalid-output", "converter output is not a valid MCAP file: %s", pk.JoinIssues(bad, 5))
	}
	return d, nil
}

func checkBag(c BagCase, st *stats.Collector) error {
	bag, err := encodeBag(&c)
	if err != nil {
		return pk.Failf("harness", "bag encoder: %v", err)
	}
	var out bytes.Buffer
	var perr string
	func() {
		defer func() {
			if x := recover(); x != nil {
				perr = fmt.Sprint(x)
			}
		}()
		// the bag arrives as a sized, seekable in-memory reader, as a stream that offers nothing but Read, or
		// through a small bufio.Reader or a pipe; the MCAP goes to a bytes.Buffer or to a Write-only destination
		var src io.Reader = bytes.NewReader(bag)
		switch len(bag) % 4 {
		case 1:
			src = struct{ io.Reader }{bytes.NewReader(bag)}
		case 2:
			src = bufio.NewReaderSize(bytes.NewReader(bag), 64)
		case 3:
			// the read end of a pipe (`cat x.bag | tool`): an *os.File, so it has Seek and Stat, but cannot seek
			if pr, pw, perr := os.Pipe(); perr == nil {
				go func() { _, _ = pw.Write(bag); pw.Close() }()
				defer pr.Close()
				src = pr
			}
		}
		var dst io.Writer = &out
		if len(bag)%2 == 1 {
			dst = struct{ io.Writer }{&out}
		}
		err = ros.Bag2MCAP(dst, src, mc.Options(c.K))
	}()
	if perr != "" {
		return pk.Failf("panic", "Bag2MCAP panicked on a valid bag: %s", perr)
	}
	if err != nil {
		return pk.Failf("convert-error", "Bag2MCAP rejected a valid bag: %v", err)
	}
	d, err := validateOutput(out.Bytes(), c.K)
	if err != nil {
		return err
	}
	flat := d.Flat(false)
	if len(flat) == 0 || flat[0].Op != specdec.OpHeader || flat[0].Profile != "ros1" {
		return pk.Failf("header", "output header profile is not ros1")
	}
	schemas := map[uint16]*specdec.Record{}
	chans := map[uint16]*specdec.Record{}
	mi := 0
	for _, r := range flat[1:] {
		switch r.Op {
		case specdec.OpSchema:
			schemas[r.ID] = r
		case specdec.OpChannel:
			chans[r.ID] = r
		case specdec.OpMessage:
			if mi >= len(c.Msgs) {
				return pk.Failf("extra-message", "output has more messages than the bag (%d)", len(c.Msgs))
			}
			m := c.Msgs[mi]
			cn := c.Conns[m.Conn]
			ns := uint64(m.Sec)*1000000000 + uint64(m.Nsec)
			if r.ChannelID != uint16(cn.ID) || r.LogTime != ns || r.PublishTime != ns || !bytes.Equal(r.Data, m.Data) {
				return pk.Failf("message", "output message #%d = (channel %d, log %d, publish %d, %d bytes), bag message = (conn %d, %d.%09d s = %d ns, %d bytes)", mi, r.ChannelID, r.LogTime, r.PublishTime, len(r.Data), cn.ID, m.Sec, m.Nsec, ns, len(m.Data))
			}
			ch := chans[r.ChannelID]
			if ch == nil {
				return pk.Failf("channel", "message #%d precedes its channel", mi)
			}
			wantMeta := map[string]string{"topic": cn.Topic, "md5sum": cn.MD5}
			switch cn.DataTopicMode {
			case 1:
				wantMeta["topic"] = cn.DataTopicValue
			case 2:
				delete(wantMeta, "topic")
			}
			for _, kv := range cn.Extra {
				wantMeta[kv.K] = kv.V
			}
			if ch.Topic != cn.Topic || ch.MessageEncoding != "ros1" || fmt.Sprint(ch.MetaMap()) != fmt.Sprint(wantMeta) {
				return pk.Failf("channel", "channel %d = (topic %q, encoding %q, metadata %v), connection = (topic %q, header fields %v)", ch.ID, ch.Topic, ch.MessageEncoding, ch.MetaMap(), cn.Topic, wantMeta)
			}
			s := schemas[ch.SchemaID]
			if s == nil || s.Name != cn.Type || s.Encoding != "ros1msg" || string(s.Data) != cn.Def {
				return pk.Failf("schema", "channel %d's schema = %s, connection type %q definition %q", ch.ID, pk.Short(s), cn.Type, cn.Def)
			}
			mi++
		}
	}
	if mi != len(c.Msgs) {
		return pk.Failf("missing-message", "output has %d messages, the bag has %d", mi, len(c.Msgs))
	}
	// one schema per distinct type/md5
	distinct := map[string]bool{}
	for _, cn := range c.Conns {
		distinct[cn.Type+"/"+cn.MD5] = true
	}
	if len(schemas) != len(distinct) {
		return pk.Failf("schema-count", "%d distinct schema ids in the output, %d distinct type/md5 pairs in the bag", len(schemas), len(distinct))
	}
	for _, cn := range c.Conns {
		if chans[uint16(cn.ID)] == nil {
			return pk.Failf("channel", "connection %d has no channel record", cn.ID)
		}
	}
	shared := len(distinct) < len(c.Conns)
	nontrivial := len(c.Conns) >= 2 && shared && c.Chunked && (c.RepeatConns || c.Trailer)
	classes := []string{fmt.Sprintf("bag-chunked=%v", c.Chunked), "bag-compression=" + c.Compression}
	if shared {
		classes = append(classes, "connections-share-a-type")
	}
	if c.Trailer {
		classes = append(classes, "trailer-records")
	}
	st.Case(wl.Hash(c), nontrivial, 1, classes...)
	if nontrivial && st.WantSample() {
		s := c
		for i := range s.Msgs {
			if len(s.Msgs[i].Data) > 16 {
				s.Msgs[i].Data = s.Msgs[i].Data[:16]
			}
		}
		st.Sample(s)
	}
	return nil
}

func TestC18Bag(t *testing.T) {
	pk.Run(t, "C18", genBag, checkBag)
}

// ---- hostile bags, in the isolated worker

func handleBag(req isolate.Req) isolate.Resp {
	err := ros.Bag2MCAP(io.Discard, bytes.NewReader(req.Input), &mcap.WriterOptions{Chunked: req.Opts&1 != 0, ChunkSize: 1024, IncludeCRC: true})
	if err != nil {
		return isolate.Resp{Text: err.Error()}
	}
	return isolate.Resp{Progress: 1}
}

type BagHostile struct {
	Base  BagCase
	Kind  int // 0 truncate, 1 set a length field, 2 overwrite bytes, 3 bad magic, 4 random bytes, 5 delete a field's '='
	Pos   uint32
	Val   int
	Seed  uint64
	Bytes []byte
	Opts  uint32
}

func genBagHostile(t *rapid.T) BagHostile {
	h := BagHostile{Kind: rapid.SampledFrom([]int{0, 0, 1, 1, 1, 1, 2, 2, 3, 4, 5}).Draw(t, "kind"), Pos: rapid.Uint32().Draw(t, "pos"), Val: rapid.IntRange(0, 11).Draw(t, "val"),
		Seed: rapid.Uint64().Draw(t, "seed"), Opts: rapid.Uint32Range(0, 1).Draw(t, "opts")}
	if h.Kind == 4 || h.Kind == 3 {
		h.Bytes = rapid.SliceOfN(rapid.Byte(), 0, 64).Draw(t, "bytes")
	}
	h.Base = genBag(t)
	if len(h.Base.Msgs) > 6 {
		h.Base.Msgs = h.Base.Msgs[:6]
	}
	for i := range h.Base.Msgs {
		if len(h.Base.Msgs[i].Data) > 64 {
			h.Base.Msgs[i].Data = h.Base.Msgs[i].Data[:64]
		}
	}
	return h
}

// bagLengthFields finds the offsets of every header-length, field-length and data-length field.
func bagLengthFields(bag []byte) []int {
	var out []int
	pos := 13
	for pos+4 <= len(bag) {
		out = append(out, pos)
		hl := int(binary.LittleEndian.Uint32(bag[pos:]))
		p := pos + 4
		end := p + hl
		if hl < 0 || end > len(bag) {
			break
		}
		for p+4 <= end {
			out = append(out, p)
			fl := int(binary.LittleEndian.Uint32(bag[p:]))
			if fl < 0 || p+4+fl > end {
				break
			}
			p += 4 + fl
		}
		if end+4 > len(bag) {
			break
		}
		out = append(out, end)
		dl := int(binary.LittleEndian.Uint32(bag[end:]))
		if dl < 0 || end+4+dl > len(bag) {
			break
		}
		pos = end + 4 + dl
	}
	return out
}

func buildHostileBag(h *BagHostile) ([]byte, string, error) {
	bag, err := encodeBag(&h.Base)
	if err != nil {
		return nil, "", err
	}
	// drop the 4 KiB padding of the bag header so that mutations land in interesting places
	vals := []uint32{0, 1, 3, 4, 5, 1<<31 - 1, 1 << 31, 1<<32 - 1, 1<<31 + 8, 1 << 30, 1024, 1025}
	switch h.Kind {
	case 0:
		p := int(h.Pos) % (len(bag) + 1)
		return bag[:p], fmt.Sprintf("truncated at %d of %d", p, len(bag)), nil
	case 1:
		fs := bagLengthFields(bag)
		if len(fs) == 0 {
			return bag, "no length field", nil
		}
		f := fs[int(h.Pos)%len(fs)]
		old := binary.LittleEndian.Uint32(bag[f:])
		v := vals[h.Val%len(vals)]
		if h.Val%3 == 0 {
			v = old + uint32(h.Seed%5) - 2
		}
		binary.LittleEndian.PutUint32(bag[f:], v)
		return bag, fmt.Sprintf("length field at %d: %d -> %d", f, old, v), nil
	case 2:
		p := int(h.Pos) % len(bag)
		n := wl.Fill(1+int(h.Seed%6), h.Seed|1)
		copy(bag[p:], n)
		return bag, fmt.Sprintf("overwrite %d bytes at %d", len(n), p), nil
	case 3:
		if len(h.Bytes) < 13 {
			return h.Bytes, "short magic", nil
		}
		return append(append([]byte{}, h.Bytes[:13]...), bag[13:]...), "bad magic", nil
	case 4:
		return append([]byte("#ROSBAG V2.0\n"), h.Bytes...), "random bytes after magic", nil
	default:
		i := bytes.IndexByte(bag[13+int(h.Pos)%(len(bag)-13):], '=')
		if i < 0 {
			return bag, "no separator", nil
		}
		bag[13+int(h.Pos)%(len(bag)-13)+i] = '-'
		return bag, "field separator removed", nil
	}
}

func checkBagHostile(h BagHostile, st *stats.Collector) error {
	in, what, err := buildHostileBag(&h)
	if err != nil {
		return pk.Failf("harness", "bag encoder: %v", err)
	}
	o := worker().Call(isolate.Req{Entry: entryBag, Opts: h.Opts, Input: in}, 15*time.Second, 600*time.Second)
	if err := judge(fmt.Sprintf("Bag2MCAP on a %d-byte corrupted bag (%s)", len(in), what), o); err != nil {
		return err
	}
	cl := "outcome=converted"
	if o.Text != "" {
		cl = "outcome=error"
	}
	st.Case(wl.Hash(in), len(in) > 13, 1, "hostile-bag", "kind="+strings.SplitN(what, " ", 2)[0], cl)
	if st.WantSample() && h.Kind == 1 {
		st.Sample(map[string]any{"corruption": what, "bag_len": len(in), "result": o.Text})
	}
	return nil
}

func TestC18BagHostile(t *testing.T) {
	pk.Run(t, "C18h", genBagHostile, checkBagHostile)
}

// ---- ROS 2 db3

type DBTopic struct {
	ID     uint16
	Name   string
	Type   string
	Format string
	QoS    *string
}

type DBMsg struct {
	Topic int // index into Topics
	TS    int64
	Data  []byte
}

type MsgDef struct {
	Pkg, Name string
	Lines     []string // field lines; references written "pkg/Name" or "Name"
	Deps      []int    // indexes into Defs referenced by Lines (for the oracle)
	NoNL      bool     // the definition file does not end with a newline (hand-edited files)
}

// text is the content of the definition file.
func (d *MsgDef) text() string {
	s := strings.Join(d.Lines, "\n")
	if !d.NoNL {
		s += "\n"
	}
	return s
}

// sameDefinition compares a section of an assembled schema with a definition file, modulo one trailing newline;
// a section that is followed by another one must leave the separator on a line of its own.
func sameDefinition(sec, file string, last bool) bool {
	if strings.TrimSuffix(sec, "\n") != strings.TrimSuffix(file, "\n") {
		return false
	}
	return last || sec == "" || strings.HasSuffix(sec, "\n")
}

type DB3Case struct {
	HasQoS bool
	Topics []DBTopic
	Msgs   []DBMsg
	Defs   []MsgDef // ament index content; message-typed topics use Defs[i] as pkg/msg/Name
	K      wl.Config
	Dirs   int // number of search directories the packages are spread over
}

func genDB3(t *rapid.T) DB3Case {
	c := DB3Case{HasQoS: rapid.Bool().Draw(t, "has-qos"), Dirs: rapid.IntRange(1, 2).Draw(t, "dirs")}
	nd := rapid.IntRange(1, 6).Draw(t, "n-defs")
	for i := 0; i < nd; i++ {
		// short names come from a small pool so that different packages define equally named types
		d := MsgDef{Pkg: rapid.SampledFrom([]string{"pkg_a", "pkg_b", "std_msgs"}).Draw(t, "pkg"), Name: rapid.SampledFrom([]string{"Point", "Scan", "Cell"}).Draw(t, "def-name")}
		for clash := true; clash; {
			clash = false
			for _, o := range c.Defs {
				if o.Pkg == d.Pkg && o.Name == d.Name {
					clash = true
					d.Name += fmt.Sprint(i)
				}
			}
		}
		c.Defs = append(c.Defs, d)
	}
	for i := nd - 1; i >= 0; i-- {
		d := &c.Defs[i]
		// an empty definition is a real thing (std_msgs/msg/Empty)
		nf := rapid.IntRange(0, 4).Draw(t, "n-fields")
		d.NoNL = rapid.IntRange(0, 3).Draw(t, "no-final-newline") == 0
		for f := 0; f < nf; f++ {
			if i < nd-1 && rapid.IntRange(0, 2).Draw(t, "dep?") == 0 {
				r := rapid.IntRange(i+1, nd-1).Draw(t, "dep")
				ref := c.Defs[r].Pkg + "/" + c.Defs[r].Name
				if c.Defs[r].Pkg == d.Pkg && rapid.Bool().Draw(t, "relative") {
					ref = c.Defs[r].Name
				}
				suffix := rapid.SampledFrom([]string{"", "[]", "[3]", "[<=5]"}).Draw(t, "arr")
				d.Lines = append(d.Lines, fmt.Sprintf("%s%s f%d", ref, suffix, f))
				d.Deps = append(d.Deps, r)
			} else {
				// the names carry the definition's number, so that the text of one definition is never the text of another
				d.Lines = append(d.Lines, rapid.SampledFrom([]string{"uint8 f%s", "string f%s", "float64[] f%s", "string<=10 f%s", "# comment %s", "int32 K%s=5", "bool[2] f%s",
					// every built-in field type of the ROS 2 interface definition language
					"byte f%s", "char f%s", "float32 f%s", "int8 f%s", "int16[] f%s", "uint16 f%s", "uint32 f%s", "int64 f%s", "uint64[<=4] f%s", "wstring f%s", "wstring<=7 f%s", "wstring[] f%s"}).Draw(t, "line"))
				d.Lines[len(d.Lines)-1] = fmt.Sprintf(d.Lines[len(d.Lines)-1], fmt.Sprintf("%d_of_def%d", f, i))
			}
		}
	}
	// one case in five carries "twins": two packages that each define a TwinInner of their own and a TwinUser that names
	// it without a package - the same words resolve to different files depending on who says them
	twin := rapid.IntRange(0, 4).Draw(t, "twins") == 0
	if twin {
		arr := rapid.SampledFrom([]string{"", "[]", "[2]"}).Draw(t, "twin-array")
		pa, pb := "pkg_a", rapid.SampledFrom([]string{"pkg_b", "std_msgs"}).Draw(t, "twin-pkg")
		c.Defs = append(c.Defs,
			MsgDef{Pkg: pa, Name: "TwinUser", Lines: []string{fmt.Sprintf("TwinInner%s f0_of_def%d", arr, nd), fmt.Sprintf("uint8 f1_of_def%d", nd)}, Deps: []int{nd + 1}},
			MsgDef{Pkg: pa, Name: "TwinInner", Lines: []string{fmt.Sprintf("float64 f0_of_def%d", nd+1)}},
			MsgDef{Pkg: pb, Name: "TwinUser", Lines: []string{fmt.Sprintf("TwinInner f0_of_def%d", nd+2)}, Deps: []int{nd + 3}, NoNL: rapid.Bool().Draw(t, "twin-nonl")},
			MsgDef{Pkg: pb, Name: "TwinInner", Lines: []string{fmt.Sprintf("string f0_of_def%d", nd+3), fmt.Sprintf("int32 f1_of_def%d", nd+3)}})
		nd += 4
	}
	nt := rapid.IntRange(1, 5).Draw(t, "n-topics")
	ids := rapid.Permutation([]uint16{1, 2, 3, 4, 9, 255, 65535}).Draw(t, "topic-ids")
	for i := 0; i < nt; i++ {
		tp := DBTopic{ID: ids[i], Name: fmt.Sprintf("/topic%d", i), Format: rapid.SampledFrom([]string{"cdr", ""}).Draw(t, "format")}
		if rapid.IntRange(0, 4).Draw(t, "non-msg") == 0 {
			tp.Type = rapid.SampledFrom([]string{"pkg_a/srv/AddTwoInts", "pkg_a/action/Fibonacci_FeedbackMessage", "weird"}).Draw(t, "non-msg-type")
		} else {
			d := c.Defs[rapid.IntRange(0, nd-1).Draw(t, "topic-def")]
			tp.Type = d.Pkg + "/msg/" + d.Name
		}
		if c.HasQoS {
			q := rapid.SampledFrom([]string{"", "- history: 3\n  depth: 0", "qos"}).Draw(t, "qos")
			tp.QoS = &q
		}
		c.Topics = append(c.Topics, tp)
	}
	if twin {
		// both users are recorded (in either order), so one conversion has to resolve both
		first := rapid.IntRange(0, 1).Draw(t, "twin-order")
		for i := 0; i < 2 && i < nt; i++ {
			d := c.Defs[nd-4+2*((i+first)%2)]
			c.Topics[i].Type = d.Pkg + "/msg/" + d.Name
		}
	}
	nm := rapid.IntRange(0, 30).Draw(t, "n-msgs")
	for i := 0; i < nm; i++ {
		c.Msgs = append(c.Msgs, DBMsg{Topic: rapid.IntRange(0, nt-1).Draw(t, "m-topic"), TS: rapid.SampledFrom([]int64{0, 1, 2, 2, 3, 1 << 40, 1<<62 + 5}).Draw(t, "ts") + int64(rapid.IntRange(0, 3).Draw(t, "ts-d")),
			Data: rapid.SliceOfN(rapid.Byte(), 0, 24).Draw(t, "m-data")})
	}
	c.K = wl.GenConfig(t, wl.CfgParams{NoCustom: true, NoSkipMagic: true})
	return c
}

func isMsgType(typ string) bool { return strings.Contains(typ, "/msg/") }

func scratchDir() string {
	if d := os.Getenv("VERIF_SCRATCH_DIR"); d != "" {
		return d
	}
	return os.TempDir()
}

func buildDB3(c *DB3Case, dir string) (*sql.DB, []string, error) {
	dbPath := filepath.Join(dir, "bag.db3")
	db, err := sql.Open("sqlite3", dbPath)
	if err != nil {
		return nil, nil, err
	}
	qcol := ""
	if c.HasQoS {
		qcol = ", offered_qos_profiles TEXT NOT NULL"
	}
	if _, err := db.Exec("CREATE TABLE topics(id INTEGER PRIMARY KEY, name TEXT NOT NULL, type TEXT NOT NULL, serialization_format TEXT NOT NULL" + qcol + ")"); err != nil {
		return nil, nil, err
	}
	if _, err := db.Exec("CREATE TABLE messages(id INTEGER PRIMARY KEY, topic_id INTEGER NOT NULL, timestamp INTEGER NOT NULL, data BLOB NOT NULL)"); err != nil {
		return nil, nil, err
	}
	for _, t := range c.Topics {
		if c.HasQoS {
			_, err = db.Exec("INSERT INTO topics(id,name,type,serialization_format,offered_qos_profiles) VALUES(?,?,?,?,?)", t.ID, t.Name, t.Type, t.Format, *t.QoS)
		} else {
			_, err = db.Exec("INSERT INTO topics(id,name,type,serialization_format) VALUES(?,?,?,?)", t.ID, t.Name, t.Type, t.Format)
		}
		if err != nil {
			return nil, nil, err
		}
	}
	tx, err := db.Begin()
	if err != nil {
		return nil, nil, err
	}
	for _, m := range c.Msgs {
		data := m.Data
		if data == nil {
			data = []byte{}
		}
		if _, err := tx.Exec("INSERT INTO messages(topic_id,timestamp,data) VALUES(?,?,?)", c.Topics[m.Topic].ID, m.TS, data); err != nil {
			return nil, nil, err
		}
	}
	if err := tx.Commit(); err != nil {
		return nil, nil, err
	}
	// ament index trees
	var dirs []string
	for i := 0; i < c.Dirs; i++ {
		dirs = append(dirs, filepath.Join(dir, fmt.Sprintf("ws%d", i)))
	}
	byPkg := map[string][]int{}
	for i, d := range c.Defs {
		byPkg[d.Pkg] = append(byPkg[d.Pkg], i)
	}
	pkgNames := []string{}
	for p := range byPkg {
		pkgNames = append(pkgNames, p)
	}
	sort.Strings(pkgNames)
	for pi, p := range pkgNames {
		root := dirs[pi%len(dirs)]
		idx := filepath.Join(root, "share", "ament_index", "resource_index", "rosidl_interfaces")
		if err := os.MkdirAll(idx, 0o755); err != nil {
			return nil, nil, err
		}
		var lines []string
		for _, di := range byPkg[p] {
			d := c.Defs[di]
			lines = append(lines, "msg/"+d.Name+".idl", "msg/"+d.Name+".msg")
			mdir := filepath.Join(root, "share", p, "msg")
			if err := os.MkdirAll(mdir, 0o755); err != nil {
				return nil, nil, err
			}
			if err := os.WriteFile(filepath.Join(mdir, d.Name+".msg"), []byte(d.text()), 0o644); err != nil {
				return nil, nil, err
			}
		}
		if err := os.WriteFile(filepath.Join(idx, p), []byte(strings.Join(lines, "\n")+"\n"), 0o644); err != nil {
			return nil, nil, err
		}
	}
	return db, dirs, nil
}

func (c *DB3Case) closure(i int) map[int]bool {
	seen := map[int]bool{}
	var walk func(int)
	walk = func(x int) {
		for _, d := range c.Defs[x].Deps {
			if !seen[d] {
				seen[d] = true
				walk(d)
			}
		}
	}
	walk(i)
	delete(seen, i)
	return seen
}

func checkDB3(c DB3Case, st *stats.Collector) error {
	dir, err := os.MkdirTemp(scratchDir(), "db3-")
	if err != nil {
		return pk.Failf("harness", "%v", err)
	}
	defer os.RemoveAll(dir)
	db, dirs, err := buildDB3(&c, dir)
	if err != nil {
		return pk.Failf("harness", "cannot build database: %v", err)
	}
	defer db.Close()
	var out bytes.Buffer
	var perr string
	func() {
		defer func() {
			if x := recover(); x != nil {
				perr = fmt.Sprint(x)
			}
		}()
		err = ros.DB3ToMCAP(&out, db, mc.Options(c.K), dirs)
	}()
	if perr != "" {
		return pk.Failf("panic", "DB3ToMCAP panicked on a valid database: %s", perr)
	}
	nonMsgWithData := false
	for _, m := range c.Msgs {
		if !isMsgType(c.Topics[m.Topic].Type) {
			nonMsgWithData = true
		}
	}
	if err != nil {
		if nonMsgWithData && pk.Open("C18", "db3-non-message-topic-with-messages") && strings.Contains(err.Error(), "unrecognized channel") {
			st.KnownFinding("db3-non-message-topic-with-messages", pk.What("C18", "db3-non-message-topic-with-messages"))
			return nil
		}
		return pk.Failf("convert-error", "DB3ToMCAP rejected a valid database: %v", err)
	}
	d, err := validateOutput(out.Bytes(), c.K)
	if err != nil {
		return err
	}
	flat := d.Flat(false)
	if len(flat) == 0 || flat[0].Op != specdec.OpHeader || flat[0].Profile != "ros2" {
		return pk.Failf("header", "output header profile is not ros2")
	}
	// expected messages: those of message-typed topics, sorted by timestamp (ties: any order)
	type em struct {
		topic uint16
		ts    uint64
		data  string
	}
	var want []em
	topicByID := map[uint16]DBTopic{}
	for _, t := range c.Topics {
		topicByID[t.ID] = t
	}
	for _, m := range c.Msgs {
		t := c.Topics[m.Topic]
		if isMsgType(t.Type) {
			want = append(want, em{t.ID, uint64(m.TS), string(m.Data)})
		}
	}
	sort.SliceStable(want, func(i, j int) bool { return want[i].ts < want[j].ts })
	var got []em
	seq := map[uint16]uint32{}
	chans := map[uint16]*specdec.Record{}
	schemas := map[uint16]*specdec.Record{}
	var lastTS uint64
	for _, r := range flat[1:] {
		switch r.Op {
		case specdec.OpSchema:
			schemas[r.ID] = r
		case specdec.OpChannel:
			chans[r.ID] = r
		case specdec.OpMessage:
			if r.LogTime < lastTS {
				return pk.Failf("order", "output messages are not in timestamp order (%d after %d)", r.LogTime, lastTS)
			}
			lastTS = r.LogTime
			if r.PublishTime != r.LogTime {
				return pk.Failf("message", "publish time %d differs from log time %d", r.PublishTime, r.LogTime)
			}
			if r.Sequence != seq[r.ChannelID] {
				return pk.Failf("sequence", "message on channel %d has sequence %d, expected %d", r.ChannelID, r.Sequence, seq[r.ChannelID])
			}
			seq[r.ChannelID]++
			if chans[r.ChannelID] == nil {
				return pk.Failf("channel", "message precedes its channel %d", r.ChannelID)
			}
			got = append(got, em{r.ChannelID, r.LogTime, string(r.Data)})
		}
	}
	key := func(e em) string { return fmt.Sprintf("%020d|%05d|%x", e.ts, e.topic, e.data) }
	gk, wk := make([]string, len(got)), make([]string, len(want))
	for i := range got {
		gk[i] = key(got[i])
	}
	for i := range want {
		wk[i] = key(want[i])
	}
	sort.Strings(gk)
	sort.Strings(wk)
	if strings.Join(gk, "\n") != strings.Join(wk, "\n") {
		return pk.Failf("messages", "output holds %d messages, the database stores %d on message-typed topics (or contents differ)", len(got), len(want))
	}
	// channels and schemas
	nMsgTopics := 0
	for _, t := range c.Topics {
		if !isMsgType(t.Type) {
			if chans[t.ID] != nil {
				return pk.Failf("channel", "non-message topic %q (%s) got a channel", t.Name, t.Type)
			}
			continue
		}
		nMsgTopics++
		ch := chans[t.ID]
		if ch == nil {
			return pk.Failf("channel", "topic %q has no channel", t.Name)
		}
		wantMeta := map[string]string{}
		if t.QoS != nil {
			wantMeta["offered_qos_profiles"] = *t.QoS
		}
		if ch.Topic != t.Name || ch.MessageEncoding != t.Format || fmt.Sprint(ch.MetaMap()) != fmt.Sprint(wantMeta) {
			return pk.Failf("channel", "channel %d = (%q, %q, %v), topic = (%q, %q, %v)", t.ID, ch.Topic, ch.MessageEncoding, ch.MetaMap(), t.Name, t.Format, wantMeta)
		}
		s := schemas[ch.SchemaID]
		if s == nil || s.Name != t.Type || s.Encoding != "ros2msg" {
			return pk.Failf("schema", "channel %d's schema = %s, topic type %q", t.ID, pk.Short(s), t.Type)
		}
		// schema text: top-level definition, then every transitive dependency exactly once
		di := -1
		for i, df := range c.Defs {
			if df.Pkg+"/msg/"+df.Name == t.Type {
				di = i
			}
		}
		sections := strings.Split(string(s.Data), strings.TrimSuffix(string(ros.MessageDefinitionSeparator), "\n")+"\n")
		top := c.Defs[di].text()
		if !sameDefinition(sections[0], top, len(sections) == 1) {
			return pk.Failf("schema-text", "schema of %s starts with %q, the definition file holds %q", t.Type, sections[0], top)
		}
		wantDeps := c.closure(di)
		seenDeps := map[string]bool{}
		for si, sec := range sections[1:] {
			nl := strings.Index(sec, "\n")
			if nl < 0 || !strings.HasPrefix(sec, "MSG: ") {
				return pk.Failf("schema-text", "schema of %s has a section without a MSG header: %q", t.Type, sec)
			}
			name := sec[5:nl]
			if seenDeps[name] {
				return pk.Failf("schema-text", "schema of %s lists %s twice", t.Type, name)
			}
			seenDeps[name] = true
			found := false
			for x := range wantDeps {
				df := c.Defs[x]
				if df.Pkg+"/"+df.Name == name {
					found = true
					if !sameDefinition(sec[nl+1:], df.text(), si == len(sections)-2) {
						return pk.Failf("schema-text", "schema of %s: section %s holds %q, the file holds %q (compared modulo one final newline; the separator must stay on its own line)", t.Type, name, sec[nl+1:], df.text())
					}
				}
			}
			if !found {
				return pk.Failf("schema-text", "schema of %s lists %s, which is not a dependency", t.Type, name)
			}
		}
		if len(seenDeps) != len(wantDeps) {
			return pk.Failf("schema-text", "schema of %s lists %d dependencies, the type has %d", t.Type, len(seenDeps), len(wantDeps))
		}
	}
	tie := false
	for i := 1; i < len(want); i++ {
		if want[i].ts == want[i-1].ts {
			tie = true
		}
	}
	depth2 := false
	for i := range c.Defs {
		for _, dd := range c.Defs[i].Deps {
			if len(c.Defs[dd].Deps) > 0 {
				depth2 = true
			}
		}
	}
	nontrivial := nMsgTopics >= 2 && tie && depth2
	classes := []string{"db3", fmt.Sprintf("qos-column=%v", c.HasQoS)}
	if tie {
		classes = append(classes, "equal-timestamps")
	}
	if depth2 {
		classes = append(classes, "dependency-depth>=2")
	}
	if nonMsgWithData {
		classes = append(classes, "non-message-topic-with-stored-messages")
	}
	st.Case(wl.Hash(c), nontrivial, 1, classes...)
	if nontrivial && st.WantSample() {
		st.Sample(c)
	}
	return nil
}

func TestC18DB3(t *testing.T) {
	pk.Run(t, "C18d", genDB3, checkDB3)
}

func handleDB3(req isolate.Req) isolate.Resp {
	dir, err := os.MkdirTemp(scratchDir(), "db3h-")
	if err != nil {
		return isolate.Resp{Text: "harness: " + err.Error()}
	}
	defer os.RemoveAll(dir)
	p := filepath.Join(dir, "hostile.db3")
	searchDir := dir
	if req.Opts&1 != 0 && len(req.Input) >= 4 {
		n := int(binary.LittleEndian.Uint32(req.Input))
		if 4+n <= len(req.Input) {
			searchDir = string(req.Input[4 : 4+n])
			req.Input = req.Input[4+n:]
		}
	}
	if err := os.WriteFile(p, req.Input, 0o644); err != nil {
		return isolate.Resp{Text: "harness: " + err.Error()}
	}
	db, err := sql.Open("sqlite3", p)
	if err != nil {
		return isolate.Resp{Text: err.Error()}
	}
	defer db.Close()
	if req.Opts&1 != 0 {
		// damaged-database mode: the search directory comes with the request, and the answer says how many
		// messages the output holds (Progress = 1 + count) and a checksum of their payloads (Flags)
		var out bytes.Buffer
		err = ros.DB3ToMCAP(&out, db, &mcap.WriterOptions{Chunked: true, ChunkSize: 4096}, []string{searchDir})
		if err != nil {
			return isolate.Resp{Text: err.Error()}
		}
		lx, err := mcap.NewLexer(bytes.NewReader(out.Bytes()))
		if err != nil {
			return isolate.Resp{Text: "harness: output unreadable: " + err.Error()}
		}
		n, sum := uint32(0), uint32(0)
		for {
			tt, rec, err := lx.Next(nil)
			if err != nil {
				break
			}
			if tt == mcap.TokenMessage {
				n++
				sum = sum*31 + crc32.ChecksumIEEE(rec[22:])
			}
		}
		return isolate.Resp{Progress: 1 + n, Flags: sum}
	}
	err = ros.DB3ToMCAP(io.Discard, db, &mcap.WriterOptions{Chunked: true, ChunkSize: 1024}, []string{dir})
	if err != nil {
		return isolate.Resp{Text: err.Error()}
	}
	return isolate.Resp{Progress: 1}
}

// ---- a database that is damaged, not garbage: one page of a multi-page file overwritten. sqlite notices
// such damage only when a query reaches the page, i.e. in the middle of the conversion.
type DB3Damaged struct {
	NMsgs   int
	Payload int
	Page    int    // which 4096-byte page is overwritten (modulo the number of pages, never page 0's header)
	Fill    byte   // overwritten with this byte ...
	Noise   uint64 // ... or, when non-zero, with noise from this seed
}

func genDB3Damaged(t *rapid.T) DB3Damaged {
	return DB3Damaged{NMsgs: rapid.IntRange(300, 3000).Draw(t, "n-msgs"), Payload: rapid.IntRange(10, 300).Draw(t, "payload"), Page: rapid.IntRange(1, 500).Draw(t, "page"),
		Fill: rapid.SampledFrom([]byte{0, 0xff, 0x0d, 0x05}).Draw(t, "fill"), Noise: rapid.Uint64Range(0, 3).Draw(t, "noise")}
}

func checkDB3Damaged(h DB3Damaged, st *stats.Collector) error {
	dir, err := os.MkdirTemp(scratchDir(), "db3d-")
	if err != nil {
		return pk.Failf("harness", "%v", err)
	}
	defer os.RemoveAll(dir)
	c := DB3Case{Dirs: 1, Defs: []MsgDef{{Pkg: "pkg_a", Name: "Blob", Lines: []string{"uint8[] data"}}}, Topics: []DBTopic{{ID: 1, Name: "/blob", Type: "pkg_a/msg/Blob", Format: "cdr"}}}
	for i := 0; i < h.NMsgs; i++ {
		c.Msgs = append(c.Msgs, DBMsg{Topic: 0, TS: int64(i), Data: wl.Fill(h.Payload, uint64(i)+1)})
	}
	db, dirs, err := buildDB3(&c, dir)
	if err != nil {
		return pk.Failf("harness", "cannot build the database: %v", err)
	}
	db.Close()
	raw, err := os.ReadFile(filepath.Join(dir, "bag.db3"))
	if err != nil {
		return pk.Failf("harness", "%v", err)
	}
	frame := func(b []byte) []byte {
		in := binary.LittleEndian.AppendUint32(nil, uint32(len(dirs[0])))
		in = append(in, dirs[0]...)
		return append(in, b...)
	}
	ref := worker().Call(isolate.Req{Entry: entryDB3, Opts: 1, Input: frame(raw)}, 60*time.Second, 600*time.Second)
	if err := judge(fmt.Sprintf("DB3ToMCAP on an intact %d-message database", h.NMsgs), ref); err != nil {
		return err
	}
	if ref.Text != "" {
		return pk.Failf("convert-error", "DB3ToMCAP rejected a valid %d-message database: %s", h.NMsgs, ref.Text)
	}
	if ref.Progress != uint32(1+h.NMsgs) {
		return pk.Failf("messages", "DB3ToMCAP converted an intact %d-message database into an MCAP holding %d messages", h.NMsgs, int(ref.Progress)-1)
	}
	pages := len(raw) / 4096
	if pages < 3 {
		return pk.Failf("harness", "database of %d bytes is too small to damage a page", len(raw))
	}
	pg := 1 + h.Page%(pages-1)
	bad := append([]byte{}, raw...)
	fill := bytes.Repeat([]byte{h.Fill}, 4096)
	if h.Noise != 0 {
		fill = wl.Fill(4096, h.Noise)
	}
	copy(bad[pg*4096:], fill)
	o := worker().Call(isolate.Req{Entry: entryDB3, Opts: 1, Input: frame(bad)}, 60*time.Second, 600*time.Second)
	label := fmt.Sprintf("DB3ToMCAP on a %d-message, %d-page database with page %d overwritten", h.NMsgs, pages, pg)
	if err := judge(label, o); err != nil {
		return err
	}
	if o.Text == "" && (o.Progress != ref.Progress || o.Flags != ref.Flags) {
		return pk.Failf("damaged-accepted", "%s returned no error and an MCAP file with %d of the %d stored messages (or altered payloads)", label, int(o.Progress)-1, h.NMsgs)
	}
	outcome := "outcome=error"
	if o.Text == "" {
		outcome = "outcome=complete-output(damage-not-in-a-page-the-conversion-reads)"
	}
	st.Case(wl.Hash(h), true, 2, "damaged-db3", outcome)
	if st.WantSample() {
		st.Sample(map[string]any{"case": h, "pages": pages, "result": o.Text})
	}
	return nil
}

func TestC18DB3Damaged(t *testing.T) {
	pk.Run(t, "C18dd", genDB3Damaged, checkDB3Damaged)
}

type DB3Hostile struct {
	Bytes []byte
	Kind  int
}

func genDB3Hostile(t *rapid.T) DB3Hostile {
	h := DB3Hostile{Kind: rapid.IntRange(0, 1).Draw(t, "kind")}
	h.Bytes = rapid.SliceOfN(rapid.Byte(), 0, 400).Draw(t, "bytes")
	if h.Kind == 1 {
		h.Bytes = append([]byte("SQLite format 3\x00"), h.Bytes...)
	}
	return h
}

func checkDB3Hostile(h DB3Hostile, st *stats.Collector) error {
	o := worker().Call(isolate.Req{Entry: entryDB3, Input: h.Bytes}, 15*time.Second, 600*time.Second)
	if err := judge(fmt.Sprintf("DB3ToMCAP on a %d-byte garbage database", len(h.Bytes)), o); err != nil {
		return err
	}
	if o.Text == "" {
		return pk.Failf("garbage-accepted", "DB3ToMCAP returned no error for a %d-byte garbage database", len(h.Bytes))
	}
	st.Case(wl.Hash(h), h.Kind == 1, 1, "hostile-db3")
	return nil
}

func TestC18DB3Hostile(t *testing.T) {
	pk.Run(t, "C18dh", genDB3Hostile, checkDB3Hostile)
}
