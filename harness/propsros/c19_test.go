package propsros

import (
	"fmt"
	"os"
	"strings"
	"sync"
	"testing"
	"time"

	"github.com/foxglove/mcap/go/ros/ros1msg"
	"pgregory.net/rapid"
	"verifharness/isolate"
	"verifharness/pk"
	"verifharness/stats"
	"verifharness/wl"
)

// ---- worker plumbing (shared by C18 and C19)

const (
	entryRos1msg = 1
	entryBag     = 2
	entryDB3     = 3
)

func TestMain(m *testing.M) {
	isolate.RedirectFuzzWorkerStderr()
	if isolate.IsWorker() {
		isolate.Serve(handleRos)
		return
	}
	code := m.Run()
	if rosWorker != nil {
		rosWorker.Close()
	}
	os.Exit(code)
}

var (
	rosWorker *isolate.Worker
	rosMu     sync.Mutex
)

func worker() *isolate.Worker {
	rosMu.Lock()
	defer rosMu.Unlock()
	if rosWorker == nil {
		rosWorker = &isolate.Worker{}
	}
	return rosWorker
}

func handleRos(req isolate.Req) isolate.Resp {
	switch req.Entry {
	case entryRos1msg:
		pkgLen := int(req.Aux)
		if pkgLen > len(req.Input) {
			pkgLen = len(req.Input)
		}
		fields, err := ros1msg.ParseMessageDefinition(string(req.Input[:pkgLen]), req.Input[pkgLen:])
		r := isolate.Resp{Progress: uint32(len(fields))}
		if err != nil {
			r.Text = err.Error()
		}
		return r
	case entryBag:
		return handleBag(req)
	case entryDB3:
		return handleDB3(req)
	}
	return isolate.Resp{Text: "harness: unknown entry"}
}

func judge(label string, o isolate.Outcome) error {
	switch {
	case o.Hang:
		return pk.Failf("hang", "%s did not finish within the deadline, also when re-run alone in a fresh worker with a 600 s deadline", label)
	case o.Died:
		return pk.Failf("process-death", "%s killed the process: %s", label, o.ExitInfo)
	case o.Status == 1:
		return pk.Failf("panic", "%s panicked: %s", label, o.Text)
	}
	return nil
}

// ---- C19 part 1: well-formed definitions parse to the generating graph

var primitives = []string{"bool", "int8", "uint8", "int16", "uint16", "int32", "uint32", "int64", "uint64", "float32", "float64", "string", "time", "duration", "char", "byte"}

// GField is one field of a generated type.
type GField struct {
	Name  string
	Prim  string // primitive name, or "" for a record
	Ref   int    // index of the referenced type when Prim == ""
	Style int    // how the reference is written: 0 qualified, 1 package-relative (only if same package), 2 "Header" (only for std_msgs/Header)
	Array int    // 0 none, 1 variable, 2 fixed
	Size  int
	// decoration
	Comment  string
	Sep      string
	Constant string // a constant line emitted before this field
	// Pad > 0 makes one line of this field that long (generated files embed licence texts, long string
	// constants and tables in comments): PadKind 0 a comment line before the field, 1 the field's trailing
	// comment, 2 a string constant before the field
	Pad     int
	PadKind int
}

type GType struct {
	Pkg, Name string
	Fields    []GField
}

type C19Case struct {
	Types  []GType // Types[0] is the top-level type; references only point to higher indexes (acyclic)
	SepLen int
	Blank  bool
	Hdr    int // index of the std_msgs/Header type, or -1
}

var pkgs = []string{"pkg_a", "pkg_b", "std_msgs", "geometry_msgs"}
var seps = []string{" ", "  ", " \t", "\t ", "   \t  "}

func genC19(t *rapid.T) C19Case {
	n := rapid.IntRange(1, 7).Draw(t, "n-types")
	c := C19Case{SepLen: rapid.IntRange(3, 90).Draw(t, "sep-len"), Blank: rapid.Bool().Draw(t, "blank-lines"), Hdr: -1}
	for i := 0; i < n; i++ {
		// short names come from a small pool so that different packages define types with the same
		// short name; (package, name) stays unique
		g := GType{Pkg: rapid.SampledFrom(pkgs).Draw(t, "pkg"), Name: rapid.SampledFrom([]string{"Point", "Pose", "Item", "T_x"}).Draw(t, "short-name")}
		for clash := true; clash; {
			clash = false
			for _, o := range c.Types {
				if o.Pkg == g.Pkg && o.Name == g.Name {
					clash = true
					g.Name += fmt.Sprint(i)
				}
			}
		}
		c.Types = append(c.Types, g)
	}
	if n > 1 && rapid.Bool().Draw(t, "with-header") {
		c.Hdr = n - 1
		c.Types[c.Hdr].Pkg, c.Types[c.Hdr].Name = "std_msgs", "Header"
	}
	// depth control: type i may reference types > i; limit the expansion size
	for i := n - 1; i >= 0; i-- {
		nf := rapid.IntRange(0, 5).Draw(t, "n-fields")
		if i == c.Hdr {
			nf = 3
		}
		for f := 0; f < nf; f++ {
			g := GField{Name: fmt.Sprintf("%s%d", rapid.SampledFrom([]string{"f", "value_", "X", "a_b_"}).Draw(t, "fname"), f),
				Sep: rapid.SampledFrom(seps).Draw(t, "sep"), Array: rapid.SampledFrom([]int{0, 0, 1, 2}).Draw(t, "array")}
			if g.Array == 2 {
				g.Size = rapid.IntRange(1, 1000).Draw(t, "size")
			}
			if i < n-1 && i != c.Hdr && rapid.IntRange(0, 2).Draw(t, "record?") == 0 {
				g.Ref = rapid.IntRange(i+1, n-1).Draw(t, "ref")
				ref := c.Types[g.Ref]
				styles := []int{0}
				if ref.Pkg == c.Types[i].Pkg {
					styles = append(styles, 1)
				}
				if g.Ref == c.Hdr {
					styles = append(styles, 2, 2)
				}
				g.Style = rapid.SampledFrom(styles).Draw(t, "style")
			} else {
				g.Prim = rapid.SampledFrom(primitives).Draw(t, "prim")
			}
			if rapid.IntRange(0, 3).Draw(t, "comment?") == 0 {
				g.Comment = rapid.SampledFrom([]string{"# plain", "#no space", "# has = sign", "# uint8 fake_field", "#"}).Draw(t, "comment")
			}
			if rapid.IntRange(0, 5).Draw(t, "const?") == 0 {
				g.Constant = rapid.SampledFrom([]string{"int32 FOO=1", "string NAME=hello world # not a comment", "uint8 BAR = 7", "float32 PI=3.14 # pi"}).Draw(t, "const")
			}
			if rapid.IntRange(0, 50).Draw(t, "long-line?") == 0 {
				g.Pad = rapid.SampledFrom([]int{4096, 65535, 65536, 65537, 70000, 131073, 1 << 20}).Draw(t, "pad")
				g.PadKind = rapid.IntRange(0, 2).Draw(t, "pad-kind")
			}
			c.Types[i].Fields = append(c.Types[i].Fields, g)
		}
	}
	return c
}

func (c *C19Case) refText(from int, g *GField) string {
	ref := c.Types[g.Ref]
	switch g.Style {
	case 1:
		return ref.Name
	case 2:
		return "Header"
	}
	return ref.Pkg + "/" + ref.Name
}

func (c *C19Case) typeText(from int, g *GField) (written, base string) {
	base = g.Prim
	if base == "" {
		base = c.refText(from, g)
	}
	switch g.Array {
	case 1:
		return base + "[]", base
	case 2:
		return fmt.Sprintf("%s[%d]", base, g.Size), base
	}
	return base, base
}

func (c *C19Case) reachable() []int {
	seen := map[int]bool{0: true}
	order := []int{0}
	for q := 0; q < len(order); q++ {
		for _, f := range c.Types[order[q]].Fields {
			if f.Prim == "" && !seen[f.Ref] {
				seen[f.Ref] = true
				order = append(order, f.Ref)
			}
		}
	}
	return order
}

func (c *C19Case) render() string {
	var sb strings.Builder
	body := func(i int) {
		t := c.Types[i]
		if c.Blank {
			sb.WriteString("\n")
		}
		sb.WriteString("# definition of " + t.Pkg + "/" + t.Name + "\n")
		for fi := range t.Fields {
			f := &t.Fields[fi]
			if f.Constant != "" {
				sb.WriteString(f.Constant + "\n")
			}
			pad := ""
			if f.Pad > 0 {
				pad = strings.Repeat("long text ", f.Pad/10+1)[:f.Pad]
			}
			switch {
			case f.Pad > 0 && f.PadKind == 0:
				sb.WriteString("# " + pad + "\n")
			case f.Pad > 0 && f.PadKind == 2:
				sb.WriteString("string LONG_" + f.Name + "=" + pad + "\n")
			}
			w, _ := c.typeText(i, f)
			line := w + f.Sep + f.Name
			if f.Comment != "" {
				line += " " + f.Comment
			}
			if f.Pad > 0 && f.PadKind == 1 {
				line += " # " + pad
			}
			sb.WriteString(line + "\n")
			if c.Blank && fi%2 == 0 {
				sb.WriteString("   \n")
			}
		}
	}
	order := c.reachable()
	body(0)
	for _, i := range order[1:] {
		sb.WriteString(strings.Repeat("=", c.SepLen) + "\n")
		sb.WriteString("MSG: " + c.Types[i].Pkg + "/" + c.Types[i].Name + "\n")
		body(i)
	}
	return sb.String()
}

// expansion size of the tree rooted at type i
func (c *C19Case) size(i int, memo map[int]int) int {
	if v, ok := memo[i]; ok {
		return v
	}
	n := 0
	for _, f := range c.Types[i].Fields {
		n++
		if f.Prim == "" {
			n += c.size(f.Ref, memo)
		}
	}
	memo[i] = n
	return n
}

func (c *C19Case) compare(path string, ti int, got []ros1msg.Field) error {
	want := c.Types[ti].Fields
	if len(got) != len(want) {
		return pk.Failf("field-count", "%s: %d fields parsed, the definition has %d", path, len(got), len(want))
	}
	for i := range want {
		w, g := &want[i], got[i]
		p := path + "." + w.Name
		if g.Name != w.Name {
			return pk.Failf("field-name", "%s: field #%d is named %q, the definition says %q", path, i, g.Name, w.Name)
		}
		written, base := c.typeText(ti, w)
		isRec := w.Prim == ""
		if g.Type.BaseType != written {
			return pk.Failf("base-type", "%s: BaseType %q, written %q", p, g.Type.BaseType, written)
		}
		if (w.Array != 0) != g.Type.IsArray {
			return pk.Failf("array", "%s: IsArray=%v for %q", p, g.Type.IsArray, written)
		}
		wantSize := 0
		if w.Array == 2 {
			wantSize = w.Size
		}
		if g.Type.FixedSize != wantSize {
			return pk.Failf("array", "%s: FixedSize=%d for %q", p, g.Type.FixedSize, written)
		}
		if w.Array != 0 {
			it := g.Type.Items
			if it == nil {
				return pk.Failf("array", "%s: array without Items", p)
			}
			if it.BaseType != base || it.IsRecord != isRec || it.IsArray {
				return pk.Failf("array-items", "%s: Items = {BaseType %q, IsRecord %v, IsArray %v}, element type written %q (record %v)", p, it.BaseType, it.IsRecord, it.IsArray, base, isRec)
			}
			if g.Type.IsRecord {
				return pk.Failf("array", "%s: an array is marked IsRecord", p)
			}
			if isRec {
				if err := c.compare(p+"[]", w.Ref, it.Fields); err != nil {
					return err
				}
			} else if len(it.Fields) != 0 {
				return pk.Failf("array-items", "%s: primitive elements with %d child fields", p, len(it.Fields))
			}
			continue
		}
		if g.Type.IsRecord != isRec {
			return pk.Failf("record", "%s: IsRecord=%v for %q", p, g.Type.IsRecord, written)
		}
		if g.Type.Items != nil {
			return pk.Failf("record", "%s: non-array with Items", p)
		}
		if isRec {
			if err := c.compare(p, w.Ref, g.Type.Fields); err != nil {
				return err
			}
		} else if len(g.Type.Fields) != 0 {
			return pk.Failf("record", "%s: primitive with %d child fields", p, len(g.Type.Fields))
		}
	}
	return nil
}

func checkC19(c C19Case, st *stats.Collector) error {
	if len(c.Types) == 0 {
		return nil
	}
	if c.size(0, map[int]int{}) > 20000 {
		st.Exclude("expansion-larger-than-20000-nodes")
		return nil
	}
	def := c.render()
	// what this process parsed before must not matter: every other case first parses a broken sibling of the
	// definition (a nested section cut off, or a malformed field inside the last section), whose failure is fine
	if h := wl.Hash(c); h%2 == 0 {
		broken := def
		if i := strings.LastIndex(def, "\nMSG: "); i > 0 && h%4 == 0 {
			broken = def[:i] // the last dependency is missing
		} else {
			broken = def + "\n]bad[ field name with [ brackets\nno_such_pkg/NoSuchType x\n"
		}
		func() {
			defer func() { _ = recover() }()
			_, _ = ros1msg.ParseMessageDefinition(c.Types[0].Pkg, []byte(broken))
		}()
	}
	got, err := ros1msg.ParseMessageDefinition(c.Types[0].Pkg, []byte(def))
	if err != nil {
		return pk.Failf("parse-error", "well-formed definition rejected: %v\n%s", err, def)
	}
	if err := c.compare(c.Types[0].Pkg+"/"+c.Types[0].Name, 0, got); err != nil {
		return fmt.Errorf("%w\n--- definition ---\n%s", err, def)
	}
	styles := map[int]bool{}
	recArray := false
	depth := 0
	var walk func(i, d int)
	walk = func(i, d int) {
		if d > depth {
			depth = d
		}
		if d > 8 {
			return
		}
		for _, f := range c.Types[i].Fields {
			if f.Prim == "" {
				styles[f.Style] = true
				if f.Array != 0 {
					recArray = true
				}
				walk(f.Ref, d+1)
			}
		}
	}
	walk(0, 1)
	nontrivial := recArray && len(styles) >= 2
	classes := []string{fmt.Sprintf("depth=%d", depth), fmt.Sprintf("reference-styles=%d", len(styles))}
	if recArray {
		classes = append(classes, "array-of-records")
	}
	if styles[2] {
		classes = append(classes, "Header-special")
	}
	longest := 0
	for _, i := range c.reachable() {
		for _, f := range c.Types[i].Fields {
			if f.Pad > longest {
				longest = f.Pad
			}
		}
	}
	if longest >= 65536 {
		classes = append(classes, "line>=64KiB")
	} else if longest > 0 {
		classes = append(classes, "line>=4KiB")
	}
	st.Case(wl.Hash(c), nontrivial, 1, classes...)
	if nontrivial && longest == 0 && st.WantSample() {
		st.Sample(map[string]any{"definition": def})
	}
	return nil
}

func TestC19(t *testing.T) {
	pk.Run(t, "C19", genC19, checkC19)
}

// ---- C19 part 2: hostile definitions, in the isolated worker

type C19Hostile struct {
	Pkg   string
	Def   string
	Kind  string
	Chain int `json:",omitempty"` // deep-chain: number of types, each containing the next
}

func genCycle(t *rapid.T) string {
	n := rapid.IntRange(1, 4).Draw(t, "cycle-len")
	var sb strings.Builder
	sb.WriteString("p/T1 start\n")
	for i := 1; i <= n; i++ {
		next := i%n + 1
		fmt.Fprintf(&sb, "%s\nMSG: p/T%d\n", strings.Repeat("=", 80), i)
		arr := rapid.SampledFrom([]string{"", "[]", "[2]"}).Draw(t, "cycle-array")
		ref := fmt.Sprintf("p/T%d", next)
		if rapid.Bool().Draw(t, "cycle-unqualified") {
			ref = fmt.Sprintf("T%d", next)
		}
		fmt.Fprintf(&sb, "uint8 a\n%s%s next\n", ref, arr)
	}
	return sb.String()
}

// genDiamond: an acyclic chain of n types, each with two fields of the next type: 2^n leaves.
func genDiamond(t *rapid.T) string {
	n := rapid.IntRange(8, 60).Draw(t, "diamond-depth")
	var sb strings.Builder
	sb.WriteString("p/D1 a\np/D1 b\n")
	for i := 1; i <= n; i++ {
		fmt.Fprintf(&sb, "%s\nMSG: p/D%d\n", strings.Repeat("=", 80), i)
		if i < n {
			fmt.Fprintf(&sb, "p/D%d a\np/D%d b\n", i+1, i+1)
		} else {
			sb.WriteString("uint8 leaf\n")
		}
	}
	return sb.String()
}

var hostileLines = []string{"]x[ name", "uint8[ x", "uint8] x", "uint8[][] x", "uint8[-1] x", "uint8[99999999999999999999] x", "[] x", "[3] x", "a/b/c x", "/ x", "Header h", "x", "=", "==\nMSG: ", "MSG: p/T",
	"uint8 x=", "\tuint8\tx", "uint8\tx", "p/Missing m", "Missing m", "uint8[3]x y", "uint8 9x", "\x00 \x00", "uint8 x # c", "string s=\"a b\"", "#", " ", "][ a", "a]b[c d"}

func genC19Hostile(t *rapid.T) C19Hostile {
	h := C19Hostile{Pkg: rapid.SampledFrom([]string{"", "p", "std_msgs", "a/b"}).Draw(t, "pkg")}
	switch rapid.IntRange(0, 6).Draw(t, "hostile-kind") {
	case 6:
		// an acyclic chain T0 -> T1 -> ... : nesting depth, and with it the parser's recursion, is up to the input
		h.Kind = "deep-chain"
		h.Pkg = "p"
		h.Chain = rapid.SampledFrom([]int{300, 3000, 30000, 250000}).Draw(t, "chain")
	case 0:
		h.Kind = "random-bytes"
		h.Def = string(rapid.SliceOfN(rapid.Byte(), 0, 200).Draw(t, "bytes"))
	case 1:
		h.Kind = "hostile-lines"
		n := rapid.IntRange(1, 8).Draw(t, "n-lines")
		var ls []string
		for i := 0; i < n; i++ {
			ls = append(ls, rapid.SampledFrom(hostileLines).Draw(t, "line"))
		}
		h.Def = strings.Join(ls, "\n")
	case 2:
		h.Kind = "cyclic-types"
		h.Pkg = "p"
		h.Def = genCycle(t)
	case 3:
		h.Kind = "mutated-valid"
		c := genC19(t)
		def := []byte(c.render())
		n := rapid.IntRange(1, 4).Draw(t, "n-mut")
		for i := 0; i < n && len(def) > 0; i++ {
			p := rapid.IntRange(0, len(def)-1).Draw(t, "mut-pos")
			switch rapid.IntRange(0, 3).Draw(t, "mut-kind") {
			case 0:
				def[p] = rapid.SampledFrom([]byte("[]=#/ \t\nM0")).Draw(t, "mut-char")
			case 1:
				def = append(def[:p], def[min(p+rapid.IntRange(1, 10).Draw(t, "del"), len(def)):]...)
			case 2:
				ins := rapid.SampledFrom(hostileLines).Draw(t, "ins")
				def = append(append(append([]byte{}, def[:p]...), []byte("\n"+ins+"\n")...), def[p:]...)
			default:
				def[p] ^= byte(rapid.IntRange(1, 255).Draw(t, "xor"))
			}
		}
		h.Pkg = c.Types[0].Pkg
		h.Def = string(def)
	case 4:
		h.Kind = "diamond-expansion"
		h.Pkg = "p"
		h.Def = genDiamond(t)
	default:
		h.Kind = "many-lines"
		line := rapid.SampledFrom([]string{"uint8 x", "# c", "", "int32 K=1", "float64[] v"}).Draw(t, "big-line")
		h.Def = strings.Repeat(line+"\n", rapid.SampledFrom([]int{1000, 100000}).Draw(t, "n-big"))
	}
	return h
}

func chainDefinition(n int) string {
	var sb strings.Builder
	sb.WriteString("T1 f\n")
	for i := 1; i < n; i++ {
		fmt.Fprintf(&sb, "================================================================================\nMSG: p/T%d\n", i)
		if i+1 < n {
			fmt.Fprintf(&sb, "T%d f\n", i+1)
		} else {
			sb.WriteString("uint8 x\n")
		}
	}
	return sb.String()
}

func checkC19Hostile(h C19Hostile, st *stats.Collector) error {
	if h.Kind == "deep-chain" {
		h.Def = chainDefinition(h.Chain) // built here so that replay files stay small
	}
	in := append([]byte(h.Pkg), []byte(h.Def)...)
	o := worker().Call(isolate.Req{Entry: entryRos1msg, Aux: uint64(len(h.Pkg)), Input: in}, 10*time.Second, 600*time.Second)
	label := fmt.Sprintf("ParseMessageDefinition(%q, %d-byte %s definition)", h.Pkg, len(h.Def), h.Kind)
	if err := judge(label, o); err != nil {
		return err
	}
	nontrivial := strings.Contains(h.Def, "/") || h.Kind == "cyclic-types" || h.Kind == "diamond-expansion"
	if h.Kind == "deep-chain" {
		h.Def = "" // not part of the case identity
	}
	cl := "outcome=value"
	if o.Text != "" {
		cl = "outcome=error"
	}
	st.Case(wl.Hash(h), nontrivial, 1, "kind="+h.Kind, cl)
	if nontrivial && st.WantSample() {
		d := h.Def
		if len(d) > 300 {
			d = d[:300] + "…"
		}
		st.Sample(map[string]any{"kind": h.Kind, "pkg": h.Pkg, "definition": d, "result": o.Text})
	}
	return nil
}

func TestC19Hostile(t *testing.T) {
	pk.Run(t, "C19h", genC19Hostile, checkC19Hostile)
}
