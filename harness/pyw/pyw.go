// Package pyw talks to /verif/py/pyworker.py, a persistent process around the repository's Python
// MCAP implementation.
package pyw

import (
	"bufio"
	"encoding/hex"
	"encoding/json"
	"fmt"
	"io"
	"os"
	"os/exec"
	"path/filepath"
	"sort"
	"sync"

	"verifharness/wl"
)

type Worker struct {
	mu  sync.Mutex
	cmd *exec.Cmd
	in  io.WriteCloser
	out *bufio.Reader
}

func (w *Worker) start() error {
	dir := os.Getenv("VERIF_DIR")
	if dir == "" {
		dir = "/verif"
	}
	cmd := exec.Command("python3", filepath.Join(dir, "py", "pyworker.py"))
	cmd.Env = os.Environ()
	cmd.Stderr = os.Stderr
	in, err := cmd.StdinPipe()
	if err != nil {
		return err
	}
	out, err := cmd.StdoutPipe()
	if err != nil {
		return err
	}
	if err := cmd.Start(); err != nil {
		return err
	}
	w.cmd, w.in, w.out = cmd, in, bufio.NewReaderSize(out, 1<<20)
	return nil
}

func (w *Worker) Close() {
	w.mu.Lock()
	defer w.mu.Unlock()
	if w.cmd != nil {
		w.in.Close()
		_ = w.cmd.Wait()
		w.cmd = nil
	}
}

func (w *Worker) call(req any, resp any) error {
	w.mu.Lock()
	defer w.mu.Unlock()
	if w.cmd == nil {
		if err := w.start(); err != nil {
			return fmt.Errorf("cannot start pyworker: %w", err)
		}
	}
	b, err := json.Marshal(req)
	if err != nil {
		return err
	}
	if _, err := w.in.Write(append(b, '\n')); err != nil {
		w.cmd = nil
		return fmt.Errorf("pyworker write: %w", err)
	}
	line, err := w.out.ReadBytes('\n')
	if err != nil {
		w.cmd = nil
		return fmt.Errorf("pyworker read: %w", err)
	}
	var fatal struct {
		Fatal string `json:"fatal"`
	}
	_ = json.Unmarshal(line, &fatal)
	if fatal.Fatal != "" {
		return fmt.Errorf("pyworker: %s", fatal.Fatal)
	}
	return json.Unmarshal(line, resp)
}

// Rec is one record as Python reports it.
type Rec struct {
	T               string            `json:"t"`
	Profile         string            `json:"profile"`
	Library         string            `json:"library"`
	ID              uint16            `json:"id"`
	SchemaID        uint16            `json:"schema_id"`
	Name            string            `json:"name"`
	Encoding        string            `json:"encoding"`
	Data            string            `json:"data"`
	Topic           string            `json:"topic"`
	MessageEncoding string            `json:"message_encoding"`
	Metadata        map[string]string `json:"metadata"`
	ChannelID       uint16            `json:"channel_id"`
	Sequence        uint32            `json:"sequence"`
	LogTime         uint64            `json:"log_time"`
	PublishTime     uint64            `json:"publish_time"`
	CreateTime      uint64            `json:"create_time"`
	MediaType       string            `json:"media_type"`
	Channel         *Rec              `json:"channel"`
	Schema          *Rec              `json:"schema"`
	// statistics
	MessageCount         uint64            `json:"message_count"`
	SchemaCount          uint64            `json:"schema_count"`
	ChannelCount         uint64            `json:"channel_count"`
	AttachmentCount      uint64            `json:"attachment_count"`
	MetadataCount        uint64            `json:"metadata_count"`
	ChunkCount           uint64            `json:"chunk_count"`
	MessageStartTime     uint64            `json:"message_start_time"`
	MessageEndTime       uint64            `json:"message_end_time"`
	ChannelMessageCounts map[string]uint64 `json:"channel_message_counts"`
}

func (r *Rec) Bytes() []byte {
	b, _ := hex.DecodeString(r.Data)
	return b
}

func kvs(m map[string]string) []wl.KV {
	out := make([]wl.KV, 0, len(m))
	for k, v := range m {
		out = append(out, wl.KV{K: k, V: v})
	}
	sort.Slice(out, func(i, j int) bool { return out[i].K < out[j].K })
	return out
}

func (r *Rec) AsSchema() *wl.Schema {
	if r == nil {
		return nil
	}
	return &wl.Schema{ID: r.ID, Name: r.Name, Encoding: r.Encoding, Data: r.Bytes()}
}
func (r *Rec) AsChannel() *wl.Channel {
	if r == nil {
		return nil
	}
	return &wl.Channel{ID: r.ID, SchemaID: r.SchemaID, Topic: r.Topic, MessageEncoding: r.MessageEncoding, Metadata: kvs(r.Metadata)}
}
func (r *Rec) AsMessage() *wl.Message {
	return &wl.Message{ChannelID: r.ChannelID, Sequence: r.Sequence, LogTime: r.LogTime, PublishTime: r.PublishTime, Data: r.Bytes()}
}
func (r *Rec) AsAttachment() *wl.Attachment {
	return &wl.Attachment{LogTime: r.LogTime, CreateTime: r.CreateTime, Name: r.Name, MediaType: r.MediaType, Data: r.Bytes()}
}
func (r *Rec) AsMetadata() *wl.Metadata { return &wl.Metadata{Name: r.Name, Metadata: kvs(r.Metadata)} }

type ReadResult struct {
	Stream struct {
		Records    []Rec   `json:"records"`
		Statistics *Rec    `json:"statistics"`
		Error      *string `json:"error"`
	} `json:"stream"`
	Seeking struct {
		Error   *string `json:"error"`
		Header  *Rec    `json:"header"`
		Summary *struct {
			Statistics        *Rec           `json:"statistics"`
			Channels          map[string]Rec `json:"channels"`
			Schemas           map[string]Rec `json:"schemas"`
			NChunkIndexes     int            `json:"n_chunk_indexes"`
			NAttachmentIndexes int           `json:"n_attachment_indexes"`
			NMetadataIndexes  int            `json:"n_metadata_indexes"`
		} `json:"summary"`
		FileOrder   []Rec `json:"file_order"`
		LogTime     []Rec `json:"log_time"`
		Reverse     []Rec `json:"reverse"`
		Attachments []Rec `json:"attachments"`
		Metadata    []Rec `json:"metadata"`
	} `json:"seeking"`
}

func (w *Worker) Read(path string) (*ReadResult, error) {
	var r ReadResult
	err := w.call(map[string]any{"cmd": "read", "path": path}, &r)
	return &r, err
}

type WriteOptions struct {
	ChunkSize         int      `json:"chunk_size"`
	IndexTypes        []string `json:"index_types"`
	RepeatChannels    bool     `json:"repeat_channels"`
	RepeatSchemas     bool     `json:"repeat_schemas"`
	UseChunking       bool     `json:"use_chunking"`
	UseStatistics     bool     `json:"use_statistics"`
	UseSummaryOffsets bool     `json:"use_summary_offsets"`
	EnableCRCs        bool     `json:"enable_crcs"`
	EnableDataCRCs    bool     `json:"enable_data_crcs"`
	// Output: what the Python Writer is given to write to: "" / "file" an ordinary buffered file object,
	// "path" the file's path, "raw" an unbuffered file (open(..., buffering=0), which the Writer wraps
	// itself), "bytesio" an in-memory stream whose content is then saved.
	Output string `json:"output,omitempty"`
}

// kvPairs keeps the insertion order: Python's writer serialises a dict in insertion order, so the
// order in which the map is built is part of the case (a Go map marshals to JSON with sorted keys).
func kvPairs(in []wl.KV) [][2]string {
	out := make([][2]string, 0, len(in))
	for _, kv := range in {
		out = append(out, [2]string{kv.K, kv.V})
	}
	return out
}

// Write has Python's Writer produce a file from a workload (ids as Python assigns them: 1, 2, ...).
func (w *Worker) Write(path string, wk *wl.Workload, o WriteOptions) error {
	var ops []map[string]any
	for _, op := range wk.Ops {
		switch {
		case op.S != nil:
			ops = append(ops, map[string]any{"k": "schema", "name": op.S.Name, "encoding": op.S.Encoding, "data": hex.EncodeToString(op.S.Data)})
		case op.C != nil:
			ops = append(ops, map[string]any{"k": "channel", "topic": op.C.Topic, "message_encoding": op.C.MessageEncoding, "schema_id": op.C.SchemaID, "metadata": kvPairs(op.C.Metadata)})
		case op.M != nil:
			ops = append(ops, map[string]any{"k": "message", "channel_id": op.M.ChannelID, "log_time": op.M.LogTime, "publish_time": op.M.PublishTime, "sequence": op.M.Sequence, "data": hex.EncodeToString(op.M.Data)})
		case op.A != nil:
			ops = append(ops, map[string]any{"k": "attachment", "create_time": op.A.CreateTime, "log_time": op.A.LogTime, "name": op.A.Name, "media_type": op.A.MediaType, "data": hex.EncodeToString(op.A.Data)})
		case op.D != nil:
			ops = append(ops, map[string]any{"k": "metadata", "name": op.D.Name, "metadata": kvPairs(op.D.Metadata)})
		}
	}
	var resp struct {
		IDs map[string][]int `json:"ids"`
	}
	return w.call(map[string]any{"cmd": "write", "path": path, "ops": ops, "options": o, "profile": wk.Profile, "library": wk.Library}, &resp)
}
