// Package isolate runs hostile inputs in a child process with a capped address space, a stack
// limit, per-call allocation accounting and a per-call deadline. The test binary re-executes itself
// as the worker (VERIF_WORKER=1); parent and worker speak a length-prefixed protocol on stdin/stdout.
package isolate

import (
	"bufio"
	"bytes"
	"encoding/binary"
	"fmt"
	"io"
	"os"
	"os/exec"
	"runtime"
	"runtime/debug"
	"runtime/metrics"
	"strings"
	"sync"
	"syscall"
	"time"
)

type Req struct {
	Entry uint16
	Opts  uint32
	Aux   uint64
	Input []byte
}

type Resp struct {
	Status   uint8 // 0 returned, 1 panicked
	Alloc    uint64
	Elapsed  time.Duration
	Progress uint32 // entry-specific: how far the input got (tokens, items, ...)
	Flags    uint32 // entry-specific bits
	Text     string // panic text + top of stack, or the returned error
}

// Outcome is what the parent learns about one call.
type Outcome struct {
	Resp
	Died     bool   // worker process died during the call
	ExitInfo string // exit status + stderr tail when Died
	Hang     bool   // did not finish within the deadline, twice
}

type Handler func(Req) Resp

const (
	AddressSpaceLimit = 12 << 30
	MaxStack          = 64 << 20
)

// Serve is the worker main loop. It never returns normally.
func Serve(h Handler) {
	_ = syscall.Setrlimit(syscall.RLIMIT_AS, &syscall.Rlimit{Cur: AddressSpaceLimit, Max: AddressSpaceLimit})
	debug.SetMaxStack(MaxStack)
	in := bufio.NewReaderSize(os.Stdin, 1<<16)
	out := bufio.NewWriterSize(os.Stdout, 1<<16)
	sample := []metrics.Sample{{Name: "/gc/heap/allocs:bytes"}}
	hdr := make([]byte, 2+4+8+4)
	for {
		if _, err := io.ReadFull(in, hdr); err != nil {
			os.Exit(0)
		}
		req := Req{Entry: binary.LittleEndian.Uint16(hdr), Opts: binary.LittleEndian.Uint32(hdr[2:]), Aux: binary.LittleEndian.Uint64(hdr[6:])}
		n := binary.LittleEndian.Uint32(hdr[14:])
		req.Input = make([]byte, n)
		if _, err := io.ReadFull(in, req.Input); err != nil {
			os.Exit(0)
		}
		metrics.Read(sample)
		before := sample[0].Value.Uint64()
		t0 := time.Now()
		resp := call(h, req)
		resp.Elapsed = time.Since(t0)
		metrics.Read(sample)
		if resp.Alloc == 0 { // handlers that make several API calls meter each one and report the largest
			resp.Alloc = sample[0].Value.Uint64() - before
		}
		if len(resp.Text) > 3000 {
			resp.Text = resp.Text[:3000]
		}
		var b [1 + 8 + 8 + 4 + 4 + 4]byte
		b[0] = resp.Status
		binary.LittleEndian.PutUint64(b[1:], resp.Alloc)
		binary.LittleEndian.PutUint64(b[9:], uint64(resp.Elapsed))
		binary.LittleEndian.PutUint32(b[17:], resp.Progress)
		binary.LittleEndian.PutUint32(b[21:], resp.Flags)
		binary.LittleEndian.PutUint32(b[25:], uint32(len(resp.Text)))
		out.Write(b[:])
		out.WriteString(resp.Text)
		out.Flush()
		if resp.Alloc > 256<<20 {
			debug.FreeOSMemory()
		}
	}
}

// Meter measures the bytes allocated by single API calls and keeps the maximum.
type Meter struct{ Max uint64 }

func (m *Meter) Do(f func()) {
	s := []metrics.Sample{{Name: "/gc/heap/allocs:bytes"}}
	metrics.Read(s)
	before := s[0].Value.Uint64()
	defer func() {
		metrics.Read(s)
		d := s[0].Value.Uint64() - before
		if d > m.Max {
			m.Max = d
		}
		if d > 256<<20 {
			// a legitimate near-2 GiB buffer must not stay alive into the next call: several of them
			// would exhaust the address-space cap, which is meant for single absurd requests
			debug.FreeOSMemory()
		}
	}()
	f()
}

func call(h Handler, req Req) (resp Resp) {
	defer func() {
		if x := recover(); x != nil {
			resp.Status = 1
			resp.Text = fmt.Sprintf("%v\n%s", x, trimStack(debug.Stack()))
		}
	}()
	return h(req)
}

// trimStack keeps the frames below the panic machinery, without goroutine ids and addresses.
func trimStack(b []byte) string {
	lines := strings.Split(string(b), "\n")
	var keep []string
	for i := 0; i < len(lines); i++ {
		l := lines[i]
		if strings.HasPrefix(l, "goroutine ") || strings.Contains(l, "runtime/debug.Stack") || strings.Contains(l, "runtime/panic.go") || strings.HasPrefix(l, "panic(") || strings.Contains(l, "isolate.call") {
			continue
		}
		if strings.HasPrefix(l, "\t") {
			continue
		}
		if j := strings.LastIndex(l, "("); j > 0 {
			l = l[:j]
		}
		keep = append(keep, l)
		if len(keep) >= 8 {
			break
		}
	}
	return strings.Join(keep, " < ")
}

// Worker is the parent's handle on a child process.
type Worker struct {
	mu     sync.Mutex
	cmd    *exec.Cmd
	in     io.WriteCloser
	out    *bufio.Reader
	stderr *tailBuffer
	Env    []string
	// counters
	Restarts int
}

// tailBuffer keeps the beginning of what was written (a fatal error announces itself first) and the end.
type tailBuffer struct {
	mu   sync.Mutex
	head []byte
	b    []byte
}

func (t *tailBuffer) Write(p []byte) (int, error) {
	t.mu.Lock()
	if len(t.head) < 2048 {
		n := 2048 - len(t.head)
		if n > len(p) {
			n = len(p)
		}
		t.head = append(t.head, p[:n]...)
	}
	t.b = append(t.b, p...)
	if len(t.b) > 4096 {
		t.b = t.b[len(t.b)-4096:]
	}
	t.mu.Unlock()
	return len(p), nil
}
func (t *tailBuffer) String() string {
	t.mu.Lock()
	defer t.mu.Unlock()
	return string(t.head) + "\n" + string(t.b)
}

func (w *Worker) start() error {
	cmd := exec.Command(os.Args[0], "-test.run=^$")
	cmd.Env = append(os.Environ(), "VERIF_WORKER=1", "GOMAXPROCS=2", "GOTRACEBACK=single", "GOMEMLIMIT=off", "GOGC=100")
	cmd.Env = append(cmd.Env, w.Env...)
	in, err := cmd.StdinPipe()
	if err != nil {
		return err
	}
	out, err := cmd.StdoutPipe()
	if err != nil {
		return err
	}
	w.stderr = &tailBuffer{}
	cmd.Stderr = w.stderr
	if err := cmd.Start(); err != nil {
		return err
	}
	w.cmd, w.in, w.out = cmd, in, bufio.NewReaderSize(out, 1<<16)
	return nil
}

func (w *Worker) kill() {
	if w.cmd != nil {
		_ = w.cmd.Process.Kill()
		_ = w.cmd.Wait()
		w.cmd = nil
	}
}

func (w *Worker) Close() {
	w.mu.Lock()
	defer w.mu.Unlock()
	if w.cmd != nil {
		w.in.Close()
		done := make(chan struct{})
		go func() { _ = w.cmd.Wait(); close(done) }()
		select {
		case <-done:
		case <-time.After(2 * time.Second):
			_ = w.cmd.Process.Kill()
		}
		w.cmd = nil
	}
}

type rawResult struct {
	resp Resp
	err  error
}

func (w *Worker) once(req Req, deadline time.Duration) (Resp, error, bool) {
	if w.cmd == nil {
		if err := w.start(); err != nil {
			return Resp{}, fmt.Errorf("cannot start worker: %w", err), false
		}
	}
	var hdr [18]byte
	binary.LittleEndian.PutUint16(hdr[:], req.Entry)
	binary.LittleEndian.PutUint32(hdr[2:], req.Opts)
	binary.LittleEndian.PutUint64(hdr[6:], req.Aux)
	binary.LittleEndian.PutUint32(hdr[14:], uint32(len(req.Input)))
	ch := make(chan rawResult, 1)
	out := w.out
	in := w.in
	go func() {
		if _, err := in.Write(append(hdr[:], req.Input...)); err != nil {
			ch <- rawResult{err: err}
			return
		}
		var b [29]byte
		if _, err := io.ReadFull(out, b[:]); err != nil {
			ch <- rawResult{err: err}
			return
		}
		r := Resp{Status: b[0], Alloc: binary.LittleEndian.Uint64(b[1:]), Elapsed: time.Duration(binary.LittleEndian.Uint64(b[9:])),
			Progress: binary.LittleEndian.Uint32(b[17:]), Flags: binary.LittleEndian.Uint32(b[21:])}
		txt := make([]byte, binary.LittleEndian.Uint32(b[25:]))
		if _, err := io.ReadFull(out, txt); err != nil {
			ch <- rawResult{err: err}
			return
		}
		r.Text = string(txt)
		ch <- rawResult{resp: r}
	}()
	select {
	case r := <-ch:
		return r.resp, r.err, false
	case <-time.After(deadline):
		return Resp{}, nil, true
	}
}

// Call runs one request. A first deadline miss is inconclusive: the input is re-run alone in a
// fresh worker with a long deadline, and only a second miss is reported as a hang.
func (w *Worker) Call(req Req, deadline, retryDeadline time.Duration) Outcome {
	w.mu.Lock()
	defer w.mu.Unlock()
	resp, err, timedOut := w.once(req, deadline)
	if timedOut {
		w.kill()
		w.Restarts++
		resp, err, timedOut = w.once(req, retryDeadline)
		if timedOut {
			w.kill()
			w.Restarts++
			return Outcome{Hang: true}
		}
	}
	if err != nil {
		info := ""
		if w.cmd != nil {
			werr := w.cmd.Wait()
			info = fmt.Sprintf("%v; stderr: %s", werr, tailLines(w.stderr.String(), 12))
			w.cmd = nil
		}
		w.Restarts++
		return Outcome{Died: true, ExitInfo: info}
	}
	return Outcome{Resp: resp}
}

func tailLines(s string, n int) string {
	lines := strings.Split(strings.TrimSpace(s), "\n")
	// the interesting part of a fatal error is its first lines
	var keep []string
	for _, l := range lines {
		if strings.HasPrefix(l, "fatal error:") || strings.HasPrefix(l, "runtime:") || strings.HasPrefix(l, "panic:") || len(keep) > 0 {
			keep = append(keep, l)
		}
		if len(keep) >= n {
			break
		}
	}
	if len(keep) == 0 && len(lines) > 0 {
		if len(lines) > n {
			lines = lines[len(lines)-n:]
		}
		keep = lines
	}
	return strings.Join(keep, " | ")
}

// RedirectFuzzWorkerStderr: Go's fuzz coordinator discards the stderr of its worker processes, which
// hides the message of a fatal error (out of memory, stack overflow). When this process is such a
// worker and VERIF_FUZZ_STDERR names a directory, fd 2 is pointed at a file there.
func RedirectFuzzWorkerStderr() {
	dir := os.Getenv("VERIF_FUZZ_STDERR")
	if dir == "" {
		return
	}
	isWorker := false
	for _, a := range os.Args {
		if strings.HasPrefix(a, "-test.fuzzworker") {
			isWorker = true
		}
	}
	if !isWorker {
		return
	}
	f, err := os.OpenFile(fmt.Sprintf("%s/fuzzworker-%d.stderr", dir, os.Getpid()), os.O_CREATE|os.O_WRONLY|os.O_APPEND, 0o644)
	if err != nil {
		return
	}
	_ = syscall.Dup2(int(f.Fd()), 2)
}

// IsWorker reports whether this process was started as a worker.
func IsWorker() bool { return os.Getenv("VERIF_WORKER") == "1" }

var _ = bytes.MinRead
var _ = runtime.GOOS
