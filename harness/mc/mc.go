// Package mc is the glue between workloads (package wl) and the code under test (go/mcap).
package mc

import (
	"bufio"
	"bytes"
	"errors"
	"fmt"
	"io"
	"os"
	"sort"
	"sync"
	"sync/atomic"
	"testing/iotest"

	"github.com/foxglove/mcap/go/mcap"
	"github.com/klauspost/compress/zstd"
	"github.com/pierrec/lz4/v4"
	"verifharness/wl"
)

// ---- custom compressor: byte-wise XOR, streaming, no framing.

type xorWriter struct{ w io.Writer }

func (x *xorWriter) Write(p []byte) (int, error) {
	q := make([]byte, len(p))
	for i, b := range p {
		q[i] = b ^ 0x5A
	}
	return x.w.Write(q)
}
func (x *xorWriter) Close() error      { return nil }
func (x *xorWriter) Reset(w io.Writer) { x.w = w }

// xorHdrWriter is xorWriter with a stream header: Reset writes 0xA5 and a serial number to the new destination
// at once. xorHdrReader expects and strips it.
type xorHdrWriter struct {
	w io.Writer
	n byte
}

func (x *xorHdrWriter) Write(p []byte) (int, error) {
	q := make([]byte, len(p))
	for i, b := range p {
		q[i] = b ^ 0x5A ^ x.n // the stream is keyed by its header
	}
	return x.w.Write(q)
}
func (x *xorHdrWriter) Close() error { return nil }
func (x *xorHdrWriter) Reset(w io.Writer) {
	x.w = w
	x.n++
	_, _ = w.Write([]byte{0xA5, x.n})
}

type xorHdrReader struct {
	r    io.Reader
	read bool
	key  byte
}

func (x *xorHdrReader) Read(p []byte) (int, error) {
	if !x.read {
		var h [2]byte
		if _, err := io.ReadFull(x.r, h[:]); err != nil {
			return 0, err
		}
		if h[0] != 0xA5 {
			return 0, fmt.Errorf("vxorh: stream does not start with its header (%02x %02x)", h[0], h[1])
		}
		x.read, x.key = true, h[1]
	}
	n, err := x.r.Read(p)
	for i := 0; i < n; i++ {
		p[i] ^= 0x5A ^ x.key
	}
	return n, err
}
func (x *xorHdrReader) Reset(r io.Reader) error { x.r, x.read = r, false; return nil }

func XorHdrBytes(in []byte, _ uint64) ([]byte, error) {
	if len(in) < 2 || in[0] != 0xA5 {
		return nil, fmt.Errorf("vxorh: stream does not start with its header")
	}
	out := make([]byte, len(in)-2)
	for i, b := range in[2:] {
		out[i] = b ^ 0x5A ^ in[1]
	}
	return out, nil
}

type freshXorHdr struct{}

func (freshXorHdr) Compressor() mcap.ResettableWriteCloser { return &xorHdrWriter{} }
func (freshXorHdr) Compression() mcap.CompressionFormat    { return mcap.CompressionFormat(wl.CustomCompressionHdr) }

type ownZstd struct{ d *zstd.Decoder }

func (o ownZstd) Read(p []byte) (int, error) { return o.d.Read(p) }
func (o ownZstd) Reset(r io.Reader) error    { return o.d.Reset(r) }

type ownLZ4 struct{ r *lz4.Reader }

func (o ownLZ4) Read(p []byte) (int, error) { return o.r.Read(p) }
func (o ownLZ4) Reset(r io.Reader) error    { o.r.Reset(r); return nil }

// freshXor is a CustomCompressor written as a factory: every Compressor() call returns a new instance.
type freshXor struct{}

func (freshXor) Compressor() mcap.ResettableWriteCloser { return &xorWriter{} }
func (freshXor) Compression() mcap.CompressionFormat    { return mcap.CompressionFormat(wl.CustomCompression) }

type xorReader struct{ r io.Reader }

func (x *xorReader) Read(p []byte) (int, error) {
	n, err := x.r.Read(p)
	for i := 0; i < n; i++ {
		p[i] ^= 0x5A
	}
	return n, err
}
func (x *xorReader) Reset(r io.Reader) error { x.r = r; return nil }

func XorBytes(in []byte, _ uint64) ([]byte, error) {
	out := make([]byte, len(in))
	for i, b := range in {
		out[i] = b ^ 0x5A
	}
	return out, nil
}

// Options builds fresh WriterOptions (NewWriter mutates the struct it is given).
func Options(k wl.Config) *mcap.WriterOptions {
	o := &mcap.WriterOptions{
		IncludeCRC: k.IncludeCRC, Chunked: k.Chunked, ChunkSize: k.ChunkSize,
		CompressionLevel:         mcap.CompressionLevel(k.Level),
		SkipMessageIndexing:      k.SkipMessageIndexing,
		SkipStatistics:           k.SkipStatistics,
		SkipRepeatedSchemas:      k.SkipRepeatedSchemas,
		SkipRepeatedChannelInfos: k.SkipRepeatedChannelInfos,
		SkipAttachmentIndex:      k.SkipAttachmentIndex,
		SkipMetadataIndex:        k.SkipMetadataIndex,
		SkipChunkIndex:           k.SkipChunkIndex,
		SkipSummaryOffsets:       k.SkipSummaryOffsets,
		OverrideLibrary:          k.OverrideLibrary,
		SkipMagic:                k.SkipMagic,
	}
	switch k.Compression {
	case "custom":
		o.Compressor = mcap.NewCustomCompressor(mcap.CompressionFormat(wl.CustomCompression), &xorWriter{})
		if k.FreshCompressor {
			o.Compressor = freshXor{}
		}
		if k.HeaderCompressor {
			o.Compressor = mcap.NewCustomCompressor(mcap.CompressionFormat(wl.CustomCompressionHdr), &xorHdrWriter{})
			if k.FreshCompressor {
				o.Compressor = freshXorHdr{}
			}
		}
	case "lz4-nochecksum":
		// what writers in other languages emit: an lz4 frame without the optional content checksum,
		// so that the MCAP chunk CRC is the only integrity check
		zw := lz4.NewWriter(io.Discard)
		_ = zw.Apply(lz4.ChecksumOption(false))
		o.Compressor = mcap.NewCustomCompressor(mcap.CompressionLZ4, zw)
	case "zstd-nochecksum":
		zw, _ := zstd.NewWriter(io.Discard, zstd.WithEncoderCRC(false))
		o.Compressor = mcap.NewCustomCompressor(mcap.CompressionZSTD, zw)
	default:
		o.Compression = mcap.CompressionFormat(k.Compression)
	}
	return o
}

func Decompressors() map[mcap.CompressionFormat]mcap.ResettableReader {
	return map[mcap.CompressionFormat]mcap.ResettableReader{mcap.CompressionFormat(wl.CustomCompression): &xorReader{}, mcap.CompressionFormat(wl.CustomCompressionHdr): &xorHdrReader{}}
}

func kvMap(in []wl.KV) map[string]string {
	m := make(map[string]string, len(in))
	for _, kv := range in {
		m[kv.K] = kv.V
	}
	return m
}

// Call is one writer API call of a workload.
type Call struct {
	Name string
	Op   int // index into Workload.Ops, -1 for header/close
	Do   func(w *mcap.Writer) error
}

// MapOrder, when non-nil, permutes the insertion order of every map built for the writer.
type MapOrder func(in []wl.KV) []wl.KV

func Calls(w *wl.Workload, mo MapOrder, attSrc func(a *wl.Attachment) io.Reader) []Call {
	return CallsReuse(w, mo, attSrc, false)
}

// scribble overwrites everything the caller handed to a writer call, once the call has returned.
func scribbleBytes(b []byte) {
	for i := range b {
		b[i] = 0xEE
	}
}

func refillMap(m map[string]string, kvs []wl.KV) {
	for k := range m {
		delete(m, k)
	}
	for _, kv := range kvs {
		m[kv.K] = kv.V
	}
}

// CallsReuse is Calls; with reuse set the caller keeps one struct, one payload buffer and one map per record
// kind, refills them for every call and overwrites them right after the call returns (see wl.Config.CallerReuses).
func CallsReuse(w *wl.Workload, mo MapOrder, attSrc func(a *wl.Attachment) io.Reader, reuse bool) []Call {
	if mo == nil {
		mo = func(in []wl.KV) []wl.KV { return in }
	}
	if attSrc == nil {
		attSrc = func(a *wl.Attachment) io.Reader {
			if len(a.Data) == 0 && a.CreateTime%2 == 1 {
				return nil // "no data" said the obvious way: DataSize 0 and no reader at all
			}
			switch (len(a.Data) + int(a.LogTime%5)) % 4 {
			case 1:
				return plainReader{bytes.NewReader(a.Data)} // nothing but Read: no Len, no WriteTo, no Seek
			case 2:
				// the final bytes arrive together with io.EOF, as the io.Reader contract allows (HTTP bodies,
				// some decompressors do)
				return iotest.DataErrReader(plainReader{bytes.NewReader(a.Data)})
			}
			return bytes.NewReader(a.Data)
		}
	}
	var (
		rHeader  mcap.Header
		rSchema  mcap.Schema
		rChannel = mcap.Channel{Metadata: map[string]string{}}
		rMessage mcap.Message
		rAtt     mcap.Attachment
		rMeta    = mcap.Metadata{Metadata: map[string]string{}}
		junk     = []wl.KV{{K: "overwritten-by-caller", V: "after the call returned"}}
	)
	calls := []Call{{"WriteHeader", -1, func(mw *mcap.Writer) error {
		if reuse {
			rHeader = mcap.Header{Profile: w.Profile, Library: w.Library}
			err := mw.WriteHeader(&rHeader)
			rHeader = mcap.Header{Profile: "overwritten", Library: "overwritten"}
			return err
		}
		return mw.WriteHeader(&mcap.Header{Profile: w.Profile, Library: w.Library})
	}}}
	// a channel id the workload never registers: a message on it is refused by the writer
	unusedChannel := uint16(65533)
	for again := true; again; {
		again = false
		for _, o := range w.Ops {
			if o.C != nil && o.C.ID == unusedChannel {
				unusedChannel--
				again = true
			}
		}
	}
	for i := range w.Ops {
		o := w.Ops[i]
		switch {
		case o.S != nil:
			calls = append(calls, Call{"WriteSchema", i, func(mw *mcap.Writer) error {
				if i%5 == 2 {
					// registered for the summary first, written right after: AddSchema is documented for exactly that
					mw.AddSchema(&mcap.Schema{ID: o.S.ID, Name: o.S.Name, Encoding: o.S.Encoding, Data: append([]byte{}, o.S.Data...)})
				}
				if reuse {
					rSchema.ID, rSchema.Name, rSchema.Encoding = o.S.ID, o.S.Name, o.S.Encoding
					rSchema.Data = append(rSchema.Data[:0], o.S.Data...)
					err := mw.WriteSchema(&rSchema)
					scribbleBytes(rSchema.Data)
					rSchema.ID, rSchema.Name, rSchema.Encoding = 0xEEEE, "overwritten", "overwritten"
					return err
				}
				return mw.WriteSchema(&mcap.Schema{ID: o.S.ID, Name: o.S.Name, Encoding: o.S.Encoding, Data: append([]byte{}, o.S.Data...)})
			}})
		case o.C != nil:
			calls = append(calls, Call{"WriteChannel", i, func(mw *mcap.Writer) error {
				if i%5 == 3 {
					mw.AddChannel(&mcap.Channel{ID: o.C.ID, SchemaID: o.C.SchemaID, Topic: o.C.Topic, MessageEncoding: o.C.MessageEncoding, Metadata: kvMap(mo(o.C.Metadata))})
				}
				if reuse {
					rChannel.ID, rChannel.SchemaID, rChannel.Topic, rChannel.MessageEncoding = o.C.ID, o.C.SchemaID, o.C.Topic, o.C.MessageEncoding
					refillMap(rChannel.Metadata, mo(o.C.Metadata))
					err := mw.WriteChannel(&rChannel)
					rChannel.ID, rChannel.SchemaID, rChannel.Topic, rChannel.MessageEncoding = 0xEEEE, 0, "/overwritten", "overwritten"
					refillMap(rChannel.Metadata, junk)
					return err
				}
				return mw.WriteChannel(&mcap.Channel{ID: o.C.ID, SchemaID: o.C.SchemaID, Topic: o.C.Topic, MessageEncoding: o.C.MessageEncoding, Metadata: kvMap(mo(o.C.Metadata))})
			}})
		case o.M != nil:
			calls = append(calls, Call{"WriteMessage", i, func(mw *mcap.Writer) error {
				if reuse && i%3 == 1 {
					// a call the writer refuses (the channel was never registered): it returns an error, and the
					// caller carries on - nothing of the refused call may show in the file or in the statistics
					if err := mw.WriteMessage(&mcap.Message{ChannelID: unusedChannel, Sequence: 0xDEAD, LogTime: 0, PublishTime: 7, Data: []byte("refused")}); err == nil {
						return fmt.Errorf("harness: WriteMessage on channel %d, which was never registered, returned nil", unusedChannel)
					}
				}
				if reuse {
					rMessage.ChannelID, rMessage.Sequence, rMessage.LogTime, rMessage.PublishTime = o.M.ChannelID, o.M.Sequence, o.M.LogTime, o.M.PublishTime
					rMessage.Data = append(rMessage.Data[:0], o.M.Data...)
					err := mw.WriteMessage(&rMessage)
					scribbleBytes(rMessage.Data)
					rMessage.ChannelID, rMessage.Sequence, rMessage.LogTime, rMessage.PublishTime = 0xEEEE, 0xEEEEEEEE, 0xEEEEEEEEEEEEEEEE, 0xEEEEEEEEEEEEEEEE
					return err
				}
				return mw.WriteMessage(&mcap.Message{ChannelID: o.M.ChannelID, Sequence: o.M.Sequence, LogTime: o.M.LogTime, PublishTime: o.M.PublishTime, Data: append([]byte{}, o.M.Data...)})
			}})
		case o.A != nil:
			calls = append(calls, Call{"WriteAttachment", i, func(mw *mcap.Writer) error {
				if reuse {
					rAtt = mcap.Attachment{LogTime: o.A.LogTime, CreateTime: o.A.CreateTime, Name: o.A.Name, MediaType: o.A.MediaType, DataSize: uint64(len(o.A.Data)), Data: attSrc(o.A)}
					err := mw.WriteAttachment(&rAtt)
					rAtt = mcap.Attachment{Name: "overwritten", MediaType: "overwritten"}
					return err
				}
				return mw.WriteAttachment(&mcap.Attachment{LogTime: o.A.LogTime, CreateTime: o.A.CreateTime, Name: o.A.Name, MediaType: o.A.MediaType, DataSize: uint64(len(o.A.Data)), Data: attSrc(o.A)})
			}})
		case o.D != nil:
			calls = append(calls, Call{"WriteMetadata", i, func(mw *mcap.Writer) error {
				if reuse {
					rMeta.Name = o.D.Name
					refillMap(rMeta.Metadata, mo(o.D.Metadata))
					err := mw.WriteMetadata(&rMeta)
					rMeta.Name = "overwritten"
					refillMap(rMeta.Metadata, junk)
					return err
				}
				return mw.WriteMetadata(&mcap.Metadata{Name: o.D.Name, Metadata: kvMap(mo(o.D.Metadata))})
			}})
		}
	}
	calls = append(calls, Call{"Close", -1, func(mw *mcap.Writer) error { return mw.Close() }})
	return calls
}

// Write runs the whole workload against a fresh writer on sink. Any error is returned with the call name.
func Write(sink io.Writer, w *wl.Workload, k wl.Config) (*mcap.Writer, error) {
	wopts := Options(k)
	mw, err := mcap.NewWriter(sink, wopts)
	if k.CallerReuses {
		// the caller's options struct is the caller's again once NewWriter has returned
		*wopts = mcap.WriterOptions{ChunkSize: 1, Chunked: !k.Chunked, IncludeCRC: !k.IncludeCRC, SkipMagic: !k.SkipMagic, SkipStatistics: true, SkipChunkIndex: true, SkipRepeatedChannelInfos: true}
	}
	if err != nil {
		return nil, fmt.Errorf("NewWriter: %w", err)
	}
	for _, c := range CallsReuse(w, nil, nil, k.CallerReuses) {
		if err := c.Do(mw); err != nil {
			return mw, fmt.Errorf("%s (op %d): %w", c.Name, c.Op, err)
		}
	}
	if k.CloseTwice {
		_ = mw.Close() // whatever it returns, the closed file must stay what it was
	}
	return mw, nil
}

// plainWriter hides every method of its destination except Write.
type plainWriter struct{ w io.Writer }

func (p plainWriter) Write(b []byte) (int, error) { return p.w.Write(b) }

// WriteBytes writes the workload and returns the file. What the writer is given as its destination rotates
// (deterministically, from the case) over a *bytes.Buffer (which also offers ReadFrom, WriteString, Len, ...),
// a destination that offers nothing but Write, and a real *os.File: the bytes must not depend on it.
func WriteBytes(w *wl.Workload, k wl.Config) ([]byte, *mcap.Writer, error) {
	var buf bytes.Buffer
	switch (len(w.Ops)*7 + int(k.ChunkSize) + len(k.Compression)) % 8 {
	case 1, 2, 3:
		mw, err := Write(plainWriter{&buf}, w, k)
		return buf.Bytes(), mw, err
	case 4:
		f, err := os.CreateTemp(os.Getenv("VERIF_SCRATCH_DIR"), "sink-*.mcap")
		if err != nil {
			break
		}
		defer os.Remove(f.Name())
		defer f.Close()
		mw, werr := Write(f, w, k)
		b, rerr := os.ReadFile(f.Name())
		if rerr != nil {
			return nil, mw, rerr
		}
		return b, mw, werr
	}
	mw, err := Write(&buf, w, k)
	return buf.Bytes(), mw, err
}

// plainReader hides every method of its source except Read; seekOnly leaves Read and Seek.
type plainReader struct{ r io.Reader }

func (p plainReader) Read(b []byte) (int, error) { return p.r.Read(b) }

type seekOnly struct{ r io.ReadSeeker }

func (p seekOnly) Read(b []byte) (int, error)         { return p.r.Read(b) }
func (p seekOnly) Seek(o int64, w int) (int64, error) { return p.r.Seek(o, w) }

// varySource replaces the harness' default in-memory source (*bytes.Reader: Read, Seek, ReadAt, WriteTo, Len,
// ...) by sources with fewer or other methods, chosen deterministically from the content: what is read must
// not depend on which optional interfaces the source happens to implement.
func varySource(r io.Reader, needSeek bool) (io.Reader, func()) {
	br, ok := r.(*bytes.Reader)
	if !ok || br.Size() != int64(br.Len()) {
		return r, func() {}
	}
	switch k := br.Len() % 8; {
	case k == 1 || k == 2:
		return seekOnly{br}, func() {}
	case k == 3 && !needSeek:
		return plainReader{br}, func() {}
	case k == 4 && !needSeek:
		return bufio.NewReaderSize(br, 16), func() {}
	case k == 7 && !needSeek:
		// a *bytes.Buffer: no Seek, but Next(n), Len, WriteTo, ReadFrom ...
		b := make([]byte, br.Len())
		_, _ = br.ReadAt(b, 0)
		return bytes.NewBuffer(b), func() {}
	case k == 6 && !needSeek:
		// the read end of a pipe (what os.Stdin is under `cat file | tool`): an *os.File, so it has a Seek
		// method, but seeking fails
		pr, pw, err := os.Pipe()
		if err != nil {
			return r, func() {}
		}
		b := make([]byte, br.Len())
		_, _ = br.ReadAt(b, 0)
		go func() { _, _ = pw.Write(b); pw.Close() }()
		return pr, func() { pr.Close() }
	case k == 5:
		f, err := os.CreateTemp(os.Getenv("VERIF_SCRATCH_DIR"), "source-*.mcap")
		if err != nil {
			return r, func() {}
		}
		b := make([]byte, br.Len())
		_, _ = br.ReadAt(b, 0)
		if _, err := f.Write(b); err != nil {
			f.Close()
			os.Remove(f.Name())
			return r, func() {}
		}
		_, _ = f.Seek(0, io.SeekStart)
		return f, func() { f.Close(); os.Remove(f.Name()) }
	}
	return r, func() {}
}

// ---- reading

// Event is one item a sequential read surfaces.
type Event struct {
	Kind string // "header","schema","channel","message","attachment","metadata","dataend","footer","statistics",
	//             "chunkindex","attachmentindex","metadataindex","summaryoffset","messageindex","chunk","invalidchunk"
	H  *mcap.Header          `json:",omitempty"`
	S  *wl.Schema            `json:",omitempty"`
	C  *wl.Channel           `json:",omitempty"`
	M  *wl.Message           `json:",omitempty"`
	A  *AttEvent             `json:",omitempty"`
	D  *wl.Metadata          `json:",omitempty"`
	St *mcap.Statistics      `json:",omitempty"`
	CI *mcap.ChunkIndex      `json:",omitempty"`
	AI *mcap.AttachmentIndex `json:",omitempty"`
	MI *mcap.MetadataIndex   `json:",omitempty"`
	SO *mcap.SummaryOffset   `json:",omitempty"`
	F  *mcap.Footer          `json:",omitempty"`
	DE *mcap.DataEnd         `json:",omitempty"`
	X  *mcap.MessageIndex    `json:",omitempty"`
	Raw []byte               `json:",omitempty"`
}

type AttEvent struct {
	wl.Attachment
	DataSize    uint64
	ParsedCRC   uint32
	ComputedCRC uint32
	ParsedErr   string
	ComputedErr string
	ReadErr     string
}

func SortKV(m map[string]string) []wl.KV {
	out := make([]wl.KV, 0, len(m))
	for k, v := range m {
		out = append(out, wl.KV{K: k, V: v})
	}
	sort.Slice(out, func(i, j int) bool { return out[i].K < out[j].K })
	return out
}

func FromSchema(s *mcap.Schema) *wl.Schema {
	if s == nil {
		return nil
	}
	return &wl.Schema{ID: s.ID, Name: s.Name, Encoding: s.Encoding, Data: append([]byte{}, s.Data...)}
}
func FromChannel(c *mcap.Channel) *wl.Channel {
	if c == nil {
		return nil
	}
	return &wl.Channel{ID: c.ID, SchemaID: c.SchemaID, Topic: c.Topic, MessageEncoding: c.MessageEncoding, Metadata: SortKV(c.Metadata)}
}
func FromMessage(m *mcap.Message) *wl.Message {
	if m == nil {
		return nil
	}
	return &wl.Message{ChannelID: m.ChannelID, Sequence: m.Sequence, LogTime: m.LogTime, PublishTime: m.PublishTime, Data: append([]byte{}, m.Data...)}
}

type LexParams struct {
	SkipMagic, ValidateCRC, EmitChunks, EmitInvalidChunks, AttCRC bool
	NoAttCallback                                                 bool
	MaxRecordSize, MaxDecompressedChunkSize                       int
	Custom                                                        bool
	ContinueAfterInvalid                                          bool
	PropagateAttErr                                               bool
	MaxEvents                                                     int
	// BufMode: what is passed to Next as the caller's buffer. 0 nil (a fresh slice per token);
	// 1 one fixed 24-byte buffer every time; 2 the documented idiom: keep the largest slice returned
	// so far and hand it back. Tokens are parsed (deep-copied) before the next call in every mode.
	BufMode int
	// OwnCodecs: the lexer is given caller-supplied decompressors for "zstd" and "lz4" (LexerOptions.Decompressors)
	OwnCodecs bool
	// AttConsume: how the attachment callback treats the data: 0 reads all of it, then ComputedCRC, then ParsedCRC;
	// 1 reads nothing and returns; 2 reads half and returns; 3 reads all and asks for no CRC; 4 reads all and asks
	// ParsedCRC before ComputedCRC, each twice. The lexer has to step over whatever was left.
	AttConsume int
	// Baton, when set, makes this lexer take turns with another one (LexPair): every Next call waits for its turn.
	Baton   *Baton
	BatonID int
}

// Baton enforces strict alternation between two goroutines (ids 0 and 1) until one of them is done.
type Baton struct {
	mu   sync.Mutex
	cond *sync.Cond
	turn int
	done [2]bool
}

func NewBaton() *Baton { b := &Baton{}; b.cond = sync.NewCond(&b.mu); return b }
func (b *Baton) Acquire(id int) {
	b.mu.Lock()
	for b.turn != id && !b.done[1-id] {
		b.cond.Wait()
	}
	b.mu.Unlock()
}
func (b *Baton) Release(id int) { b.mu.Lock(); b.turn = 1 - id; b.cond.Broadcast(); b.mu.Unlock() }
func (b *Baton) Done(id int)    { b.mu.Lock(); b.done[id] = true; b.turn = 1 - id; b.cond.Broadcast(); b.mu.Unlock() }

// LexPair drains two lexers side by side, one Next call each in turn (as a tool that merges or compares two
// files does), and returns what each of them saw.
func LexPair(a, b []byte, pa, pb LexParams) (ra, rb LexResult) {
	bt := NewBaton()
	pa.Baton, pa.BatonID, pb.Baton, pb.BatonID = bt, 0, bt, 1
	var wg sync.WaitGroup
	wg.Add(2)
	go func() { defer wg.Done(); ra = LexAll(bytes.NewReader(a), pa, false) }()
	go func() { defer wg.Done(); rb = LexAll(bytes.NewReader(b), pb, false) }()
	wg.Wait()
	return ra, rb
}

// LexResult is the outcome of draining a lexer.
type LexResult struct {
	Events   []Event
	Err      error  // terminal error (io.EOF = clean end)
	OpenErr  error  // NewLexer failed
	Panic    string // non-empty if the code under test panicked
	RawToks  [][]byte
	RawTypes []mcap.TokenType
}

func (r *LexResult) Clean() bool { return r.Panic == "" && r.OpenErr == nil && errors.Is(r.Err, io.EOF) }

// LexAll drains a lexer over r, parsing every token into an Event (deep copies).
var lexAllCalls int64

// keepRaw additionally keeps the raw token slices exactly as returned, for aliasing checks.
func LexAll(r io.Reader, p LexParams, keepRaw bool) (res LexResult) {
	if p.Baton != nil {
		defer p.Baton.Done(p.BatonID)
	}
	defer func() {
		if x := recover(); x != nil {
			res.Panic = fmt.Sprint(x)
		}
	}()
	opts := &mcap.LexerOptions{SkipMagic: p.SkipMagic, ValidateChunkCRCs: p.ValidateCRC, EmitChunks: p.EmitChunks,
		EmitInvalidChunks: p.EmitInvalidChunks, ComputeAttachmentCRCs: p.AttCRC, MaxRecordSize: p.MaxRecordSize,
		MaxDecompressedChunkSize: p.MaxDecompressedChunkSize}
	if p.Custom {
		opts.Decompressors = Decompressors()
	}
	if p.OwnCodecs {
		// the caller brings its own decoders for the standard formats (a tuned zstd decoder, an lz4 reader)
		if opts.Decompressors == nil {
			opts.Decompressors = map[mcap.CompressionFormat]mcap.ResettableReader{}
		}
		if zd, err := zstd.NewReader(nil, zstd.WithDecoderConcurrency(1)); err == nil {
			opts.Decompressors[mcap.CompressionZSTD] = ownZstd{zd}
		}
		opts.Decompressors[mcap.CompressionLZ4] = ownLZ4{lz4.NewReader(nil)}
	}
	if !p.NoAttCallback {
		opts.AttachmentCallback = func(ar *mcap.AttachmentReader) error {
			ev := &AttEvent{Attachment: wl.Attachment{LogTime: ar.LogTime, CreateTime: ar.CreateTime, Name: ar.Name, MediaType: ar.MediaType}, DataSize: ar.DataSize}
			var data []byte
			var err error
			switch p.AttConsume {
			case 1:
				res.Events = append(res.Events, Event{Kind: "attachment", A: ev})
				return nil
			case 2:
				data = make([]byte, ar.DataSize/2)
				_, err = io.ReadFull(ar.Data(), data)
				ev.Data = data
				if err != nil {
					ev.ReadErr = err.Error()
				}
				res.Events = append(res.Events, Event{Kind: "attachment", A: ev})
				return nil
			}
			data, err = io.ReadAll(ar.Data())
			ev.Data = data
			if p.AttConsume == 3 {
				if err != nil {
					ev.ReadErr = err.Error()
				}
				res.Events = append(res.Events, Event{Kind: "attachment", A: ev})
				return nil
			}
			if p.AttConsume == 4 {
				for i := 0; i < 2; i++ {
					if c, err := ar.ParsedCRC(); err != nil {
						ev.ParsedErr = err.Error()
					} else {
						ev.ParsedCRC = c
					}
				}
			}
			if err != nil {
				if p.PropagateAttErr {
					return err // behave like a consumer that reports its read failure
				}
				ev.ReadErr = err.Error()
			}
			if c, err := ar.ComputedCRC(); err != nil {
				ev.ComputedErr = err.Error()
			} else {
				ev.ComputedCRC = c
			}
			if c, err := ar.ParsedCRC(); err != nil {
				if p.PropagateAttErr {
					return err
				}
				ev.ParsedErr = err.Error()
			} else {
				ev.ParsedCRC = c
			}
			res.Events = append(res.Events, Event{Kind: "attachment", A: ev})
			return nil
		}
	}
	r, done := varySource(r, false)
	defer done()
	lx, err := mcap.NewLexer(r, opts)
	// the options struct is the caller's: it may be refilled for the next lexer as soon as NewLexer has returned
	*opts = mcap.LexerOptions{MaxRecordSize: 1, MaxDecompressedChunkSize: 1, EmitChunks: !p.EmitChunks}
	if err != nil {
		res.OpenErr = err
		return res
	}
	defer lx.Close()
	if atomic.AddInt64(&lexAllCalls, 1)%2 == 0 {
		defer lx.Close() // Close is called twice by the common 'defer Close()' + explicit Close() pair
	}
	var smallBuf [24]byte
	var growBuf []byte
	for {
		if p.MaxEvents > 0 && len(res.Events) > p.MaxEvents {
			res.Err = fmt.Errorf("harness: more than %d events", p.MaxEvents)
			return res
		}
		var callerBuf []byte
		if !keepRaw {
			switch p.BufMode {
			case 1:
				callerBuf = smallBuf[:]
			case 2:
				callerBuf = growBuf
			}
		}
		if p.Baton != nil {
			p.Baton.Acquire(p.BatonID)
		}
		tt, rec, err := lx.Next(callerBuf)
		if p.Baton != nil {
			p.Baton.Release(p.BatonID)
		}
		if p.BufMode == 2 && cap(rec) > cap(growBuf) {
			growBuf = rec[:0]
		}
		if err != nil {
			if tt == mcap.TokenInvalidChunk {
				res.Events = append(res.Events, Event{Kind: "invalidchunk"})
				if p.ContinueAfterInvalid {
					continue
				}
			}
			res.Err = err
			return res
		}
		if keepRaw {
			res.RawToks = append(res.RawToks, rec)
			res.RawTypes = append(res.RawTypes, tt)
		}
		ev, perr := ParseToken(tt, rec)
		if perr != nil {
			res.Err = fmt.Errorf("parse %v: %w", tt, perr)
			return res
		}
		res.Events = append(res.Events, ev)
	}
}

func ParseToken(tt mcap.TokenType, rec []byte) (Event, error) {
	switch tt {
	case mcap.TokenHeader:
		h, err := mcap.ParseHeader(rec)
		return Event{Kind: "header", H: h}, err
	case mcap.TokenSchema:
		s, err := mcap.ParseSchema(rec)
		return Event{Kind: "schema", S: FromSchema(s)}, err
	case mcap.TokenChannel:
		c, err := mcap.ParseChannel(rec)
		return Event{Kind: "channel", C: FromChannel(c)}, err
	case mcap.TokenMessage:
		m, err := mcap.ParseMessage(rec)
		return Event{Kind: "message", M: FromMessage(m)}, err
	case mcap.TokenMetadata:
		d, err := mcap.ParseMetadata(rec)
		if err != nil {
			return Event{Kind: "metadata"}, err
		}
		return Event{Kind: "metadata", D: &wl.Metadata{Name: d.Name, Metadata: SortKV(d.Metadata)}}, nil
	case mcap.TokenDataEnd:
		d, err := mcap.ParseDataEnd(rec)
		return Event{Kind: "dataend", DE: d}, err
	case mcap.TokenFooter:
		f, err := mcap.ParseFooter(rec)
		return Event{Kind: "footer", F: f}, err
	case mcap.TokenStatistics:
		s, err := mcap.ParseStatistics(rec)
		return Event{Kind: "statistics", St: s}, err
	case mcap.TokenChunkIndex:
		s, err := mcap.ParseChunkIndex(rec)
		return Event{Kind: "chunkindex", CI: s}, err
	case mcap.TokenAttachmentIndex:
		s, err := mcap.ParseAttachmentIndex(rec)
		return Event{Kind: "attachmentindex", AI: s}, err
	case mcap.TokenMetadataIndex:
		s, err := mcap.ParseMetadataIndex(rec)
		return Event{Kind: "metadataindex", MI: s}, err
	case mcap.TokenSummaryOffset:
		s, err := mcap.ParseSummaryOffset(rec)
		return Event{Kind: "summaryoffset", SO: s}, err
	case mcap.TokenMessageIndex:
		s, err := mcap.ParseMessageIndex(rec)
		return Event{Kind: "messageindex", X: s}, err
	case mcap.TokenChunk:
		return Event{Kind: "chunk", Raw: append([]byte{}, rec...)}, nil
	}
	return Event{Kind: fmt.Sprintf("token-%d", int(tt))}, nil
}

// Triple is one item a message iterator yields.
type Triple struct {
	S *wl.Schema
	C *wl.Channel
	M *wl.Message
}

type IterResult struct {
	Items   []Triple
	Err     error // terminal error from Next (io.EOF = clean)
	OpenErr error // NewReader or Messages failed
	Panic   string
	Meta    []*wl.Metadata // metadata callback deliveries
	// originals as returned, for aliasing checks
	OrigS []*mcap.Schema
	OrigC []*mcap.Channel
	OrigM []*mcap.Message
}

func (r *IterResult) Clean() bool { return r.Panic == "" && r.OpenErr == nil && errors.Is(r.Err, io.EOF) }

// ReadMessagesTwice opens ONE reader and drains Messages(opts...) on it twice in a row.
func ReadMessagesTwice(r io.Reader, opts ...mcap.ReadOpt) (first, second IterResult) {
	defer func() {
		if x := recover(); x != nil {
			second.Panic = fmt.Sprint(x)
		}
	}()
	rd, err := mcap.NewReader(r)
	if err != nil {
		first.OpenErr, second.OpenErr = err, err
		return
	}
	defer rd.Close()
	drain := func(res *IterResult) {
		it, err := rd.Messages(opts...)
		if err != nil {
			res.OpenErr = err
			return
		}
		for {
			s, c, m, err := it.NextInto(nil)
			if err != nil {
				res.Err = err
				return
			}
			res.Items = append(res.Items, Triple{FromSchema(s), FromChannel(c), FromMessage(m)})
			if len(res.Items) > 1<<20 {
				res.Err = fmt.Errorf("harness: more than 2^20 items")
				return
			}
		}
	}
	drain(&first)
	drain(&second)
	return
}

// pendingTopicSlices holds the slices handed to WithTopics through Topics(): the reading helpers overwrite them
// as soon as Messages() has returned, as a caller does that refills one scratch slice per read.
var pendingTopicSlices [][]string
var pendingTopicMu sync.Mutex

// Topics is mcap.WithTopics for a caller that reuses its slice afterwards.
func Topics(topics []string) mcap.ReadOpt {
	if topics == nil {
		return mcap.WithTopics(nil)
	}
	scratch := append(make([]string, 0, len(topics)+1), topics...)
	pendingTopicMu.Lock()
	pendingTopicSlices = append(pendingTopicSlices, scratch)
	pendingTopicMu.Unlock()
	return mcap.WithTopics(scratch)
}

// ScribbleTopics is called by whoever called Messages(), right after it returned.
func ScribbleTopics() {
	pendingTopicMu.Lock()
	defer pendingTopicMu.Unlock()
	for _, sl := range pendingTopicSlices {
		for i := range sl {
			sl[i] = "/overwritten-by-caller"
		}
	}
	pendingTopicSlices = pendingTopicSlices[:0]
}

// ReadMessages opens a reader on rs and drains Messages(opts...).
func ReadMessages(r io.Reader, withMetaCB bool, keepOrig bool, maxItems int, opts ...mcap.ReadOpt) (res IterResult) {
	return ReadMessagesMode(r, 0, withMetaCB, keepOrig, maxItems, opts...)
}

// ReadMessagesMode is ReadMessages with a choice of how the iterator is driven: 0 NextInto(nil) (a new
// Message per item); 1 NextInto(msg) with one Message reused for the whole read, as the documentation
// recommends; 2 the deprecated Next(buf), handing back the previous item's Data as the buffer; 3 mcap.Range. Items are
// deep-copied before the next call in every mode.
func ReadMessagesMode(r io.Reader, mode int, withMetaCB bool, keepOrig bool, maxItems int, opts ...mcap.ReadOpt) (res IterResult) {
	defer func() {
		if x := recover(); x != nil {
			res.Panic = fmt.Sprint(x)
		}
	}()
	r, done := varySource(r, true)
	defer done()
	rd, err := mcap.NewReader(r)
	if err != nil {
		res.OpenErr = err
		return res
	}
	defer rd.Close()
	if withMetaCB {
		opts = append(opts, mcap.WithMetadataCallback(func(m *mcap.Metadata) error {
			res.Meta = append(res.Meta, &wl.Metadata{Name: m.Name, Metadata: SortKV(m.Metadata)})
			return nil
		}))
	}
	it, err := rd.Messages(opts...)
	ScribbleTopics()
	if err != nil {
		res.OpenErr = err
		return res
	}
	if mode == 3 {
		// the package's own loop helper: Range calls back per message and reports the end as nil
		err := mcap.Range(it, func(s *mcap.Schema, c *mcap.Channel, m *mcap.Message) error {
			res.Items = append(res.Items, Triple{FromSchema(s), FromChannel(c), FromMessage(m)})
			if maxItems > 0 && len(res.Items) > maxItems {
				return fmt.Errorf("harness: more than %d items", maxItems)
			}
			return nil
		})
		if err == nil {
			err = io.EOF
		}
		res.Err = err
		return res
	}
	var reused mcap.Message
	var prevData []byte
	for {
		if maxItems > 0 && len(res.Items) > maxItems {
			res.Err = fmt.Errorf("harness: more than %d items", maxItems)
			return res
		}
		var s *mcap.Schema
		var c *mcap.Channel
		var m *mcap.Message
		var err error
		switch mode {
		case 1:
			s, c, m, err = it.NextInto(&reused)
			if err == nil && m != &reused {
				res.Err = fmt.Errorf("harness: NextInto(msg) returned a different *Message than the one passed in")
				return res
			}
		case 2:
			s, c, m, err = it.Next(prevData)
			if err == nil {
				prevData = m.Data
			}
		default:
			s, c, m, err = it.NextInto(nil)
		}
		if err != nil {
			res.Err = err
			if errors.Is(err, io.EOF) {
				// a loop that polls again at the end (or a caller that checks twice) is told the same
				if _, _, m2, err2 := it.NextInto(nil); err2 == nil {
					res.Err = fmt.Errorf("harness: after io.EOF the iterator returned another message (seq %d)", m2.Sequence)
				} else if !errors.Is(err2, io.EOF) {
					res.Err = fmt.Errorf("harness: after io.EOF the iterator returned %w", err2)
				}
			}
			return res
		}
		res.Items = append(res.Items, Triple{FromSchema(s), FromChannel(c), FromMessage(m)})
		if keepOrig {
			res.OrigS = append(res.OrigS, s)
			res.OrigC = append(res.OrigC, c)
			res.OrigM = append(res.OrigM, m)
		}
	}
}

// ---- cheap event signatures for the fault-enumeration loops

type sigHash struct{ h uint64 }

func newSig() *sigHash { return &sigHash{14695981039346656037} }
func (s *sigHash) b(p []byte) {
	for _, c := range p {
		s.h ^= uint64(c)
		s.h *= 1099511628211
	}
	s.u(uint64(len(p)))
}
func (s *sigHash) str(p string) {
	for i := 0; i < len(p); i++ {
		s.h ^= uint64(p[i])
		s.h *= 1099511628211
	}
	s.u(uint64(len(p)))
}
func (s *sigHash) u(v uint64) {
	for i := 0; i < 8; i++ {
		s.h ^= v & 0xff
		s.h *= 1099511628211
		v >>= 8
	}
}
func (s *sigHash) kvs(in []wl.KV) {
	for _, kv := range in {
		s.str(kv.K)
		s.str(kv.V)
	}
	s.u(uint64(len(in)))
}

// AttFieldsSig hashes an attachment event's fields without data and CRC results.
func AttFieldsSig(a *AttEvent) uint64 {
	s := newSig()
	s.u(a.LogTime)
	s.u(a.CreateTime)
	s.str(a.Name)
	s.str(a.MediaType)
	s.u(a.DataSize)
	return s.h
}

// Sig is a content hash of an event: two events with different parsed content have different
// signatures (up to 64-bit collisions).
func Sig(e *Event) uint64 {
	s := newSig()
	s.str(e.Kind)
	switch {
	case e.H != nil:
		s.str(e.H.Profile)
		s.str(e.H.Library)
	case e.S != nil:
		s.u(uint64(e.S.ID))
		s.str(e.S.Name)
		s.str(e.S.Encoding)
		s.b(e.S.Data)
	case e.C != nil:
		s.u(uint64(e.C.ID))
		s.u(uint64(e.C.SchemaID))
		s.str(e.C.Topic)
		s.str(e.C.MessageEncoding)
		s.kvs(e.C.Metadata)
	case e.M != nil:
		s.u(uint64(e.M.ChannelID))
		s.u(uint64(e.M.Sequence))
		s.u(e.M.LogTime)
		s.u(e.M.PublishTime)
		s.b(e.M.Data)
	case e.A != nil:
		s.u(AttFieldsSig(e.A))
		s.b(e.A.Data)
		s.u(uint64(e.A.ParsedCRC))
		s.u(uint64(e.A.ComputedCRC))
		s.str(e.A.ParsedErr)
		s.str(e.A.ComputedErr)
		s.str(e.A.ReadErr)
	case e.D != nil:
		s.str(e.D.Name)
		s.kvs(e.D.Metadata)
	case e.St != nil:
		s.str(fmt.Sprintf("%+v", *e.St))
	case e.CI != nil:
		s.str(fmt.Sprintf("%+v", *e.CI))
	case e.AI != nil:
		s.str(fmt.Sprintf("%+v", *e.AI))
	case e.MI != nil:
		s.str(fmt.Sprintf("%+v", *e.MI))
	case e.SO != nil:
		s.str(fmt.Sprintf("%+v", *e.SO))
	case e.F != nil:
		s.str(fmt.Sprintf("%+v", *e.F))
	case e.DE != nil:
		s.str(fmt.Sprintf("%+v", *e.DE))
	case e.X != nil:
		s.u(uint64(e.X.ChannelID))
		for _, r := range e.X.Entries() {
			s.u(r.Timestamp)
			s.u(r.Offset)
		}
	case e.Raw != nil:
		s.b(e.Raw)
	}
	return s.h
}

func Sigs(evs []Event) []uint64 {
	out := make([]uint64, len(evs))
	for i := range evs {
		out[i] = Sig(&evs[i])
	}
	return out
}

func TripleSig(t *Triple) uint64 {
	s := newSig()
	if t.S != nil {
		s.u(uint64(t.S.ID))
		s.str(t.S.Name)
		s.str(t.S.Encoding)
		s.b(t.S.Data)
	}
	if t.C != nil {
		s.u(uint64(t.C.ID))
		s.u(uint64(t.C.SchemaID))
		s.str(t.C.Topic)
		s.str(t.C.MessageEncoding)
		s.kvs(t.C.Metadata)
	}
	s.u(uint64(t.M.ChannelID))
	s.u(uint64(t.M.Sequence))
	s.u(t.M.LogTime)
	s.u(t.M.PublishTime)
	s.b(t.M.Data)
	return s.h
}
