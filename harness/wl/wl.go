// Package wl defines the logical workload handed to a writer, the writer configuration, their
// generators, and the reference model (pure functions over a workload). It does not import go/mcap.
package wl

import (
	"encoding/json"
	"hash/fnv"
	"sort"
)

type KV struct{ K, V string }

type Schema struct {
	ID       uint16
	Name     string
	Encoding string
	Data     []byte
}

type Channel struct {
	ID              uint16
	SchemaID        uint16
	Topic           string
	MessageEncoding string
	Metadata        []KV // insertion order; keys unique
}

type Message struct {
	ChannelID   uint16
	Sequence    uint32
	LogTime     uint64
	PublishTime uint64
	Data        []byte
}

type Attachment struct {
	LogTime    uint64
	CreateTime uint64
	Name       string
	MediaType  string
	Data       []byte
}

type Metadata struct {
	Name     string
	Metadata []KV
}

// Op is one writer call; exactly one field is set.
type Op struct {
	S *Schema     `json:",omitempty"`
	C *Channel    `json:",omitempty"`
	M *Message    `json:",omitempty"`
	A *Attachment `json:",omitempty"`
	D *Metadata   `json:",omitempty"`
}

func (o Op) Kind() string {
	switch {
	case o.S != nil:
		return "schema"
	case o.C != nil:
		return "channel"
	case o.M != nil:
		return "message"
	case o.A != nil:
		return "attachment"
	case o.D != nil:
		return "metadata"
	}
	return "?"
}

type Workload struct {
	Profile string
	Library string
	Ops     []Op
}

// Config mirrors mcap.WriterOptions. Compression "custom" selects the harness' own compressor.
type Config struct {
	Chunked                  bool
	ChunkSize                int64
	Compression              string // "", "zstd", "lz4", "custom"
	Level                    int    // 0..3
	IncludeCRC               bool
	SkipMessageIndexing      bool
	SkipStatistics           bool
	SkipRepeatedSchemas      bool
	SkipRepeatedChannelInfos bool
	SkipAttachmentIndex      bool
	SkipMetadataIndex        bool
	SkipChunkIndex           bool
	SkipSummaryOffsets       bool
	OverrideLibrary          bool
	SkipMagic                bool
	// FreshCompressor (custom compression only): the caller's CustomCompressor hands out a new
	// compressor instance on every Compressor() call, as a factory-style implementation would.
	FreshCompressor bool `json:",omitempty"`
	// HeaderCompressor (custom compression only): the caller's compressor emits a per-stream header inside Reset,
	// before any data is written to it, as keyed or framed codecs do.
	HeaderCompressor bool `json:",omitempty"`
	// CallerReuses: not a writer option but a way of calling: the caller keeps ONE Header, Schema, Channel,
	// Message, Attachment and Metadata struct (and one payload buffer and map per kind), refills it for every
	// call and overwrites it as soon as the call has returned, as a recording loop that avoids allocation does.
	CallerReuses bool `json:",omitempty"`
	// CloseTwice: the caller calls Close a second time (the `defer w.Close()` + checked Close() idiom).
	CloseTwice bool `json:",omitempty"`
}

const CustomCompression = "vxor"

// CustomCompressionHdr names the variant of the harness compressor that starts every stream with a two-byte
// header, written the moment the compressor is pointed at its destination (Reset).
const CustomCompressionHdr = "vxorh"

// CompressionString is the string stored in chunk records for this configuration.
func (k Config) CompressionString() string {
	switch k.Compression {
	case "custom":
		if k.HeaderCompressor {
			return CustomCompressionHdr
		}
		return CustomCompression
	case "lz4-nochecksum":
		return "lz4"
	case "zstd-nochecksum":
		return "zstd"
	}
	return k.Compression
}

func (k Config) FlagWeight() int {
	n := 0
	for _, b := range []bool{k.SkipMessageIndexing, k.SkipStatistics, k.SkipRepeatedSchemas, k.SkipRepeatedChannelInfos,
		k.SkipAttachmentIndex, k.SkipMetadataIndex, k.SkipChunkIndex, k.SkipSummaryOffsets, k.OverrideLibrary, k.SkipMagic} {
		if b {
			n++
		}
	}
	return n
}

// IndexedCapable: the summary keeps what index-based reading needs (stratum A of C02).
func (k Config) IndexedCapable() bool {
	return k.Chunked && !k.SkipChunkIndex && !k.SkipRepeatedSchemas && !k.SkipRepeatedChannelInfos && !k.SkipMagic && k.Compression != "custom"
}

// ---- model

type MsgRef struct {
	Idx int // index among messages, in write order
	M   *Message
	C   *Channel
	S   *Schema // nil for schema id 0
}

func SortedKV(in []KV) []KV {
	out := append([]KV{}, in...)
	sort.Slice(out, func(i, j int) bool { return out[i].K < out[j].K })
	return out
}

func KVMap(in []KV) map[string]string {
	m := map[string]string{}
	for _, kv := range in {
		m[kv.K] = kv.V
	}
	return m
}

// Schemas returns the distinct schemas in first-write order.
func (w *Workload) Schemas() []*Schema {
	seen := map[uint16]bool{}
	var out []*Schema
	for _, o := range w.Ops {
		if o.S != nil && !seen[o.S.ID] {
			seen[o.S.ID] = true
			out = append(out, o.S)
		}
	}
	return out
}

func (w *Workload) Channels() []*Channel {
	seen := map[uint16]bool{}
	var out []*Channel
	for _, o := range w.Ops {
		if o.C != nil && !seen[o.C.ID] {
			seen[o.C.ID] = true
			out = append(out, o.C)
		}
	}
	return out
}

func (w *Workload) Messages() []MsgRef {
	sch := map[uint16]*Schema{}
	ch := map[uint16]*Channel{}
	var out []MsgRef
	for _, o := range w.Ops {
		switch {
		case o.S != nil:
			if sch[o.S.ID] == nil {
				sch[o.S.ID] = o.S
			}
		case o.C != nil:
			if ch[o.C.ID] == nil {
				ch[o.C.ID] = o.C
			}
		case o.M != nil:
			c := ch[o.M.ChannelID]
			var s *Schema
			if c != nil && c.SchemaID != 0 {
				s = sch[c.SchemaID]
			}
			out = append(out, MsgRef{Idx: len(out), M: o.M, C: c, S: s})
		}
	}
	return out
}

func (w *Workload) Attachments() []*Attachment {
	var out []*Attachment
	for _, o := range w.Ops {
		if o.A != nil {
			out = append(out, o.A)
		}
	}
	return out
}

func (w *Workload) Metadatas() []*Metadata {
	var out []*Metadata
	for _, o := range w.Ops {
		if o.D != nil {
			out = append(out, o.D)
		}
	}
	return out
}

// Select applies a topic set (empty = no restriction) and a window [start,end). endOpen means
// "no upper restriction at all" (even 2^64-1 is included).
func Select(ms []MsgRef, topics []string, start, end uint64, endOpen bool) []MsgRef {
	ts := map[string]bool{}
	for _, t := range topics {
		ts[t] = true
	}
	var out []MsgRef
	for _, m := range ms {
		if len(ts) > 0 && (m.C == nil || !ts[m.C.Topic]) {
			continue
		}
		if m.M.LogTime < start {
			continue
		}
		if !endOpen && m.M.LogTime >= end {
			continue
		}
		out = append(out, m)
	}
	return out
}

type Stats struct {
	MessageCount                   uint64
	SchemaCount                    int
	ChannelCount                   int
	AttachmentCount, MetadataCount int
	MinTime, MaxTime               uint64
	ChannelCounts                  map[uint16]uint64
}

func (w *Workload) Stats() Stats {
	s := Stats{ChannelCounts: map[uint16]uint64{}}
	s.SchemaCount = len(w.Schemas())
	s.ChannelCount = len(w.Channels())
	s.AttachmentCount = len(w.Attachments())
	s.MetadataCount = len(w.Metadatas())
	for i, m := range w.Messages() {
		s.MessageCount++
		s.ChannelCounts[m.M.ChannelID]++
		if i == 0 || m.M.LogTime < s.MinTime {
			s.MinTime = m.M.LogTime
		}
		if i == 0 || m.M.LogTime > s.MaxTime {
			s.MaxTime = m.M.LogTime
		}
	}
	return s
}

// Hash is the FNV-1a hash of the canonical JSON encoding of any case value.
func Hash(v any) uint64 {
	b, _ := json.Marshal(v)
	h := fnv.New64a()
	h.Write(b)
	return h.Sum64()
}

// Trunc returns a copy of the workload with long payloads cut, for evidence samples.
func (w Workload) Trunc(n int) Workload {
	out := Workload{Profile: cutS(w.Profile, n), Library: cutS(w.Library, n)}
	for _, o := range w.Ops {
		var p Op
		switch {
		case o.S != nil:
			c := *o.S
			c.Data = cutB(c.Data, n)
			c.Name = cutS(c.Name, n)
			p.S = &c
		case o.C != nil:
			c := *o.C
			c.Topic = cutS(c.Topic, n)
			c.Metadata = cutKV(c.Metadata, n)
			p.C = &c
		case o.M != nil:
			c := *o.M
			c.Data = cutB(c.Data, n)
			p.M = &c
		case o.A != nil:
			c := *o.A
			c.Data = cutB(c.Data, n)
			c.Name = cutS(c.Name, n)
			p.A = &c
		case o.D != nil:
			c := *o.D
			c.Name = cutS(c.Name, n)
			c.Metadata = cutKV(c.Metadata, n)
			p.D = &c
		}
		out.Ops = append(out.Ops, p)
		if len(out.Ops) >= 40 {
			break
		}
	}
	return out
}

func cutB(b []byte, n int) []byte {
	if len(b) > n {
		return b[:n]
	}
	return b
}
func cutS(s string, n int) string {
	if len(s) > n {
		return s[:n]
	}
	return s
}
func cutKV(in []KV, n int) []KV {
	out := make([]KV, len(in))
	for i, kv := range in {
		out[i] = KV{cutS(kv.K, n), cutS(kv.V, n)}
	}
	return out
}
