package wl

import (
	"fmt"
	"strings"

	"pgregory.net/rapid"
)

var schemaIDs = []uint16{1, 2, 3, 7, 255, 256, 65534, 65535}
var channelIDs = []uint16{0, 1, 2, 9, 255, 256, 65535}

var LongString = strings.Repeat("long-ストリング/", 3500) // ≈ 70 KiB, valid UTF-8

var stringPool = []string{"", "a", "x", "topic", "/töpic/日本", "😀/🙂", "ros1msg", "json", "k1", "k2", "key with space", "éè", "\x00nul", "/a/b/c"}
var topicPool = []string{"/a", "/b", "/töpic/日本", "", "/shared"}

// GenParams tunes the workload generator. The zero value gives the full C01 domain (quick sizes).
type GenParams struct {
	MaxMsgs      int   // default 60
	ChunkHint    int64 // payload size classes are relative to this (default 300)
	NoAttach     bool
	NoMeta       bool
	UniqueSeq    bool // sequence = message index (unique tag)
	NoMaxTime    bool // never generate log time 2^64-1
	NoLong       bool // no ≈70 KiB strings / 64-256 KiB payloads
	MaxPayload   int  // hard cap for payload sizes (0 = none)
	MinChannels  int
	MinMsgs      int
	TimeMode     int // 0 = drawn; 1 tiny, 2 ascending, 3 descending, 4 uniform, 5 extremes-heavy
	SmallIDs     bool
	PythonIDs    bool // ids 1,2,3,... in definition order and no re-writes (what Python's Writer assigns)
	ManyChannels int  // this many extra channels (ids 100, 101, ...) are defined up front; messages use them too
}

func Str(t *rapid.T, label string, allowLong bool) string {
	k := rapid.IntRange(0, 99).Draw(t, label+"-kind")
	switch {
	case k < 70:
		return rapid.SampledFrom(stringPool).Draw(t, label)
	case k < 97 || !allowLong:
		return rapid.StringN(0, 12, 40).Draw(t, label)
	default:
		return LongString
	}
}

func GenKVs(t *rapid.T, label string, allowLong bool, maxKeys int) []KV {
	if rapid.IntRange(0, 11).Draw(t, label+"-many?") == 0 {
		// a large map whose keys share long prefixes, in a generated insertion order (parameter sets, per-sensor
		// calibration tables): 16-48 keys in 1-3 families
		var out []KV
		fams := rapid.SliceOfNDistinct(rapid.SampledFrom([]string{"sensor/lidar/", "sensor/camera/", "calibration.", "p", ""}), 1, 3, func(s string) string { return s }).Draw(t, label+"-families")
		n := rapid.IntRange(16, 48).Draw(t, label+"-many-n")
		for i := 0; i < n; i++ {
			out = append(out, KV{fmt.Sprintf("%s%02d/offset", fams[i%len(fams)], i), rapid.SampledFrom([]string{"", "0.5", "x"}).Draw(t, label+"-many-v")})
		}
		perm := rapid.Permutation(out).Draw(t, label+"-many-order")
		return perm
	}
	n := rapid.IntRange(0, maxKeys).Draw(t, label+"-n")
	seen := map[string]bool{}
	var out []KV
	for i := 0; i < n; i++ {
		k := Str(t, label+"-k", false)
		for n := 0; seen[k]; n++ {
			k = k + "#" + string(rune('a'+(i+n)%26))
		}
		seen[k] = true
		out = append(out, KV{k, Str(t, label+"-v", allowLong && i == 0)})
	}
	return out
}

var extremes = []uint64{0, 1, 1 << 32, 1<<63 - 1, 1 << 63, 1<<64 - 2, 1<<64 - 1}

// Fill produces n deterministic bytes from a seed; even seeds are highly compressible.
func Fill(n int, seed uint64) []byte {
	b := make([]byte, n)
	if seed%2 == 0 {
		for i := range b {
			b[i] = byte(seed>>1) + byte(i%7)
		}
		return b
	}
	x := seed*0x9E3779B97F4A7C15 + 1
	for i := range b {
		x ^= x << 13
		x ^= x >> 7
		x ^= x << 17
		b[i] = byte(x)
	}
	return b
}

func genPayload(t *rapid.T, p GenParams) []byte {
	hint := int(p.ChunkHint)
	if hint <= 0 {
		hint = 300
	}
	if hint > 4096 {
		hint = 4096
	}
	if hint < 20 {
		hint = 20
	}
	k := rapid.IntRange(0, 99).Draw(t, "pl-kind")
	var n int
	switch {
	case k < 15:
		n = 0
	case k < 60:
		return rapid.SliceOfN(rapid.Byte(), 1, 16).Draw(t, "pl")
	case k < 80:
		n = rapid.IntRange(17, hint).Draw(t, "pl-n")
	case k < 90:
		n = hint + rapid.IntRange(-8, 8).Draw(t, "pl-d")
		if n < 0 {
			n = 0
		}
	case k < 99 || p.NoLong:
		n = rapid.IntRange(2*hint, 5*hint).Draw(t, "pl-n")
	default:
		n = rapid.IntRange(64<<10, 256<<10).Draw(t, "pl-big")
		// rarely a payload of several MiB: larger than any multiple of the small chunk sizes and than
		// typical internal buffer thresholds ("multi-chunk-sized payloads")
		if rapid.IntRange(0, 9).Draw(t, "pl-huge?") == 0 {
			n = rapid.IntRange(4<<20, 9<<20).Draw(t, "pl-huge")
		}
	}
	if p.MaxPayload > 0 && n > p.MaxPayload {
		n = p.MaxPayload
	}
	return Fill(n, rapid.Uint64().Draw(t, "pl-seed"))
}

type rawOp struct {
	Kind    int // 0 schema, 1 channel, 2 message, 3 attachment, 4 metadata
	Rewrite bool
	Which   int
	S       *Schema
	C       *Channel
	HasSch  bool
	M       *Message
	PubLog  bool
	TimeRaw uint64
	DT      uint64
	Ex      int // index into extremes, -1 none
	A       *Attachment
	D       *Metadata
}

var kindWeights = []int{0, 1, 1, 1, 2, 2, 2, 2, 2, 2, 2, 2, 2, 2, 2, 2, 2, 2, 3, 4}

func genRawOp(p GenParams) *rapid.Generator[rawOp] {
	return rapid.Custom(func(t *rapid.T) rawOp {
		r := rawOp{Kind: rapid.SampledFrom(kindWeights).Draw(t, "kind"), Ex: -1}
		if p.NoAttach && r.Kind == 3 {
			r.Kind = 2
		}
		if p.NoMeta && r.Kind == 4 {
			r.Kind = 2
		}
		switch r.Kind {
		case 0:
			r.Rewrite = rapid.IntRange(0, 9).Draw(t, "rewrite") == 0
			r.Which = rapid.IntRange(0, 7).Draw(t, "which")
			s := &Schema{Name: Str(t, "s-name", !p.NoLong), Encoding: Str(t, "s-enc", false), Data: []byte{}}
			if rapid.Bool().Draw(t, "s-hasdata") {
				s.Data = rapid.SliceOfN(rapid.Byte(), 0, 40).Draw(t, "s-data")
			}
			r.S = s
		case 1:
			r.Rewrite = rapid.IntRange(0, 9).Draw(t, "rewrite") == 0
			r.Which = rapid.IntRange(0, 7).Draw(t, "which")
			r.HasSch = rapid.IntRange(0, 4).Draw(t, "c-hasschema") != 0
			r.C = &Channel{Topic: rapid.SampledFrom(topicPool).Draw(t, "topic"), MessageEncoding: Str(t, "c-enc", false), Metadata: GenKVs(t, "c-md", false, 8)}
		case 2:
			r.Which = rapid.IntRange(0, 7).Draw(t, "m-ch")
			r.TimeRaw = rapid.Uint64().Draw(t, "t")
			r.DT = rapid.Uint64Range(0, 3).Draw(t, "dt")
			if rapid.IntRange(0, 39).Draw(t, "t-ex?") == 0 {
				r.Ex = rapid.IntRange(0, len(extremes)-1).Draw(t, "t-ex")
			}
			m := &Message{}
			if !p.UniqueSeq {
				m.Sequence = rapid.Uint32().Draw(t, "seq")
			}
			r.PubLog = rapid.Bool().Draw(t, "pub=log")
			if !r.PubLog {
				m.PublishTime = rapid.Uint64().Draw(t, "pub")
			}
			m.Data = genPayload(t, p)
			r.M = m
		case 3:
			a := &Attachment{LogTime: rapid.Uint64().Draw(t, "a-log"), CreateTime: rapid.SampledFrom(extremes).Draw(t, "a-create"),
				Name: Str(t, "a-name", false), MediaType: Str(t, "a-mt", false)}
			k := rapid.IntRange(0, 99).Draw(t, "a-kind")
			switch {
			case k < 20:
				a.Data = []byte{}
			case k < 98 || p.NoLong:
				a.Data = Fill(rapid.IntRange(1, 4096).Draw(t, "a-n"), rapid.Uint64().Draw(t, "a-seed"))
			default:
				a.Data = Fill(200<<10, rapid.Uint64().Draw(t, "a-seed"))
			}
			if p.MaxPayload > 0 && len(a.Data) > p.MaxPayload {
				a.Data = a.Data[:p.MaxPayload]
			}
			r.A = a
		case 4:
			r.D = &Metadata{Name: Str(t, "d-name", false), Metadata: GenKVs(t, "d-md", !p.NoLong, 8)}
		}
		return r
	})
}

// GenWorkload constructs a well-formed call sequence. Raw operations are drawn as one list (so the
// whole sequence shrinks as a value) and then resolved against what exists at that point, so ids are
// always consistent: a message drawn before any channel exists first creates a default channel.
func GenWorkload(t *rapid.T, p GenParams) Workload {
	maxMsgs := p.MaxMsgs
	if maxMsgs == 0 {
		maxMsgs = 60
	}
	w := Workload{Profile: Str(t, "profile", !p.NoLong), Library: Str(t, "library", false)}
	mode := p.TimeMode
	if mode == 0 {
		mode = rapid.IntRange(1, 5).Draw(t, "time-mode")
	}
	var cur uint64
	if mode == 3 {
		cur = rapid.Uint64Range(1000, 1<<40).Draw(t, "t0")
	} else if mode == 2 {
		cur = rapid.Uint64Range(0, 1000).Draw(t, "t0")
	}
	sids, cids := schemaIDs, channelIDs
	if p.PythonIDs {
		sids = []uint16{1, 2, 3, 4, 5, 6, 7, 8}
		cids = []uint16{1, 2, 3, 4, 5, 6, 7, 8}
	} else if !p.SmallIDs {
		sids = rapid.Permutation(schemaIDs).Draw(t, "schema-ids")
		cids = rapid.Permutation(channelIDs).Draw(t, "channel-ids")
	}
	lo := rapid.SampledFrom([]int{0, 2, 5, 10, 20, 30}).Draw(t, "min-ops")
	if lo > maxMsgs {
		lo = maxMsgs
	}
	if lo < p.MinMsgs {
		lo = p.MinMsgs
	}
	raws := rapid.SliceOfN(genRawOp(p), lo, maxMsgs+12).Draw(t, "ops")
	var schemas []*Schema
	var channels []*Channel
	nm := 0
	addChannel := func(c *Channel, hasSch bool, which int) {
		c.ID = cids[len(channels)]
		if hasSch && len(schemas) > 0 {
			c.SchemaID = schemas[which%len(schemas)].ID
		}
		channels = append(channels, c)
		w.Ops = append(w.Ops, Op{C: c})
	}
	for len(channels) < p.MinChannels {
		addChannel(&Channel{Topic: topicPool[len(channels)%len(topicPool)]}, false, 0)
	}
	var extra []*Channel
	for i := 0; i < p.ManyChannels; i++ {
		c := &Channel{ID: uint16(100 + i), Topic: "/many/" + string(rune('a'+i%26)) + string(rune('a'+i/26))}
		extra = append(extra, c)
		w.Ops = append(w.Ops, Op{C: c})
	}
	for _, r := range raws {
		switch r.Kind {
		case 0:
			if r.Rewrite && len(schemas) > 0 && !p.PythonIDs {
				s := *schemas[r.Which%len(schemas)]
				w.Ops = append(w.Ops, Op{S: &s})
				continue
			}
			if len(schemas) >= 5 {
				continue
			}
			r.S.ID = sids[len(schemas)]
			schemas = append(schemas, r.S)
			w.Ops = append(w.Ops, Op{S: r.S})
		case 1:
			if r.Rewrite && len(channels) > 0 && !p.PythonIDs {
				c := *channels[r.Which%len(channels)]
				w.Ops = append(w.Ops, Op{C: &c})
				continue
			}
			if len(channels) >= 6 {
				continue
			}
			addChannel(r.C, r.HasSch, r.Which)
		case 2:
			if nm >= maxMsgs {
				continue
			}
			if len(channels) == 0 {
				addChannel(&Channel{Topic: "/a"}, false, 0)
			}
			m := r.M
			m.ChannelID = channels[r.Which%len(channels)].ID
			if len(extra) > 0 && r.TimeRaw%3 != 0 {
				m.ChannelID = extra[int(r.TimeRaw>>16)%len(extra)].ID
			}
			var v uint64
			switch mode {
			case 1:
				v = r.TimeRaw % 6
			case 2:
				cur += r.DT
				v = cur
			case 3:
				d := r.DT
				if d > cur {
					d = cur
				}
				cur -= d
				v = cur
			case 4:
				v = r.TimeRaw
			default:
				if r.TimeRaw%4 == 0 {
					v = extremes[(r.TimeRaw>>8)%uint64(len(extremes))]
				} else {
					v = (r.TimeRaw >> 8) % 21
				}
			}
			if r.Ex >= 0 {
				v = extremes[r.Ex]
			}
			if p.NoMaxTime && v == 1<<64-1 {
				v = 1<<64 - 2
			}
			m.LogTime = v
			if r.PubLog {
				m.PublishTime = v
			}
			if p.UniqueSeq {
				m.Sequence = uint32(nm)
			}
			nm++
			w.Ops = append(w.Ops, Op{M: m})
		case 3:
			w.Ops = append(w.Ops, Op{A: r.A})
		case 4:
			w.Ops = append(w.Ops, Op{D: r.D})
		}
	}
	return w
}

// CfgParams conditions the configuration generator (construction, not filtering).
type CfgParams struct {
	Compressions []string // default: all incl. custom
	NoCustom     bool
	NoSkipMagic  bool
	ForceChunked bool
	ForceCRC     bool
	Indexed      bool // stratum A: chunked, chunk index, repeated schemas and channels kept
	SmallChunks  bool // chunk sizes from the small end only
	KeepStats    bool
}

var chunkSizes = []int64{1, 2, 10, 50, 100, 300, 1024, 4096, 1 << 20, 0}
var smallChunkSizes = []int64{1, 10, 50, 100, 300, 1024}

func GenConfig(t *rapid.T, p CfgParams) Config {
	var k Config
	k.Chunked = p.ForceChunked || p.Indexed || rapid.IntRange(0, 4).Draw(t, "chunked") != 0
	comps := p.Compressions
	if comps == nil {
		comps = []string{"", "zstd", "lz4", "custom"}
	}
	if p.NoCustom || p.Indexed {
		var c2 []string
		for _, c := range comps {
			if c != "custom" {
				c2 = append(c2, c)
			}
		}
		comps = c2
	}
	k.Compression = rapid.SampledFrom(comps).Draw(t, "compression")
	if k.Compression == "custom" {
		k.FreshCompressor = rapid.Bool().Draw(t, "fresh-compressor")
		k.HeaderCompressor = rapid.Bool().Draw(t, "header-compressor")
	}
	k.CallerReuses = rapid.IntRange(0, 2).Draw(t, "caller-reuses") == 0
	k.CloseTwice = rapid.IntRange(0, 3).Draw(t, "close-twice") == 0
	k.Level = rapid.SampledFrom([]int{0, 0, 0, 1, 1, 1, 2, 3}).Draw(t, "level")
	if p.SmallChunks {
		k.ChunkSize = rapid.SampledFrom(smallChunkSizes).Draw(t, "chunksize")
	} else {
		k.ChunkSize = rapid.SampledFrom(chunkSizes).Draw(t, "chunksize")
	}
	// zstd "better"/"best" encoders clear tens of MB of tables per chunk: keep tiny chunks with
	// them to a minority so the case rate stays useful (they are still generated).
	if k.Compression == "zstd" && k.Level >= 2 && k.ChunkSize > 0 && k.ChunkSize < 300 && rapid.IntRange(0, 5).Draw(t, "zstd-slow-small") != 0 {
		k.ChunkSize = 4096
	}
	k.IncludeCRC = p.ForceCRC || rapid.Bool().Draw(t, "crc")
	// flags: mostly few set, sometimes many
	dens := rapid.SampledFrom([]int{0, 1, 1, 2, 5}).Draw(t, "flag-density")
	fl := func(name string) bool { return rapid.IntRange(0, 9).Draw(t, name) < dens }
	k.SkipMessageIndexing = fl("SkipMessageIndexing")
	k.SkipStatistics = fl("SkipStatistics")
	k.SkipRepeatedSchemas = fl("SkipRepeatedSchemas")
	k.SkipRepeatedChannelInfos = fl("SkipRepeatedChannelInfos")
	k.SkipAttachmentIndex = fl("SkipAttachmentIndex")
	k.SkipMetadataIndex = fl("SkipMetadataIndex")
	k.SkipChunkIndex = fl("SkipChunkIndex")
	k.SkipSummaryOffsets = fl("SkipSummaryOffsets")
	k.OverrideLibrary = fl("OverrideLibrary")
	k.SkipMagic = fl("SkipMagic")
	if p.NoSkipMagic || p.Indexed {
		k.SkipMagic = false
	}
	if p.Indexed {
		k.SkipChunkIndex, k.SkipRepeatedSchemas, k.SkipRepeatedChannelInfos = false, false, false
	}
	if p.KeepStats {
		k.SkipStatistics = false
	}
	return k
}
