package props

import (
	"bytes"
	"fmt"
	"sort"
	"testing"

	"github.com/foxglove/mcap/go/mcap"
	"pgregory.net/rapid"
	"verifharness/faultio"
	"verifharness/pk"
	"verifharness/specdec"
	"verifharness/stats"
	"verifharness/wl"
)

func genC08(t *rapid.T) WKCase {
	k := wl.GenConfig(t, wl.CfgParams{KeepStats: true, SmallChunks: rapid.Bool().Draw(t, "small-chunks")})
	// bias towards log time 0, descending times, tiny domains
	mode := rapid.SampledFrom([]int{0, 1, 1, 3, 3, 5}).Draw(t, "c08-time-mode")
	return WKCase{W: wl.GenWorkload(t, wl.GenParams{ChunkHint: k.ChunkSize, TimeMode: mode, NoLong: true}), K: k}
}

type aggr struct {
	MessageCount                                 uint64
	SchemaCount, ChannelCount                    uint64
	AttachmentCount, MetadataCount, ChunkCount   uint64
	Start, End                                   uint64
	Counts                                       string
}

func countsString(m map[uint16]uint64) string {
	var ks []int
	for k, v := range m {
		if v != 0 {
			ks = append(ks, int(k))
		}
	}
	sort.Ints(ks)
	s := ""
	for _, k := range ks {
		s += fmt.Sprintf("%d:%d ", k, m[uint16(k)])
	}
	return s
}

func aggrOfStats(s *mcap.Statistics) aggr {
	return aggr{s.MessageCount, uint64(s.SchemaCount), uint64(s.ChannelCount), uint64(s.AttachmentCount), uint64(s.MetadataCount),
		uint64(s.ChunkCount), s.MessageStartTime, s.MessageEndTime, countsString(s.ChannelMessageCounts)}
}

func checkC08(c WKCase, st *stats.Collector) error {
	w, k := &c.W, c.K
	file, mw, d, err := decodeWritten(c)
	if err != nil {
		return err
	}
	ms := w.Stats()
	nChunks := len(d.Data(specdec.OpChunk))
	want := aggr{ms.MessageCount, uint64(ms.SchemaCount), uint64(ms.ChannelCount), uint64(ms.AttachmentCount), uint64(ms.MetadataCount),
		uint64(nChunks), ms.MinTime, ms.MaxTime, countsString(ms.ChannelCounts)}
	if got := aggrOfStats(mw.Statistics); got != want {
		return pk.Failf("writer-statistics", "Writer.Statistics after Close = %+v, true aggregates %+v", got, want)
	}
	srecs := d.Summary(specdec.OpStatistics)
	if len(srecs) != 1 {
		return pk.Failf("statistics-record", "%d statistics records in a file written with statistics enabled", len(srecs))
	}
	sr := srecs[0]
	cm := map[uint16]uint64{}
	for _, e := range sr.ChannelMessageCounts {
		cm[e.K] = e.V
	}
	if got := (aggr{sr.MessageCount, uint64(sr.SchemaCount), uint64(sr.ChannelCount), uint64(sr.AttachmentCount), uint64(sr.MetadataCount),
		uint64(sr.ChunkCount), sr.MessageStartTime, sr.MessageEndTime, countsString(cm)}); got != want {
		return pk.Failf("statistics-record", "statistics record in file = %+v, true aggregates %+v", got, want)
	}
	infoChecked := false
	if !k.SkipMagic {
		rd, err := mcap.NewReader(bytes.NewReader(file))
		if err != nil {
			return pk.Failf("info", "NewReader: %v", err)
		}
		info, err := rd.Info()
		if err != nil {
			return pk.Failf("info", "Info: %v", err)
		}
		infoChecked = true
		// Info over a source with a transient read error somewhere in the summary or footer: whenever Info
		// answers without an error - at once, or when asked again - it is the Info of this file
		truth := infoSnapshot(info)
		// Info through seekable sources that deliver a few bytes per Read (range requests, block-wise wrappers)
		for _, sizes := range [][]int{{1}, {7, 3}, {64}, {1000}} {
			src := &faultio.SeekSource{Source: faultio.Source{Data: file, FailAt: -1, Sizes: sizes}}
			frd, err := mcap.NewReader(src)
			if err != nil {
				return pk.Failf("info", "NewReader over a source delivering %v bytes per Read: %v", sizes, err)
			}
			fi, err := frd.Info()
			frd.Close()
			if err != nil {
				return pk.Failf("info", "Info over a source delivering %v bytes per Read: %v", sizes, err)
			}
			if got := infoSnapshot(fi); got != truth {
				return pk.Failf("info-delivery-dependent", "Info over a source delivering %v bytes per Read differs from Info over a plain source:\n got:  %.500s\n want: %.500s", sizes, got, truth)
			}
		}
		if d.DataEndIdx >= 0 {
			from := int(d.Records[d.DataEndIdx].Offset)
			stride := 1 + (len(file)-from)/9
			for p := from; p < len(file); p += stride {
				src := &faultio.SeekSource{Source: faultio.Source{Data: file, FailAt: p, OneShot: true}}
				frd, err := mcap.NewReader(src)
				if err != nil {
					continue
				}
				for attempt := 1; attempt <= 3; attempt++ {
					fi, err := frd.Info()
					if err != nil {
						continue // a reported failure is fine; ask again
					}
					if got := infoSnapshot(fi); got != truth {
						frd.Close()
						return pk.Failf("info-after-read-error", "Info over a source that fails once at byte %d of %d returned no error on attempt %d, but not this file's Info:\n got:  %.500s\n want: %.500s", p, len(file), attempt, got, truth)
					}
					break
				}
				frd.Close()
			}
		}
		if info.Statistics == nil {
			return pk.Failf("info-statistics", "Info.Statistics is nil")
		}
		if got := aggrOfStats(info.Statistics); got != want {
			return pk.Failf("info-statistics", "Info.Statistics = %+v, true aggregates %+v", got, want)
		}
		// listings = exactly the summary records the file carries
		sumS, sumC := d.Summary(specdec.OpSchema), d.Summary(specdec.OpChannel)
		if len(info.Schemas) != len(sumS) || len(info.Channels) != len(sumC) {
			return pk.Failf("info-listing", "Info lists %d schemas / %d channels, summary has %d / %d", len(info.Schemas), len(info.Channels), len(sumS), len(sumC))
		}
		for _, r := range sumS {
			s := info.Schemas[r.ID]
			if s == nil || s.Name != r.Name || s.Encoding != r.Encoding || !bytes.Equal(s.Data, r.Data) {
				return pk.Failf("info-listing", "Info.Schemas[%d] = %s, summary record differs", r.ID, pk.Short(s))
			}
		}
		for _, r := range sumC {
			ch := info.Channels[r.ID]
			if ch == nil || ch.SchemaID != r.SchemaID || ch.Topic != r.Topic || ch.MessageEncoding != r.MessageEncoding || fmt.Sprint(ch.Metadata) != fmt.Sprint(r.MetaMap()) {
				return pk.Failf("info-listing", "Info.Channels[%d] = %s, summary record differs", r.ID, pk.Short(ch))
			}
		}
		// Info's own per-channel view: ChannelCounts reports message counts by topic
		if err := func() (err error) {
			defer func() {
				if x := recover(); x != nil {
					err = pk.Failf("info-channel-counts", "Info.ChannelCounts panicked: %v (summary channels: %d, channels in statistics: %d)", x, len(sumC), len(info.Statistics.ChannelMessageCounts))
				}
			}()
			got := info.ChannelCounts()
			wantByTopic := map[string]uint64{}
			for _, r := range sumC {
				wantByTopic[r.Topic] += ms.ChannelCounts[r.ID]
			}
			for topic, n := range wantByTopic {
				if got[topic] != n {
					return pk.Failf("info-channel-counts", "Info.ChannelCounts()[%q] = %d, the channels with that topic carry %d messages", topic, got[topic], n)
				}
			}
			for topic, n := range got {
				if _, ok := wantByTopic[topic]; !ok && n != 0 {
					return pk.Failf("info-channel-counts", "Info.ChannelCounts() reports %d messages for topic %q, which no summary channel has", n, topic)
				}
			}
			return nil
		}(); err != nil {
			return err
		}
		cis := d.Summary(specdec.OpChunkIndex)
		if len(info.ChunkIndexes) != len(cis) {
			return pk.Failf("info-chunks", "Info lists %d chunk indexes, summary has %d (channels in summary: %d, message indexing: %v)", len(info.ChunkIndexes), len(cis), len(sumC), !k.SkipMessageIndexing)
		}
		for i, r := range cis {
			x := info.ChunkIndexes[i]
			if x.ChunkStartOffset != r.ChunkStartOffset || x.ChunkLength != r.ChunkLength || x.MessageStartTime != r.MessageStartTime || x.MessageEndTime != r.MessageEndTime ||
				x.MessageIndexLength != r.MessageIndexLength || string(x.Compression) != r.Compression || x.CompressedSize != r.CompressedSize || x.UncompressedSize != r.UncompressedSize ||
				len(x.MessageIndexOffsets) != len(r.MessageIndexOffsets) {
				return pk.Failf("info-chunks", "Info.ChunkIndexes[%d] = %+v differs from summary record at %d", i, *x, r.Offset)
			}
			for _, e := range r.MessageIndexOffsets {
				if x.MessageIndexOffsets[e.K] != e.V {
					return pk.Failf("info-chunks", "Info.ChunkIndexes[%d].MessageIndexOffsets[%d] = %d, record says %d", i, e.K, x.MessageIndexOffsets[e.K], e.V)
				}
			}
		}
		ais := d.Summary(specdec.OpAttachmentIndex)
		if len(info.AttachmentIndexes) != len(ais) {
			return pk.Failf("info-listing", "Info lists %d attachment indexes, summary has %d", len(info.AttachmentIndexes), len(ais))
		}
		for i, r := range ais {
			x := info.AttachmentIndexes[i]
			if x.Offset != r.AttOffset || x.Length != r.AttLength || x.LogTime != r.LogTime || x.CreateTime != r.CreateTime || x.DataSize != r.DataSize || x.Name != r.Name || x.MediaType != r.MediaType {
				return pk.Failf("info-listing", "Info.AttachmentIndexes[%d] = %+v differs from summary record", i, *x)
			}
		}
		mis := d.Summary(specdec.OpMetadataIndex)
		if len(info.MetadataIndexes) != len(mis) {
			return pk.Failf("info-listing", "Info lists %d metadata indexes, summary has %d", len(info.MetadataIndexes), len(mis))
		}
		for i, r := range mis {
			x := info.MetadataIndexes[i]
			if x.Offset != r.AttOffset || x.Length != r.AttLength || x.Name != r.Name {
				return pk.Failf("info-listing", "Info.MetadataIndexes[%d] = %+v differs from summary record", i, *x)
			}
		}
		if info.Header == nil || info.Header.Profile != w.Profile || info.Header.Library != expectedLibrary(w, k) {
			return pk.Failf("info-header", "Info.Header = %s", pk.Short(info.Header))
		}
		// Info describes the file, not the reads made before it: a Reader that first served a
		// topic- and time-restricted read must list the same things afterwards.
		if chans := w.Channels(); len(chans) > 0 {
			rd2, err := mcap.NewReader(bytes.NewReader(file))
			if err != nil {
				return pk.Failf("info", "NewReader: %v", err)
			}
			if it, err := rd2.Messages(mcap.WithTopics([]string{chans[len(chans)-1].Topic}), mcap.AfterNanos(ms.MinTime+1)); err == nil {
				for i := 0; i < 3; i++ {
					if _, _, _, err := it.NextInto(nil); err != nil {
						break
					}
				}
			}
			info2, err := rd2.Info()
			if err != nil {
				return pk.Failf("info", "Info after a restricted read: %v", err)
			}
			if len(info2.Channels) != len(info.Channels) || len(info2.Schemas) != len(info.Schemas) || len(info2.ChunkIndexes) != len(info.ChunkIndexes) ||
				len(info2.AttachmentIndexes) != len(info.AttachmentIndexes) || len(info2.MetadataIndexes) != len(info.MetadataIndexes) ||
				(info2.Statistics == nil) != (info.Statistics == nil) || (info2.Statistics != nil && aggrOfStats(info2.Statistics) != want) {
				return pk.Failf("info-after-read", "after a topic/time-restricted read on the same Reader, Info lists %d channels, %d schemas, %d chunk indexes, %d/%d attachment/metadata indexes; a fresh Reader lists %d, %d, %d, %d/%d",
					len(info2.Channels), len(info2.Schemas), len(info2.ChunkIndexes), len(info2.AttachmentIndexes), len(info2.MetadataIndexes),
					len(info.Channels), len(info.Schemas), len(info.ChunkIndexes), len(info.AttachmentIndexes), len(info.MetadataIndexes))
			}
		}
	}
	// classification
	msgs := w.Messages()
	sh := shapeOf(d)
	minNotFirst := false
	if nChunks >= 2 && len(msgs) > 0 {
		first := d.Data(specdec.OpChunk)[0]
		hasMsg, fmin := false, uint64(0)
		for _, in := range first.Inner {
			if in.Op == specdec.OpMessage && (!hasMsg || in.LogTime < fmin) {
				hasMsg, fmin = true, in.LogTime
			}
		}
		minNotFirst = !hasMsg || fmin != ms.MinTime
	}
	zero := false
	for _, m := range msgs {
		if m.M.LogTime == 0 {
			zero = true
		}
	}
	nontrivial := minNotFirst || zero || sh.schemaOnlyChunks > 0
	classes := []string{fmt.Sprintf("chunked=%v", k.Chunked)}
	if minNotFirst {
		classes = append(classes, "min-time-not-in-first-chunk")
	}
	if zero {
		classes = append(classes, "message-at-time-0")
	}
	if sh.schemaOnlyChunks > 0 {
		classes = append(classes, "message-free-chunk")
	}
	if len(msgs) == 0 {
		classes = append(classes, "no-messages")
	}
	if infoChecked {
		classes = append(classes, "info-checked")
	}
	if len(w.Channels()) > len(ms.ChannelCounts) {
		classes = append(classes, "channel-without-messages")
	}
	st.Case(wl.Hash(c), nontrivial, 3, classes...)
	if nontrivial && st.WantSample() {
		st.Sample(WKCase{W: w.Trunc(16), K: k})
	}
	return nil
}

func TestC08(t *testing.T) {
	pk.Run(t, "C08", genC08, checkC08)
}
