package props

// Reader sessions: one mcap.Reader serving a generated history of calls (Info, Messages in every
// order with generated topic sets and windows, drained or abandoned part-way, GetMetadata,
// GetAttachmentReader). Every answer is judged by the same model oracles as the single-call checks,
// so an answer that depends on what the Reader was asked before is a violation. The single-call
// checks open a fresh Reader per read and cannot see state kept between calls.

import (
	"bytes"
	"errors"
	"fmt"
	"io"
	"math"
	"testing"

	"github.com/foxglove/mcap/go/mcap"
	"pgregory.net/rapid"
	"verifharness/mc"
	"verifharness/pk"
	"verifharness/specdec"
	"verifharness/stats"
	"verifharness/wl"
)

type SessOp struct {
	Kind    string // info | messages | scan (= messages with UsingIndex(false)) | metadata | attachment
	Order   int    // messages: 0 default (file order), 1 log time, 2 reverse log time
	Topics  []string
	Window  bool
	S, E    uint64
	Expr    int // how the window is expressed (see exprNames); 0 = none
	Partial int // messages: >=0 stop after this many items and abandon the iterator; -1 drain
	Idx     int // metadata/attachment: which index entry (modulo the number of entries)
}

type SessCase struct {
	W      wl.Workload
	K      wl.Config
	Ops    []SessOp
	Flavor string
}

func genSessOp(t *rapid.T, w *wl.Workload, flavor string, allowOrders bool) SessOp {
	kind := rapid.SampledFrom([]string{"messages", "messages", "messages", "scan", "info", "metadata", "attachment", "walk"}).Draw(t, "op")
	op := SessOp{Kind: kind, Partial: -1}
	switch kind {
	case "messages", "scan":
		if allowOrders && kind == "messages" {
			switch flavor {
			case "C03":
				op.Order = rapid.IntRange(1, 2).Draw(t, "order")
			default:
				op.Order = rapid.IntRange(0, 2).Draw(t, "order")
			}
		}
		op.Topics = genTopics(t, w)
		if rapid.IntRange(0, 2).Draw(t, "window?") != 0 {
			op.Window = true
			op.S, op.E = genWindow(t, w)
			op.Expr = rapid.IntRange(1, 8).Draw(t, "expr")
			if op.Expr >= 5 && (op.S > math.MaxInt64 || op.E > math.MaxInt64) {
				op.Expr -= 4
			}
		}
		if rapid.IntRange(0, 3).Draw(t, "partial?") == 0 {
			op.Partial = rapid.IntRange(0, 5).Draw(t, "partial")
		}
	case "metadata", "attachment", "walk":
		op.Idx = rapid.IntRange(0, 7).Draw(t, "idx")
	}
	return op
}

func genSession(flavor string) func(t *rapid.T) SessCase {
	return func(t *rapid.T) SessCase {
		var k wl.Config
		indexed := flavor != "C02" || rapid.IntRange(0, 3).Draw(t, "stratum") != 0
		if indexed {
			k = wl.GenConfig(t, wl.CfgParams{Indexed: true, SmallChunks: true})
		} else {
			k = wl.GenConfig(t, wl.CfgParams{NoCustom: true, NoSkipMagic: true, SmallChunks: true})
			if k.IndexedCapable() {
				switch rapid.IntRange(0, 2).Draw(t, "b-kind") {
				case 0:
					k.Chunked = false
				case 1:
					k.SkipChunkIndex = true
				default:
					k.SkipRepeatedChannelInfos = true
				}
			}
		}
		if rapid.IntRange(0, 19).Draw(t, "big-chunks?") == 0 {
			// chunks of several MiB of incompressible data (many codec blocks each): a sequential read abandoned
			// inside such a chunk leaves the codec with work in flight on the shared source
			comp := rapid.SampledFrom([]string{"zstd", "zstd", "lz4", ""}).Draw(t, "big-comp")
			kb := wl.Config{Chunked: true, ChunkSize: 3 << 20, Compression: comp, IncludeCRC: rapid.Bool().Draw(t, "big-crc")}
			wb := wl.Workload{Profile: "p", Library: "l"}
			wb.Ops = append(wb.Ops, wl.Op{C: &wl.Channel{ID: 1, Topic: "/a"}}, wl.Op{C: &wl.Channel{ID: 2, Topic: "/b"}})
			n := rapid.IntRange(30, 60).Draw(t, "big-n")
			seed := rapid.Uint64().Draw(t, "big-seed") | 1
			for i := 0; i < n; i++ {
				wb.Ops = append(wb.Ops, wl.Op{M: &wl.Message{ChannelID: uint16(1 + i%2), Sequence: uint32(i), LogTime: uint64(i / 3), PublishTime: uint64(i), Data: wl.Fill(120<<10, seed+2*uint64(i))}})
			}
			cb := SessCase{W: wb, K: kb, Flavor: flavor}
			for round := 0; round < 3; round++ {
				cb.Ops = append(cb.Ops, SessOp{Kind: "scan", Partial: 1 + round}, SessOp{Kind: "scan", Partial: -1})
				if round == 1 {
					cb.Ops = append(cb.Ops, SessOp{Kind: "info", Partial: -1}, SessOp{Kind: "messages", Order: 1, Partial: -1})
				}
			}
			return cb
		}
		mode := rapid.SampledFrom([]int{1, 1, 3, 4, 0}).Draw(t, "time-mode")
		w := wl.GenWorkload(t, wl.GenParams{ChunkHint: k.ChunkSize, TimeMode: mode, NoLong: true, UniqueSeq: true, MaxMsgs: 40, MinMsgs: 4, MaxPayload: 300, NoMaxTime: flavor == "C02"})
		c := SessCase{W: w, K: k, Flavor: flavor}
		n := rapid.IntRange(2, 6).Draw(t, "n-ops")
		if indexed {
			for i := 0; i < n; i++ {
				c.Ops = append(c.Ops, genSessOp(t, &w, flavor, true))
			}
		} else {
			// a file the index cannot serve: message reads with the default (index-preferring) options
			// fall under the fall-back-or-error clause, whatever was called before
			for i := 0; i < n-1; i++ {
				c.Ops = append(c.Ops, genSessOp(t, &w, flavor, false))
			}
			op := genSessOp(t, &w, flavor, false)
			for op.Kind != "messages" {
				op = genSessOp(t, &w, flavor, false)
			}
			op.Partial = -1
			c.Ops = append(c.Ops, op)
		}
		return c
	}
}

func sessOpts(op SessOp) (opts []mcap.ReadOpt, s, e uint64, endOpen bool, order mcap.ReadOrder) {
	if op.Kind == "scan" {
		opts = append(opts, mcap.UsingIndex(false))
	}
	switch op.Order {
	case 1:
		order = mcap.LogTimeOrder
		opts = append(opts, mcap.InOrder(order))
	case 2:
		order = mcap.ReverseLogTimeOrder
		opts = append(opts, mcap.InOrder(order))
	}
	if op.Topics != nil {
		opts = append(opts, mc.Topics(op.Topics))
	}
	endOpen = true
	if op.Window {
		var wo []mcap.ReadOpt
		wo, s, e, endOpen = windowOpts(C04Case{S: op.S, E: op.E, Expr: op.Expr})
		opts = append(opts, wo...)
	}
	return
}

func infoSnapshot(info *mcap.Info) string {
	type snap struct {
		St    *mcap.Statistics
		Ch    []*mcap.Channel
		Sc    []*mcap.Schema
		CI    []*mcap.ChunkIndex
		AI    []*mcap.AttachmentIndex
		MI    []*mcap.MetadataIndex
		Foot  *mcap.Footer
		Head  *mcap.Header
	}
	s := snap{St: info.Statistics, CI: info.ChunkIndexes, AI: info.AttachmentIndexes, MI: info.MetadataIndexes, Foot: info.Footer, Head: info.Header}
	for id := 0; id < 65536; id++ {
		if c, ok := info.Channels[uint16(id)]; ok {
			s.Ch = append(s.Ch, c)
		}
		if c, ok := info.Schemas[uint16(id)]; ok {
			s.Sc = append(s.Sc, c)
		}
	}
	return string(mustJSON(s))
}

type heldIter struct {
	it      mcap.MessageIterator
	items   []mc.Triple
	label   string
	topics  []string
	s, e    uint64
	endOpen bool
	order   mcap.ReadOrder
	done    bool
}

func checkSession(prop string) func(c SessCase, st *stats.Collector) error {
	return func(c SessCase, st *stats.Collector) error {
		w, k := &c.W, c.K
		file, _, err := mc.WriteBytes(w, k)
		if err != nil {
			return pk.Failf("write-error", "writer rejected a well-formed call sequence: %v", err)
		}
		d, err := specdec.Decode(file, specOpts(k))
		if err != nil {
			return pk.Failf("specdec", "reference decoder rejects the file: %v", err)
		}
		pl := placementOf(d)
		all := w.Messages()
		atts := w.Attachments()
		metas := w.Metadatas()
		indexed := len(d.Summary(specdec.OpChunkIndex)) > 0 && len(d.Summary(specdec.OpChannel)) > 0 && len(d.Summary(specdec.OpSchema)) >= len(w.Schemas())
		rd, err := mcap.NewReader(bytesReader(file))
		if err != nil {
			return pk.Failf("open", "NewReader: %v", err)
		}
		defer rd.Close()
		firstInfo := ""
		history := ""
		var held []*heldIter
		msgReads, restricted, classes := 0, 0, []string{fmt.Sprintf("indexed=%v", indexed)}
		getInfo := func(when string) (*mcap.Info, error) {
			info, err := rd.Info()
			if err != nil {
				return nil, pk.Failf("info", "Info (%s; history:%s): %v", when, history, err)
			}
			snap := infoSnapshot(info)
			if firstInfo == "" {
				firstInfo = snap
				if n := len(d.Summary(specdec.OpChunkIndex)); len(info.ChunkIndexes) != n {
					return nil, pk.Failf("info", "Info lists %d chunk indexes, the summary holds %d (history:%s)", len(info.ChunkIndexes), n, history)
				}
			} else if snap != firstInfo {
				return nil, pk.Failf("info-changed", "Info (%s) differs from what the same Reader reported earlier; history:%s\n first: %.600s\n now:   %.600s", when, history, firstInfo, snap)
			}
			return info, nil
		}
		stepHeld := func() error {
			// the kept iterators are live: each of them is advanced by one message between any two calls
			for _, h := range held {
				if h.done {
					continue
				}
				sc, ch, m, err := h.it.NextInto(nil)
				if err != nil {
					h.done = true
					if !errors.Is(err, io.EOF) {
						return pk.Failf("session-read", "%s, advanced between other calls (%s): %v after %d items", h.label, history, err, len(h.items))
					}
					continue
				}
				h.items = append(h.items, mc.Triple{S: mc.FromSchema(sc), C: mc.FromChannel(ch), M: mc.FromMessage(m)})
			}
			return nil
		}
		for i, op := range c.Ops {
			if err := stepHeld(); err != nil {
				return err
			}
			switch op.Kind {
			case "info":
				if _, err := getInfo(fmt.Sprintf("call #%d", i)); err != nil {
					return err
				}
				history += " Info"
			case "metadata":
				info, err := getInfo(fmt.Sprintf("before GetMetadata, call #%d", i))
				if err != nil {
					return err
				}
				if len(info.MetadataIndexes) == 0 {
					continue
				}
				j := op.Idx % len(info.MetadataIndexes)
				md, err := rd.GetMetadata(info.MetadataIndexes[j].Offset)
				if err != nil {
					return pk.Failf("metadata-fetch", "GetMetadata(entry #%d) after%s: %v", j, history, err)
				}
				got := &wl.Metadata{Name: md.Name, Metadata: mc.SortKV(md.Metadata)}
				if len(info.MetadataIndexes) == len(metas) && !pk.EqMetadata(got, metas[j]) {
					return pk.Failf("metadata-fetch", "metadata fetched at index entry #%d after%s is %s, written %s", j, history, pk.Short(got), pk.Short(metas[j]))
				}
				history += fmt.Sprintf(" GetMetadata(#%d)", j)
			case "walk":
				// every metadata record and every attachment, in index order (what a "list" command does), while
				// the kept iterators go on being consumed between the lookups
				info, err := getInfo(fmt.Sprintf("before a walk over the index entries, call #%d", i))
				if err != nil {
					return err
				}
				if indexed && op.Idx%4 != 3 {
					// ... and a read of the messages that starts now and is consumed during the walk
					order := mcap.ReadOrder(op.Idx % 3)
					if prop == "C03" {
						order = mcap.ReadOrder(1 + op.Idx%2)
					}
					it, err := rd.Messages(mcap.InOrder(order))
					if err != nil {
						return pk.Failf("session-open", "Messages(order=%d) at the start of a walk over the index entries, after%s: %v", order, history, err)
					}
					held = append(held, &heldIter{it: it, label: fmt.Sprintf("messages: Messages(order=%d), consumed one message at a time between the lookups of a walk over all index entries, after%s", order, history), endOpen: true, order: order})
					history += fmt.Sprintf(" messages(order=%d, kept)", order)
				}
				for j, idx := range info.MetadataIndexes {
					md, err := rd.GetMetadata(idx.Offset)
					if err != nil {
						return pk.Failf("metadata-fetch", "GetMetadata(entry #%d of a walk over all entries, %d live iterators advanced between the lookups) after%s: %v", j, len(held), history, err)
					}
					got := &wl.Metadata{Name: md.Name, Metadata: mc.SortKV(md.Metadata)}
					if len(info.MetadataIndexes) == len(metas) && !pk.EqMetadata(got, metas[j]) {
						return pk.Failf("metadata-fetch", "metadata fetched at index entry #%d (walk over all entries, %d live iterators advanced between the lookups) after%s is %s, written %s", j, len(held), history, pk.Short(got), pk.Short(metas[j]))
					}
					if err := stepHeld(); err != nil {
						return err
					}
				}
				for j, idx := range info.AttachmentIndexes {
					ar, err := rd.GetAttachmentReader(idx.Offset)
					if err != nil {
						return pk.Failf("attachment-fetch", "GetAttachmentReader(entry #%d of a walk) after%s: %v", j, history, err)
					}
					data, err := io.ReadAll(ar.Data())
					if err != nil {
						return pk.Failf("attachment-fetch", "reading attachment entry #%d of a walk after%s: %v", j, history, err)
					}
					if len(info.AttachmentIndexes) == len(atts) {
						want := atts[j]
						if ar.LogTime != want.LogTime || ar.CreateTime != want.CreateTime || ar.Name != want.Name || ar.MediaType != want.MediaType || !bytes.Equal(data, want.Data) {
							return pk.Failf("attachment-fetch", "attachment fetched at index entry #%d (walk) after%s differs from the written one", j, history)
						}
					}
					if err := stepHeld(); err != nil {
						return err
					}
				}
				history += " walk(metadata,attachments)"
			case "attachment":
				info, err := getInfo(fmt.Sprintf("before GetAttachmentReader, call #%d", i))
				if err != nil {
					return err
				}
				if len(info.AttachmentIndexes) == 0 {
					continue
				}
				j := op.Idx % len(info.AttachmentIndexes)
				ar, err := rd.GetAttachmentReader(info.AttachmentIndexes[j].Offset)
				if err != nil {
					return pk.Failf("attachment-fetch", "GetAttachmentReader(entry #%d) after%s: %v", j, history, err)
				}
				data, err := io.ReadAll(ar.Data())
				if err != nil {
					return pk.Failf("attachment-fetch", "reading attachment entry #%d after%s: %v", j, history, err)
				}
				if len(info.AttachmentIndexes) == len(atts) {
					want := atts[j]
					if ar.LogTime != want.LogTime || ar.CreateTime != want.CreateTime || ar.Name != want.Name || ar.MediaType != want.MediaType || !bytes.Equal(data, want.Data) {
						return pk.Failf("attachment-fetch", "attachment fetched at index entry #%d after%s differs from the written one", j, history)
					}
				}
				history += fmt.Sprintf(" GetAttachmentReader(#%d)", j)
			case "messages", "scan":
				opts, s, e, endOpen, order := sessOpts(op)
				label := fmt.Sprintf(op.Kind+": Messages(order=%d topics=%v %s [%d,%d) partial=%d) as call #%d after%s", op.Order, op.Topics, exprNames[op.Expr], op.S, op.E, op.Partial, i, history)
				history += fmt.Sprintf(" %s(order=%d,topics=%v,window=%v,partial=%d)", op.Kind, op.Order, op.Topics, op.Window, op.Partial)
				msgReads++
				if op.Window || len(op.Topics) > 0 {
					restricted++
				}
				strict := indexed || op.Kind == "scan"
				it, err := rd.Messages(opts...)
				mc.ScribbleTopics() // the caller's topic slice is the caller's again
				if err != nil {
					if !strict {
						st.Note("non-indexable:Messages-error")
						continue
					}
					return pk.Failf("session-open", "%s: %v", label, err)
				}
				var items []mc.Triple
				var rerr error
				for {
					if op.Partial >= 0 && len(items) >= op.Partial {
						break
					}
					if len(items) > len(all)+5 {
						return pk.Failf("extra", "%s: more items than the file has messages", label)
					}
					sc, ch, m, err := it.NextInto(nil)
					if err != nil {
						rerr = err
						break
					}
					items = append(items, mc.Triple{S: mc.FromSchema(sc), C: mc.FromChannel(ch), M: mc.FromMessage(m)})
				}
				if rerr != nil && !errors.Is(rerr, io.EOF) {
					if !strict {
						st.Note("non-indexable:Next-error")
						// what came before the error must still be a prefix of the scan's selection
						want := wl.Select(all, op.Topics, s, e, endOpen)
						if len(items) > len(want) {
							return pk.Failf("extra", "%s: %d items before the error, the scan selects %d", label, len(items), len(want))
						}
						if err := compareTriples(label, items, want[:len(items)]); err != nil {
							return err
						}
						continue
					}
					return pk.Failf("session-read", "%s: %v after %d items", label, rerr, len(items))
				}
				if op.Partial >= 0 && rerr == nil {
					// an abandoned read: everything but completeness applies
					if err := checkAbandoned(st, prop, label, items, all, op.Topics, s, e, endOpen, pl, order); err != nil {
						return err
					}
					if indexed && op.Kind == "messages" && (i+len(op.Topics))%2 == 0 {
						// not abandoned after all: the caller keeps this iterator and comes back to it after the other
						// calls of the history (index-based iterators position the stream themselves for every chunk)
						held = append(held, &heldIter{it: it, items: items, label: label, topics: op.Topics, s: s, e: e, endOpen: endOpen, order: order})
					}
					continue
				}
				if err := checkSelectionKF(st, prop, label, items, all, op.Topics, s, e, endOpen, pl, order); err != nil {
					return err
				}
			}
		}
		// the iterators that were kept are now advanced side by side, one message each in turn, to their ends
		for live := len(held); live > 0; {
			live = 0
			for _, h := range held {
				if h.done {
					continue
				}
				sc, ch, m, err := h.it.NextInto(nil)
				if err != nil {
					h.done = true
					if !errors.Is(err, io.EOF) {
						return pk.Failf("session-read", "%s, resumed after the rest of the history (%s): %v after %d items", h.label, history, err, len(h.items))
					}
					continue
				}
				live++
				h.items = append(h.items, mc.Triple{S: mc.FromSchema(sc), C: mc.FromChannel(ch), M: mc.FromMessage(m)})
				if len(h.items) > len(all)+5 {
					return pk.Failf("extra", "%s, resumed: more items than the file has messages", h.label)
				}
			}
		}
		for _, h := range held {
			if err := checkSelectionKF(st, prop, h.label+", resumed side by side with the other kept iterators after:"+history, h.items, all, h.topics, h.s, h.e, h.endOpen, pl, h.order); err != nil {
				return err
			}
		}
		if len(held) > 0 {
			classes = append(classes, fmt.Sprintf("iterators-kept-and-resumed=%d", len(held)))
		}
		if _, err := getInfo("after the last call"); err != nil {
			return err
		}
		if msgReads >= 2 {
			classes = append(classes, "message-reads>=2")
		}
		if restricted >= 1 && msgReads >= 2 {
			classes = append(classes, "restricted-read-then-another")
		}
		nontrivial := (indexed && msgReads >= 2 && restricted >= 1 && pl.nChunks >= 2) || (!indexed && len(all) > 0)
		st.Case(wl.Hash(c), nontrivial, len(c.Ops), classes...)
		if nontrivial && st.WantSample() {
			st.Sample(SessCase{W: w.Trunc(6), K: k, Ops: c.Ops, Flavor: c.Flavor})
		}
		return nil
	}
}

// checkAbandoned judges the items of a read that the caller stopped before its end: in file order
// they are the first len(got) items of the selection; in the time orders they are distinct members of
// the selection in monotone order (which of several equal-time messages come first is open).
func checkAbandoned(st *stats.Collector, prop, label string, got []mc.Triple, all []wl.MsgRef, topics []string, s, e uint64, endOpen bool, pl placement, order mcap.ReadOrder) error {
	want := wl.Select(all, topics, s, e, endOpen)
	if order != mcap.FileOrder {
		err := checkSelection(label, got, want, pl, order)
		if f, ok := err.(*pk.Failure); ok && f.Kind == "missing" {
			return nil
		}
		return err
	}
	prefix := func(cand []wl.MsgRef) error {
		if len(got) > len(cand) {
			return pk.Failf("extra", "%s: %d items returned, the selection has %d", label, len(got), len(cand))
		}
		return compareTriples(label, got, cand[:len(got)])
	}
	err := prefix(want)
	if err == nil || !endOpen || !hasMaxTime(want) || !pk.Open(prop, "maxtime-default-window") {
		return err
	}
	if prefix(wl.Select(all, topics, s, maxT, false)) == nil {
		st.KnownFinding("maxtime-default-window", pk.What(prop, "maxtime-default-window"))
		return nil
	}
	return err
}

func TestC02Session(t *testing.T) { pk.Run(t, "C02s", genSession("C02"), checkSession("C02")) }
func TestC03Session(t *testing.T) { pk.Run(t, "C03s", genSession("C03"), checkSession("C03")) }
func TestC04Session(t *testing.T) { pk.Run(t, "C04s", genSession("C04"), checkSession("C04")) }
