package props

import (
	"bytes"
	"encoding/json"
)

// bytesRS is a plain in-memory read-seeker (a distinct type from bytes.Reader so that nothing in the
// code under test can special-case it).
type bytesRS struct {
	data []byte
	r    *bytes.Reader
}

func (b *bytesRS) init() {
	if b.r == nil {
		b.r = bytes.NewReader(b.data)
	}
}
func (b *bytesRS) Read(p []byte) (int, error) { b.init(); return b.r.Read(p) }
func (b *bytesRS) Seek(o int64, w int) (int64, error) {
	b.init()
	return b.r.Seek(o, w)
}


func jsonMarshal(v any) ([]byte, error) { return json.Marshal(v) }

func bytesReader(b []byte) *bytesRS { return &bytesRS{data: b} }
