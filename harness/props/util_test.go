package props

import (
	"bytes"
	"encoding/json"
	"fmt"

	"github.com/foxglove/mcap/go/mcap"
	"verifharness/mc"
)

// bytesRS is a plain in-memory read-seeker (a distinct type from bytes.Reader so that nothing in the
// code under test can special-case it).
type bytesRS struct {
	data []byte
	r    *bytes.Reader
}

func (b *bytesRS) init() {
	if b.r == nil {
		b.r = bytes.NewReader(b.data)
	}
}
func (b *bytesRS) Read(p []byte) (int, error) { b.init(); return b.r.Read(p) }
func (b *bytesRS) Seek(o int64, w int) (int64, error) {
	b.init()
	return b.r.Seek(o, w)
}


func jsonMarshal(v any) ([]byte, error) { return json.Marshal(v) }

func bytesReader(b []byte) *bytesRS { return &bytesRS{data: b} }


// readOn drains Messages(opts...) on an existing Reader.
func readOn(rd *mcap.Reader, opts ...mcap.ReadOpt) (res mc.IterResult) {
	defer func() {
		if x := recover(); x != nil {
			res.Panic = fmt.Sprint(x)
		}
	}()
	it, err := rd.Messages(opts...)
	mc.ScribbleTopics()
	if err != nil {
		res.OpenErr = err
		return res
	}
	for {
		s, c, m, err := it.NextInto(nil)
		if err != nil {
			res.Err = err
			return res
		}
		res.Items = append(res.Items, mc.Triple{S: mc.FromSchema(s), C: mc.FromChannel(c), M: mc.FromMessage(m)})
		if len(res.Items) > 1<<20 {
			res.Err = fmt.Errorf("harness: more than 2^20 items")
			return res
		}
	}
}
