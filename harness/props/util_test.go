package props

import "encoding/json"

func jsonMarshal(v any) ([]byte, error) { return json.Marshal(v) }
