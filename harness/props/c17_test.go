package props

import (
	"bytes"
	"crypto/sha256"
	"encoding/hex"
	"encoding/json"
	"fmt"
	"os"
	"os/exec"
	"path/filepath"
	"reflect"
	"testing"
	"time"

	"verifharness/conf"
	"verifharness/pk"
	"verifharness/specdec"
	"verifharness/specenc"
	"verifharness/stats"
	"verifharness/wl"
)

type C17Case struct {
	Name     string
	BaseName string
	Features []string
}

func enumC17(yield func(C17Case) bool) {
	sh, n := shardInfo()
	for i, v := range conf.Variants() {
		if i%n != sh {
			continue
		}
		var fs []string
		for _, f := range conf.FeatureOrder {
			if v.Features[f] {
				fs = append(fs, f)
			}
		}
		if !yield(C17Case{Name: v.Name, BaseName: v.BaseName, Features: fs}) {
			return
		}
	}
}

func runTool(name string, args ...string) ([]byte, error) {
	dir := os.Getenv("VERIF_TOOLS_DIR")
	if dir == "" {
		return nil, fmt.Errorf("VERIF_TOOLS_DIR not set")
	}
	cmd := exec.Command(filepath.Join(dir, name), args...)
	var out, errb bytes.Buffer
	cmd.Stdout, cmd.Stderr = &out, &errb
	done := make(chan error, 1)
	if err := cmd.Start(); err != nil {
		return nil, err
	}
	go func() { done <- cmd.Wait() }()
	select {
	case err := <-done:
		if err != nil {
			return out.Bytes(), fmt.Errorf("%v (stderr: %s)", err, errb.String())
		}
		return out.Bytes(), nil
	case <-time.After(60 * time.Second):
		_ = cmd.Process.Kill()
		return nil, fmt.Errorf("tool timed out")
	}
}

func jsonDiff(a, b any) string {
	ja, _ := json.Marshal(a)
	jb, _ := json.Marshal(b)
	la, lb := []any{}, []any{}
	if x, ok := a.([]any); ok {
		la = x
	}
	if x, ok := b.([]any); ok {
		lb = x
	}
	for i := 0; i < len(la) || i < len(lb); i++ {
		var x, y any
		if i < len(la) {
			x = la[i]
		}
		if i < len(lb) {
			y = lb[i]
		}
		if !reflect.DeepEqual(x, y) {
			return fmt.Sprintf("record #%d: got %s, expected %s", i, pk.Short(x), pk.Short(y))
		}
	}
	return fmt.Sprintf("got %.300s, expected %.300s", ja, jb)
}

func checkC17(c C17Case, st *stats.Collector) error {
	var in *conf.Input
	for _, i := range conf.Inputs() {
		if i.BaseName == c.BaseName {
			i := i
			in = &i
		}
	}
	if in == nil {
		return pk.Failf("harness", "unknown base input %s", c.BaseName)
	}
	feats := map[string]bool{}
	for _, f := range c.Features {
		feats[f] = true
	}
	dataDir := conf.DataDir(repoDir())
	jsonPath := filepath.Join(dataDir, c.BaseName, c.Name+".json")
	exp, err := conf.ReadExpectation(jsonPath)
	if err != nil {
		return pk.Failf("harness", "cannot read expectation: %v", err)
	}
	ptr, err := conf.ReadPointer(filepath.Join(dataDir, c.BaseName, c.Name+".mcap"))
	if err != nil {
		return pk.Failf("harness", "cannot read LFS pointer: %v", err)
	}
	// pin: regenerate the binary and check it against the pointer and the expectation
	bin, _, err := specenc.Encode(&in.W, specenc.ConformanceLayout(feats))
	if err != nil {
		return pk.Failf("harness", "reference encoder: %v", err)
	}
	sum := sha256.Sum256(bin)
	if hex.EncodeToString(sum[:]) != ptr.SHA256 || int64(len(bin)) != ptr.Size {
		return pk.Failf("harness", "PIN: reference encoder does not reproduce %s", c.Name)
	}
	want := exp.ExpectedRecords()
	dec, err := specdec.Decode(bin, specdec.Options{})
	if err != nil {
		return pk.Failf("harness", "PIN: reference decoder rejects %s: %v", c.Name, err)
	}
	if got := conf.Normalize(conf.RenderFile(dec)); !reflect.DeepEqual(got, want) {
		return pk.Failf("harness", "PIN: reference decoder's rendering of %s differs from the expectation: %s", c.Name, jsonDiff(got, want))
	}
	scratch := os.Getenv("VERIF_SCRATCH_DIR")
	if scratch == "" {
		scratch = os.TempDir()
	}
	binPath := filepath.Join(scratch, "c17-"+c.Name+".mcap")
	if err := os.WriteFile(binPath, bin, 0o644); err != nil {
		return pk.Failf("harness", "write scratch: %v", err)
	}
	defer os.Remove(binPath)
	evals := 0
	// write conformance (the generator's runner skips padded vectors: the Go writer cannot pad)
	if !feats["pad"] {
		out, err := runTool("test-write-conformance", jsonPath)
		evals++
		if err != nil {
			return pk.Failf("write-tool", "%s: test-write-conformance failed: %v; stdout %.200q", c.Name, err, out)
		}
		osum := sha256.Sum256(out)
		if hex.EncodeToString(osum[:]) != ptr.SHA256 || int64(len(out)) != ptr.Size {
			detail := "output is not even a decodable MCAP file"
			if d2, err := specdec.Decode(out, specdec.Options{}); err == nil {
				detail = jsonDiff(conf.Normalize(conf.RenderFile(d2)), want)
				if detail == "" {
					detail = fmt.Sprintf("record stream equal, bytes differ at offset %d", firstDiff(out, bin))
				}
			}
			return pk.Failf("write-tool", "%s: test-write-conformance output (%d bytes) is not the expected file (%d bytes): %s; first byte difference at %d", c.Name, len(out), ptr.Size, detail, firstDiff(out, bin))
		}
	}
	// read conformance, streamed: every vector incl. padded
	out, err := runTool("test-read-conformance", binPath, "streamed")
	evals++
	if err != nil {
		return pk.Failf("read-tool", "%s: test-read-conformance streamed failed: %v; stdout %.200q", c.Name, err, out)
	}
	var got struct {
		Records any `json:"records"`
	}
	if err := json.Unmarshal(out, &got); err != nil {
		return pk.Failf("read-tool", "%s: streamed output is not JSON: %v", c.Name, err)
	}
	if !reflect.DeepEqual(got.Records, want) {
		return pk.Failf("read-tool", "%s: streamed record stream differs: %s", c.Name, jsonDiff(got.Records, want))
	}
	if conf.IndexedSupported(&in.W, feats) {
		out, err := runTool("test-read-conformance", binPath, "indexed")
		evals++
		if err != nil {
			return pk.Failf("read-tool", "%s: test-read-conformance indexed failed: %v; stdout %.200q", c.Name, err, out)
		}
		var goti any
		if err := json.Unmarshal(out, &goti); err != nil {
			return pk.Failf("read-tool", "%s: indexed output is not JSON: %v", c.Name, err)
		}
		wanti := conf.Normalize(conf.IndexedExpectation(want))
		if !reflect.DeepEqual(goti, wanti) {
			return pk.Failf("read-tool", "%s: indexed output differs: got %.400s expected %.400s", c.Name, mustJSON(goti), mustJSON(wanti))
		}
		st.Class("indexed-vectors", 1)
	}
	classes := []string{"base=" + c.BaseName}
	if feats["pad"] {
		classes = append(classes, "padded")
	}
	st.Case(wl.Hash(c), len(c.Features) >= 2, evals, classes...)
	if st.WantSample() && len(c.Features) >= 4 {
		st.Sample(c)
	}
	st.SetExtra("exhaustive_matrix", true)
	return nil
}

func TestC17(t *testing.T) {
	pk.RunEnum(t, "C17", enumC17, checkC17)
}
