package props

import (
	"bufio"
	"bytes"
	"errors"
	"fmt"
	"io"
	"sort"
	"strings"
	"testing"
	"testing/iotest"

	"github.com/foxglove/mcap/go/mcap"
	"pgregory.net/rapid"
	"verifharness/mc"
	"verifharness/pk"
	"verifharness/specdec"
	"verifharness/specenc"
	"verifharness/stats"
	"verifharness/wl"
)

// genLayout draws a layout for the reference encoder. indexed forces what index-based reads need.
func genLayout(t *rapid.T, w *wl.Workload, indexed bool, label string) specenc.Layout {
	l := specenc.Layout{SortedMaps: rapid.Bool().Draw(t, label+"sorted-maps")}
	l.Chunked = indexed || rapid.IntRange(0, 4).Draw(t, label+"chunked") != 0
	if l.Chunked {
		dens := rapid.SampledFrom([]int{0, 2, 4, 8, 100}).Draw(t, label+"cut-density")
		for i := range w.Ops {
			if dens > 0 && rapid.IntRange(0, 99).Draw(t, label+"cut") < 100/dens+0 && dens != 100 {
				l.CutAfter = append(l.CutAfter, i)
			} else if dens == 100 && rapid.IntRange(0, 2).Draw(t, label+"cut") == 0 {
				l.CutAfter = append(l.CutAfter, i)
			}
		}
		n := rapid.IntRange(1, 3).Draw(t, label+"n-comp")
		for i := 0; i < n; i++ {
			l.Compression = append(l.Compression, rapid.SampledFrom([]string{"", "", "zstd", "lz4", "zstd", "lz4", "zstd-zeroframe", "zstd-multi", "zstd-skippable", "zstd-nocrc"}).Draw(t, label+"comp"))
		}
		l.RepeatDefs = rapid.SampledFrom([]int{0, 0, 1, 2}).Draw(t, label+"repeat-defs")
		l.MessageIndex = rapid.Bool().Draw(t, label+"msgidx")
		l.IndexAllChannels = rapid.Bool().Draw(t, label+"idx-all")
		l.ChunkIndex = indexed || rapid.Bool().Draw(t, label+"chx")
	}
	l.RepeatSchemas = indexed || rapid.Bool().Draw(t, label+"rsh")
	l.RepeatChannels = indexed || rapid.Bool().Draw(t, label+"rch")
	l.Statistics = rapid.Bool().Draw(t, label+"st")
	l.AttachmentIndex = rapid.Bool().Draw(t, label+"ax")
	l.MetadataIndex = rapid.Bool().Draw(t, label+"mdx")
	// spec MUSTs for a valid file: chunk indexes need summary schemas+channels, per-channel statistics need summary channels
	if l.ChunkIndex {
		l.RepeatSchemas, l.RepeatChannels = true, true
	}
	if l.Statistics {
		l.RepeatChannels = true
	}
	l.SummaryOffsets = rapid.Bool().Draw(t, label+"sum")
	l.ZeroSummaryOffsetStartWhenNone = rapid.Bool().Draw(t, label+"zero-sos")
	l.CRC = rapid.Bool().Draw(t, label+"crc")
	l.SummaryOrder = rapid.Permutation(specenc.DefaultSummaryOrder).Draw(t, label+"summary-order")
	// the one ordering the spec fixes: channels precede statistics
	ci, si := -1, -1
	for i, g := range l.SummaryOrder {
		if g == "channel" {
			ci = i
		}
		if g == "stats" {
			si = i
		}
	}
	if ci > si {
		l.SummaryOrder[ci], l.SummaryOrder[si] = l.SummaryOrder[si], l.SummaryOrder[ci]
	}
	return l
}

// decorate adds unknown records and trailing bytes to a layout (the content stays the same).
func decorate(t *rapid.T, w *wl.Workload, l specenc.Layout) specenc.Layout {
	d := l
	d.Pad = rapid.SliceOfN(rapid.Byte(), 1, 40).Draw(t, "pad")
	d.PadVary = rapid.Bool().Draw(t, "pad-vary")
	d.PadInChunks = rapid.Bool().Draw(t, "pad-in-chunks")
	if l.Chunked && rapid.IntRange(0, 3).Draw(t, "force-unknown") != 0 {
		d.Unknown = append(d.Unknown,
			specenc.UnknownRec{Where: "chunk", Chunk: 0, Pos: rapid.IntRange(0, 2).Draw(t, "fu-pos"), Op: byte(rapid.IntRange(0x10, 0xFF).Draw(t, "fu-op")), Body: wl.Fill(rapid.IntRange(0, 20).Draw(t, "fu-len"), 3)},
			specenc.UnknownRec{Where: "summary", Pos: 0, Op: 0x10, Body: wl.Fill(rapid.IntRange(0, 20).Draw(t, "fs-len"), 5), WithOffset: rapid.Bool().Draw(t, "fs-off")})
	}
	if l.Chunked && rapid.IntRange(0, 2).Draw(t, "unknown-at-chunk-end") == 0 {
		// Pos -1 = after the last record of the chunk
		d.Unknown = append(d.Unknown, specenc.UnknownRec{Where: "chunk", Chunk: rapid.IntRange(0, 3).Draw(t, "ce-chunk"), Pos: -1,
			Op: byte(rapid.IntRange(0x10, 0xFF).Draw(t, "ce-op")), Body: wl.Fill(rapid.SampledFrom([]int{0, 0, 1, 9}).Draw(t, "ce-len"), 9)})
	}
	n := rapid.IntRange(1, 10).Draw(t, "n-unknown")
	for i := 0; i < n; i++ {
		u := specenc.UnknownRec{Op: byte(rapid.IntRange(0x10, 0xFF).Draw(t, "u-op"))}
		switch rapid.IntRange(0, 2).Draw(t, "u-where") {
		case 0:
			u.Where = "data"
			u.Pos = rapid.IntRange(0, len(w.Ops)+2).Draw(t, "u-pos")
		case 1:
			u.Where = "chunk"
			u.Chunk = rapid.IntRange(0, 6).Draw(t, "u-chunk")
			u.Pos = rapid.IntRange(0, 8).Draw(t, "u-pos")
		default:
			u.Where = "summary"
			u.Pos = rapid.IntRange(0, 6).Draw(t, "u-pos")
			u.WithOffset = rapid.Bool().Draw(t, "u-with-offset")
			// summary records must be grouped by opcode: opcodes at different positions come from disjoint ranges
			u.Op = byte(0x10 + u.Pos*32 + int(u.Op)%32)
		}
		ln := rapid.SampledFrom([]int{0, 0, 1, 8, 9, 17, 300}).Draw(t, "u-len")
		u.Body = wl.Fill(ln, rapid.Uint64().Draw(t, "u-seed"))
		d.Unknown = append(d.Unknown, u)
	}
	return d
}

type C11Case struct {
	W       wl.Workload
	L       specenc.Layout
	D       specenc.Layout
	Indexed bool
}

func genC11(t *rapid.T) C11Case {
	w := wl.GenWorkload(t, wl.GenParams{ChunkHint: 100, NoLong: true, MaxMsgs: 30, UniqueSeq: true, MaxPayload: 300})
	indexed := rapid.IntRange(0, 3).Draw(t, "indexed") != 0
	l := genLayout(t, &w, indexed, "")
	return C11Case{W: w, L: l, D: decorate(t, &w, l), Indexed: indexed}
}

// neutral renders an event without anything that legitimately moves when bytes are inserted
// (offsets, lengths, sizes, CRCs).
func neutral(e *mc.Event) string {
	switch e.Kind {
	case "header", "schema", "channel", "message", "metadata", "statistics":
		return e.Kind + ":" + string(mustJSON(e))
	case "attachment":
		a := e.A
		return fmt.Sprintf("attachment:%d:%d:%q:%q:%d:%x:crc-ok=%v:%s%s%s", a.LogTime, a.CreateTime, a.Name, a.MediaType, a.DataSize, a.Data, a.ParsedCRC == a.ComputedCRC, a.ReadErr, a.ParsedErr, a.ComputedErr)
	case "chunkindex":
		return fmt.Sprintf("chunkindex:%d:%d:%s:%d", e.CI.MessageStartTime, e.CI.MessageEndTime, e.CI.Compression, len(e.CI.MessageIndexOffsets))
	case "attachmentindex":
		return fmt.Sprintf("attachmentindex:%d:%d:%d:%q:%q", e.AI.LogTime, e.AI.CreateTime, e.AI.DataSize, e.AI.Name, e.AI.MediaType)
	case "metadataindex":
		return fmt.Sprintf("metadataindex:%q", e.MI.Name)
	case "summaryoffset":
		return fmt.Sprintf("summaryoffset:%d", e.SO.GroupOpcode)
	case "messageindex":
		var ts []string
		for _, r := range e.X.Entries() {
			ts = append(ts, fmt.Sprint(r.Timestamp))
		}
		return fmt.Sprintf("messageindex:%d:%s", e.X.ChannelID, strings.Join(ts, ","))
	}
	return e.Kind
}

func neutralStream(evs []mc.Event) []string {
	var out []string
	for i := range evs {
		e := &evs[i]
		if e.Kind == "summaryoffset" && (e.SO.GroupOpcode < 0x01 || e.SO.GroupOpcode > 0x0F) {
			continue // the offset entry of an inserted unknown group
		}
		out = append(out, neutral(e))
	}
	return out
}

func infoNeutral(info *mcap.Info) string {
	var sb strings.Builder
	fmt.Fprintf(&sb, "stats=%+v;", info.Statistics)
	var ids []int
	for id := range info.Channels {
		ids = append(ids, int(id))
	}
	sort.Ints(ids)
	for _, id := range ids {
		fmt.Fprintf(&sb, "ch%s;", mustJSON(mc.FromChannel(info.Channels[uint16(id)])))
	}
	ids = ids[:0]
	for id := range info.Schemas {
		ids = append(ids, int(id))
	}
	sort.Ints(ids)
	for _, id := range ids {
		fmt.Fprintf(&sb, "sc%s;", mustJSON(mc.FromSchema(info.Schemas[uint16(id)])))
	}
	for _, ci := range info.ChunkIndexes {
		fmt.Fprintf(&sb, "ci:%d:%d:%s:%d;", ci.MessageStartTime, ci.MessageEndTime, ci.Compression, len(ci.MessageIndexOffsets))
	}
	for _, ai := range info.AttachmentIndexes {
		fmt.Fprintf(&sb, "ai:%d:%d:%d:%q:%q;", ai.LogTime, ai.CreateTime, ai.DataSize, ai.Name, ai.MediaType)
	}
	for _, mi := range info.MetadataIndexes {
		fmt.Fprintf(&sb, "mi:%q;", mi.Name)
	}
	fmt.Fprintf(&sb, "hdr=%+v", info.Header)
	return sb.String()
}

// readAllWays returns a list of (label, rendering) pairs describing everything the Go readers report.
type view struct {
	label string
	val   string
	err   bool
}

func readAllWays(file []byte, withLexer bool) ([]view, error) {
	var vs []view
	if withLexer {
		// the lexer over sources that deliver the bytes differently: all at once (seekable), one byte per Read,
		// half of what is asked for, through a 16-byte bufio.Reader, through a pipe
		sources := []struct {
			name string
			mk   func() (io.Reader, func())
		}{
			{"", func() (io.Reader, func()) { return bytesReader(file), func() {} }},
			{", one byte per Read", func() (io.Reader, func()) { return iotest.OneByteReader(bytes.NewReader(file)), func() {} }},
			{", half reads", func() (io.Reader, func()) { return iotest.HalfReader(bytes.NewReader(file)), func() {} }},
			{", bufio(16)", func() (io.Reader, func()) { return bufio.NewReaderSize(bytes.NewReader(file), 16), func() {} }},
			{", pipe", func() (io.Reader, func()) {
				pr, pw := io.Pipe()
				go func() {
					for off := 0; off < len(file); off += 7 {
						end := off + 7
						if end > len(file) {
							end = len(file)
						}
						if _, err := pw.Write(file[off:end]); err != nil {
							return
						}
					}
					pw.Close()
				}()
				return pr, func() { pr.Close() }
			}},
		}
		for si, src := range sources {
			for _, validate := range []bool{false, true} {
				if si > 0 && validate != (si%2 == 0) {
					continue // the extra sources alternate between validating and not
				}
				r, done := src.mk()
				lr := mc.LexAll(r, mc.LexParams{AttCRC: true, ValidateCRC: validate, MaxEvents: 200000}, false)
				done()
				if lr.Panic != "" {
					return nil, pk.Failf("panic", "lexer(validate=%v%s): %s", validate, src.name, lr.Panic)
				}
				s := strings.Join(neutralStream(lr.Events), "\n")
				bad := lr.OpenErr != nil || !errors.Is(lr.Err, io.EOF)
				if bad {
					s += fmt.Sprintf("\nERR")
				}
				vs = append(vs, view{fmt.Sprintf("lexer(validate=%v%s)", validate, src.name), s, bad})
			}
		}
	}
	modes := []struct {
		name string
		opts []mcap.ReadOpt
	}{
		{"non-indexed", []mcap.ReadOpt{mcap.UsingIndex(false)}},
		{"indexed file order", []mcap.ReadOpt{mcap.UsingIndex(true)}},
		{"log-time order", []mcap.ReadOpt{mcap.InOrder(mcap.LogTimeOrder)}},
		{"reverse order", []mcap.ReadOpt{mcap.InOrder(mcap.ReverseLogTimeOrder)}},
	}
	for _, m := range modes {
		r := mc.ReadMessages(bytesReader(file), true, false, 0, m.opts...)
		if r.Panic != "" {
			return nil, pk.Failf("panic", "%s: %s", m.name, r.Panic)
		}
		var sb strings.Builder
		for i := range r.Items {
			sb.WriteString(string(mustJSON(r.Items[i])))
			sb.WriteByte('\n')
		}
		fmt.Fprintf(&sb, "metadata-callback:%s", mustJSON(r.Meta))
		bad := r.OpenErr != nil || !errors.Is(r.Err, io.EOF)
		if bad {
			sb.WriteString("\nERR")
		}
		vs = append(vs, view{m.name, sb.String(), bad})
	}
	rd, err := mcap.NewReader(bytesReader(file))
	if err != nil {
		vs = append(vs, view{"Info", "ERR", true})
		return vs, nil
	}
	info, err := rd.Info()
	if err != nil {
		vs = append(vs, view{"Info", "ERR", true})
		return vs, nil
	}
	vs = append(vs, view{"Info", infoNeutral(info), false})
	// the same Reader, used further: a sequential scan after Info, an index-preferring read, a second scan
	for _, m := range []struct {
		name string
		opts []mcap.ReadOpt
	}{
		{"one Reader: scan after Info", []mcap.ReadOpt{mcap.UsingIndex(false)}},
		{"one Reader: Messages() after a scan", nil},
		{"one Reader: second scan", []mcap.ReadOpt{mcap.UsingIndex(false)}},
	} {
		r := readOn(rd, m.opts...)
		if r.Panic != "" {
			return nil, pk.Failf("panic", "%s: %s", m.name, r.Panic)
		}
		var sb strings.Builder
		for i := range r.Items {
			sb.WriteString(string(mustJSON(r.Items[i])))
			sb.WriteByte('\n')
		}
		bad := r.OpenErr != nil || !errors.Is(r.Err, io.EOF)
		if bad {
			sb.WriteString("\nERR")
		}
		vs = append(vs, view{m.name, sb.String(), bad})
	}
	return vs, nil
}

func validateRef(file []byte, what string) (*specdec.File, error) {
	d, err := specdec.Decode(file, specdec.Options{})
	if err != nil {
		return nil, pk.Failf("harness", "reference decoder rejects the %s file: %v", what, err)
	}
	if bad := filterIssues(specdec.Validate(d, specdec.ValidateOptions{}), "grammar", "pointer", "crc"); len(bad) > 0 {
		return nil, pk.Failf("harness", "the %s file is not valid: %s", what, pk.JoinIssues(bad, 4))
	}
	return d, nil
}

func firstLineDiff(a, b string) string {
	la, lb := strings.Split(a, "\n"), strings.Split(b, "\n")
	for i := 0; i < len(la) || i < len(lb); i++ {
		var x, y string
		if i < len(la) {
			x = la[i]
		}
		if i < len(lb) {
			y = lb[i]
		}
		if x != y {
			if len(x) > 260 {
				x = x[:260] + "…"
			}
			if len(y) > 260 {
				y = y[:260] + "…"
			}
			return fmt.Sprintf("line %d: %q vs %q", i, x, y)
		}
	}
	return "(identical)"
}

func checkC11(c C11Case, st *stats.Collector) error {
	plain, _, err := specenc.Encode(&c.W, c.L)
	if err != nil {
		return pk.Failf("harness", "encode plain: %v", err)
	}
	deco, _, err := specenc.Encode(&c.W, c.D)
	if err != nil {
		return pk.Failf("harness", "encode decorated: %v", err)
	}
	if _, err := validateRef(plain, "plain"); err != nil {
		return err
	}
	dd, err := validateRef(deco, "decorated")
	if err != nil {
		return err
	}
	va, err := readAllWays(plain, true)
	if err != nil {
		return err
	}
	vb, err := readAllWays(deco, true)
	if err != nil {
		return err
	}
	for i := range va {
		if va[i].val != vb[i].val {
			return pk.Failf("decoration-visible", "%s differs between the plain and the decorated file: %s", va[i].label, firstLineDiff(va[i].val, vb[i].val))
		}
	}
	// and equal to the model: the plain file's sequential view must satisfy C01's oracle
	lr := mc.LexAll(bytesReader(deco), mc.LexParams{AttCRC: true}, false)
	if err := checkSequentialContent(&c.W, &lr, "decorated file, lexer"); err != nil {
		return err
	}
	if c.Indexed {
		for _, v := range vb {
			if v.err && v.label != "Info" {
				all := c.W.Messages()
				if len(all) > 0 || (v.label != "log-time order" && v.label != "reverse order") {
					if !(len(dd.Summary(specdec.OpChunkIndex)) == 0 || len(dd.Summary(specdec.OpChannel)) == 0) {
						return pk.Failf("indexed-error", "%s fails on a decorated indexed file", v.label)
					}
				}
			}
		}
	}
	// classification
	inChunk, inSummary := false, false
	for _, r := range dd.Records {
		if r.Op == specdec.OpChunk {
			for _, in := range r.Inner {
				if in.Op > 0x0F {
					inChunk = true
				}
			}
		}
	}
	for _, r := range dd.Records[dd.DataEndIdx+1:] {
		if r.Op > 0x0F {
			inSummary = true
		}
	}
	padded := map[byte]bool{}
	for _, r := range dd.Flat(true) {
		if r.Extra > 0 {
			padded[r.Op] = true
		}
	}
	nontrivial := inChunk && inSummary && len(padded) >= 3
	classes := []string{fmt.Sprintf("indexed=%v", c.Indexed), fmt.Sprintf("padded-kinds=%d", len(padded))}
	if inChunk {
		classes = append(classes, "unknown-in-chunk")
	}
	if inSummary {
		classes = append(classes, "unknown-in-summary")
	}
	st.Case(wl.Hash(c), nontrivial, 2*len(va), classes...)
	if nontrivial && st.WantSample() {
		st.Sample(map[string]any{"W": c.W.Trunc(10), "layout": c.L, "decorations": map[string]any{"pad_len": len(c.D.Pad), "pad_in_chunks": c.D.PadInChunks, "unknown": len(c.D.Unknown)}})
	}
	return nil
}

// checkSequentialContent is C01's model oracle without the header-library rule (the reference
// encoder writes the library string as given).
func checkSequentialContent(w *wl.Workload, res *mc.LexResult, label string) error {
	k := wl.Config{OverrideLibrary: true}
	return checkSequentialOpts(w, k, res, label, true)
}

func TestC11(t *testing.T) {
	pk.Run(t, "C11", genC11, checkC11)
}
