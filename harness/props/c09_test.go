package props

import (
	"bytes"
	"errors"
	"fmt"
	"io"
	"testing"

	"github.com/foxglove/mcap/go/mcap"
	"pgregory.net/rapid"
	"verifharness/mc"
	"verifharness/pk"
	"verifharness/specdec"
	"verifharness/stats"
	"verifharness/wl"
)

// cheapMix weights the compressions for the per-byte fault loops: every lz4 read allocates a 4 MiB block
// buffer and every zstd read builds a decoder, which makes such files ~10x dearer per injected fault.
var cheapMix = []string{"", "", "", "", "zstd", "lz4"}

// genSmallFile draws workloads whose files stay small enough to enumerate faults per byte.
func genSmallFile(cp wl.CfgParams, maxMsgs, maxPayload int, attach bool) func(t *rapid.T) WKCase {
	return func(t *rapid.T) WKCase {
		k := wl.GenConfig(t, cp)
		if k.Chunked && k.ChunkSize > 1024 {
			k.ChunkSize = rapid.SampledFrom([]int64{50, 100, 300, 1024}).Draw(t, "small-chunksize")
		}
		w := wl.GenWorkload(t, wl.GenParams{ChunkHint: 40, NoLong: true, MaxMsgs: maxMsgs, MaxPayload: maxPayload, NoAttach: !attach, UniqueSeq: true, SmallIDs: true, MinMsgs: 2})
		return WKCase{W: w, K: k}
	}
}

// topLevelEventCounts returns, for each top-level record of a decoded file, the number of events a
// de-chunking lexer with an attachment callback surfaces for it.
func eventsPerRecord(r *specdec.Record) int {
	switch r.Op {
	case specdec.OpChunk:
		n := 0
		for _, in := range r.Inner {
			if in.Op >= 0x01 && in.Op <= 0x0F {
				n++
			}
		}
		return n
	default:
		if r.Op >= 0x01 && r.Op <= 0x0F {
			return 1
		}
		return 0
	}
}

func cutClass(d *specdec.File, k uint64) string {
	if k < 8 {
		return "cut-in-magic"
	}
	for _, r := range d.Records {
		if k == r.Offset {
			return "cut-on-record-boundary"
		}
		if k > r.Offset && k < r.End() {
			if k < r.Offset+9 {
				return "cut-in-record-header"
			}
			switch r.Op {
			case specdec.OpChunk:
				if k >= r.PayloadOffset {
					if r.Compression != "" {
						return "cut-in-compressed-frame"
					}
					return "cut-in-chunk-payload"
				}
				return "cut-in-chunk-header"
			case specdec.OpAttachment:
				return "cut-in-attachment"
			}
			return "cut-in-record-body"
		}
	}
	return "cut-in-trailing-magic"
}

func checkC09(c WKCase, st *stats.Collector) error {
	w, k := &c.W, c.K
	file, _, err := mc.WriteBytes(w, k)
	if err != nil {
		return pk.Failf("write-error", "writer rejected a well-formed call sequence: %v", err)
	}
	if len(file) > 6000 {
		st.Exclude("file-larger-than-6000-bytes")
		return nil
	}
	d, err := specdec.Decode(file, specOpts(k))
	if err != nil {
		return pk.Failf("specdec", "reference decoder rejects the file: %v", err)
	}
	// event index bookkeeping: events surfaced before each top-level record, and the index (in the
	// message ordinal space) one past the last message of each chunk.
	type chunkEnd struct {
		end      uint64 // file offset one past the chunk record
		evAfter  int    // number of lexer events once the chunk has been fully emitted
		msgAfter int    // number of messages once the chunk has been fully emitted
		hasMsg   bool
	}
	var chunks []chunkEnd
	ev, msgs := 0, 0
	for _, r := range d.Records {
		ev += eventsPerRecord(r)
		if r.Op == specdec.OpChunk {
			n := 0
			for _, in := range r.Inner {
				if in.Op == specdec.OpMessage {
					n++
				}
			}
			msgs += n
			// events up to and including the last message of the chunk
			lastMsgEv := ev
			for i := len(r.Inner) - 1; i >= 0 && r.Inner[i].Op != specdec.OpMessage; i-- {
				lastMsgEv--
			}
			chunks = append(chunks, chunkEnd{r.End(), lastMsgEv, msgs, n > 0})
		} else if r.Op == specdec.OpMessage {
			msgs++
		}
	}
	type mode struct {
		name     string
		validate bool
	}
	classes := map[string]int64{}
	evals := 0
	for _, m := range []mode{{"lexer", false}, {"lexer+validate", true}} {
		lp := mc.LexParams{ValidateCRC: m.validate, AttCRC: true, MaxEvents: 100000}
		base := mc.LexAll(bytes.NewReader(file), lp, false)
		if !base.Clean() {
			return pk.Failf("baseline", "%s: intact file does not read cleanly: %v %v %s", m.name, base.OpenErr, base.Err, base.Panic)
		}
		T := mc.Sigs(base.Events)
		for cut := 0; cut < len(file); cut++ {
			res := mc.LexAll(bytes.NewReader(file[:cut]), lp, false)
			evals++
			if res.Panic != "" {
				return pk.Failf("panic", "%s, file cut at %d of %d: %s", m.name, cut, len(file), res.Panic)
			}
			if res.OpenErr == nil && res.Err == nil {
				return pk.Failf("no-end", "%s, cut at %d: lexer stopped without EOF or error", m.name, cut)
			}
			got := res.Events
			if len(got) > len(T) {
				return pk.Failf("extra", "%s, cut at %d: %d events, the intact file has only %d", m.name, cut, len(got), len(T))
			}
			for i := range got {
				if mc.Sig(&got[i]) == T[i] {
					continue
				}
				// the one tolerated difference: a final attachment cut inside its data
				if i == len(got)-1 && got[i].Kind == "attachment" && base.Events[i].Kind == "attachment" &&
					mc.AttFieldsSig(got[i].A) == mc.AttFieldsSig(base.Events[i].A) && bytes.HasPrefix(base.Events[i].A.Data, got[i].A.Data) {
					continue
				}
				return pk.Failf("altered", "%s, cut at %d: event #%d is %s, the intact file has %s", m.name, cut, i, pk.Short(got[i]), pk.Short(base.Events[i]))
			}
			// completeness
			need := 0
			for _, ch := range chunks {
				if ch.end <= uint64(cut) && ch.hasMsg {
					need = ch.evAfter
				}
			}
			if len(got) < need {
				return pk.Failf("incomplete", "%s, cut at %d: only %d events returned (err %v); a chunk completely written before the cut ends at event %d", m.name, cut, len(got), res.Err, need)
			}
		}
	}
	// non-indexed message iterator
	baseIt := mc.ReadMessages(bytes.NewReader(file), false, false, 0, mcap.UsingIndex(false))
	if !baseIt.Clean() {
		return pk.Failf("baseline", "iterator: intact file does not read cleanly: %v %v %s", baseIt.OpenErr, baseIt.Err, baseIt.Panic)
	}
	// the open finding on 2^64-1 hides such messages from the iterator: completeness is then judged on what it returns for the intact file
	TI := make([]uint64, len(baseIt.Items))
	for i := range baseIt.Items {
		TI[i] = mc.TripleSig(&baseIt.Items[i])
	}
	seqPos := map[uint32]int{}
	for i, it := range baseIt.Items {
		seqPos[it.M.Sequence] = i
	}
	for cut := 0; cut < 3*len(file); cut++ {
		// cuts >= len(file) revisit every third cut: the same Reader scans the remainder a second time (a tool
		// that first looks how much survived and then processes it); the second scan is judged like the first.
		// cuts >= 2*len(file) revisit another third: the Reader is first asked for Info (or scanned once), then
		// for Messages() with default options - an error is an answer (the index is gone); if the library
		// chooses to read the remainder sequentially instead, that read is judged like the others
		second := cut >= len(file) && cut < 2*len(file)
		third := cut >= 2*len(file)
		if second {
			cut -= len(file)
			if cut%3 != 0 {
				cut += len(file)
				continue
			}
		}
		if third {
			cut -= 2 * len(file)
			if cut%3 != 1 {
				cut += 2 * len(file)
				continue
			}
		}
		var res mc.IterResult
		if third {
			res = readAfterPrelude(bytesReader(file[:cut]), cut/3%2)
			if res.OpenErr != nil && res.Panic == "" {
				st.Note("default-Messages-on-cut-file:error")
				cut += 2 * len(file)
				continue
			}
			st.Note("default-Messages-on-cut-file:reads")
		} else if second {
			_, res = mc.ReadMessagesTwice(bytesReader(file[:cut]), mcap.UsingIndex(false))
		} else {
			res = mc.ReadMessages(bytes.NewReader(file[:cut]), false, false, 0, mcap.UsingIndex(false))
		}
		evals++
		if res.Panic != "" {
			return pk.Failf("panic", "iterator, file cut at %d of %d: %s", cut, len(file), res.Panic)
		}
		if len(res.Items) > len(TI) {
			return pk.Failf("extra", "iterator, cut at %d: %d messages, the intact file has only %d", cut, len(res.Items), len(TI))
		}
		for i := range res.Items {
			if mc.TripleSig(&res.Items[i]) != TI[i] {
				return pk.Failf("altered", "iterator, cut at %d: message #%d is %s, the intact file has %s", cut, i, pk.Short(res.Items[i]), pk.Short(baseIt.Items[i]))
			}
		}
		if res.OpenErr == nil && res.Err == nil {
			return pk.Failf("no-end", "iterator, cut at %d: stopped without EOF or error", cut)
		}
		// completeness: every message of every chunk that ends at or before the cut
		need := 0
		for ci, r := range d.Data(specdec.OpChunk) {
			_ = ci
			if r.End() > uint64(cut) {
				break
			}
			for _, in := range r.Inner {
				if in.Op == specdec.OpMessage {
					if p, ok := seqPos[in.Sequence]; ok && p+1 > need {
						need = p + 1
					}
				}
			}
		}
		if len(res.Items) < need {
			return pk.Failf("incomplete", "iterator (second scan on the same Reader: %v; Messages() with default options after Info or a scan: %v), cut at %d: %d messages returned (open=%v err=%v); chunks completely written before the cut hold %d", second, third, cut, len(res.Items), res.OpenErr, res.Err, need)
		}
		if second {
			cut += len(file)
		}
		if third {
			cut += 2 * len(file)
		}
	}
	nt := 0
	for cut := 0; cut < len(file); cut++ {
		cl := cutClass(d, uint64(cut))
		classes[cl]++
		if cl != "cut-on-record-boundary" && cl != "cut-in-magic" && cl != "cut-in-trailing-magic" {
			nt++
		}
	}
	for cl, n := range classes {
		st.Class(cl, n)
	}
	st.Class("files", 1)
	st.Class("compression="+k.Compression+fmt.Sprintf(",chunked=%v", k.Chunked), 1)
	st.Case(wl.Hash(c), nt > 0 && len(d.Data(specdec.OpChunk))+len(d.Data(specdec.OpAttachment)) > 0, evals)
	if st.WantSample() {
		st.Sample(map[string]any{"W": w.Trunc(12), "K": k, "file_len": len(file), "cuts": len(file)})
	}
	_ = errors.Is
	_ = io.EOF
	return nil
}

// readAfterPrelude asks one Reader for Info (prelude 0) or scans it once (prelude 1), ignoring the outcome, and then
// reads Messages() with default options.
func readAfterPrelude(r io.Reader, prelude int) (res mc.IterResult) {
	defer func() {
		if x := recover(); x != nil {
			res.Panic = fmt.Sprint(x)
		}
	}()
	rd, err := mcap.NewReader(r)
	if err != nil {
		res.OpenErr = err
		return
	}
	defer rd.Close()
	if prelude == 0 {
		_, _ = rd.Info()
	} else if it, err := rd.Messages(mcap.UsingIndex(false)); err == nil {
		for n := 0; n < 1<<20; n++ {
			if _, _, _, err := it.NextInto(nil); err != nil {
				break
			}
		}
	}
	it, err := rd.Messages()
	if err != nil {
		res.OpenErr = err
		return
	}
	for len(res.Items) < 1<<20 {
		s, c, m, err := it.NextInto(nil)
		if err != nil {
			res.Err = err
			return
		}
		res.Items = append(res.Items, mc.Triple{S: mc.FromSchema(s), C: mc.FromChannel(c), M: mc.FromMessage(m)})
	}
	return
}

func TestC09(t *testing.T) {
	pk.Run(t, "C09", genSmallFile(wl.CfgParams{NoCustom: true, NoSkipMagic: true, Compressions: cheapMix}, 14, 60, true), checkC09)
}

// ---- large files: cuts concentrated around record boundaries
//
// Enumerating every cut is only affordable for files of a few KiB, which keeps every chunk far below
// the sizes at which size-dependent code paths switch (tens of KiB). Here files with chunks of
// 64-200 KiB are cut at every position within 70 bytes around each top-level record start/end, around
// the chunk payload start, and at a few generated positions inside payloads.

type C09BigCase struct {
	W    wl.Workload
	K    wl.Config
	Cuts []uint32 // generated extra cut positions (reduced modulo the file length)
}

func genC09Big(t *rapid.T) C09BigCase {
	k := wl.GenConfig(t, wl.CfgParams{NoCustom: true, NoSkipMagic: true, ForceChunked: true, Compressions: []string{"", "", "zstd", "lz4"}})
	k.ChunkSize = rapid.SampledFrom([]int64{64 << 10, 100 << 10, 200 << 10}).Draw(t, "big-chunk-size")
	if k.Compression == "zstd" && k.Level > 1 {
		k.Level = 1
	}
	w := wl.Workload{}
	w.Ops = append(w.Ops, wl.Op{S: &wl.Schema{ID: 1, Name: "s", Encoding: "e", Data: []byte{1}}}, wl.Op{C: &wl.Channel{ID: 0, SchemaID: 1, Topic: "/a"}}, wl.Op{C: &wl.Channel{ID: 1, Topic: "/b"}})
	n := rapid.IntRange(4, 14).Draw(t, "n-big-msgs")
	for i := 0; i < n; i++ {
		size := rapid.SampledFrom([]int{10, 1000, 20 << 10, 40 << 10, 70 << 10}).Draw(t, "big-size")
		w.Ops = append(w.Ops, wl.Op{M: &wl.Message{ChannelID: uint16(i % 2), Sequence: uint32(i), LogTime: uint64(i), PublishTime: uint64(i), Data: wl.Fill(size, rapid.Uint64().Draw(t, "big-seed")|1)}})
		if i == n/2 {
			w.Ops = append(w.Ops, wl.Op{A: &wl.Attachment{Name: "a", MediaType: "m", Data: wl.Fill(300, 7)}})
		}
	}
	return C09BigCase{W: w, K: k, Cuts: rapid.SliceOfN(rapid.Uint32(), 0, 12).Draw(t, "extra-cuts")}
}

func checkC09Big(c C09BigCase, st *stats.Collector) error {
	w, k := &c.W, c.K
	file, _, err := mc.WriteBytes(w, k)
	if err != nil {
		return pk.Failf("write-error", "writer rejected a well-formed call sequence: %v", err)
	}
	d, err := specdec.Decode(file, specOpts(k))
	if err != nil {
		return pk.Failf("specdec", "reference decoder rejects the file: %v", err)
	}
	cutSet := map[int]bool{}
	addAround := func(p uint64) {
		for dlt := -4; dlt <= 70; dlt++ {
			q := int(p) + dlt
			if q >= 0 && q < len(file) {
				cutSet[q] = true
			}
		}
	}
	for _, r := range d.Records {
		addAround(r.Offset)
		addAround(r.End())
		if r.Op == specdec.OpChunk {
			addAround(r.PayloadOffset)
		}
	}
	for _, x := range c.Cuts {
		cutSet[int(x)%len(file)] = true
	}
	// completeness bookkeeping as in the small-file check
	type chunkEnd struct {
		end     uint64
		evAfter int
		hasMsg  bool
	}
	var chunks []chunkEnd
	ev := 0
	maxChunk := uint64(0)
	for _, r := range d.Records {
		ev += eventsPerRecord(r)
		if r.Op == specdec.OpChunk {
			n := 0
			for _, in := range r.Inner {
				if in.Op == specdec.OpMessage {
					n++
				}
			}
			last := ev
			for i := len(r.Inner) - 1; i >= 0 && r.Inner[i].Op != specdec.OpMessage; i-- {
				last--
			}
			chunks = append(chunks, chunkEnd{r.End(), last, n > 0})
			if r.UncompressedSize > maxChunk {
				maxChunk = r.UncompressedSize
			}
		}
	}
	evals := 0
	for _, validate := range []bool{false, true} {
		lp := mc.LexParams{ValidateCRC: validate, AttCRC: true, MaxEvents: 100000}
		base := mc.LexAll(bytesReader(file), lp, false)
		if !base.Clean() {
			return pk.Failf("baseline", "intact file does not read cleanly: %v %v %s", base.OpenErr, base.Err, base.Panic)
		}
		T := mc.Sigs(base.Events)
		for cut := range cutSet {
			for _, seekable := range []bool{true, false} {
				var src io.Reader = bytesReader(file[:cut])
				if !seekable {
					src = io.MultiReader(bytes.NewReader(file[:cut]))
				}
				res := mc.LexAll(src, lp, false)
				evals++
				label := fmt.Sprintf("lexer(validate=%v, seekable=%v), %d-byte file cut at %d", validate, seekable, len(file), cut)
				if res.Panic != "" {
					return pk.Failf("panic", "%s: %s", label, res.Panic)
				}
				got := res.Events
				if len(got) > len(T) {
					return pk.Failf("extra", "%s: %d events, the intact file has %d", label, len(got), len(T))
				}
				for i := range got {
					if mc.Sig(&got[i]) == T[i] {
						continue
					}
					if i == len(got)-1 && got[i].Kind == "attachment" && base.Events[i].Kind == "attachment" &&
						mc.AttFieldsSig(got[i].A) == mc.AttFieldsSig(base.Events[i].A) && bytes.HasPrefix(base.Events[i].A.Data, got[i].A.Data) {
						continue
					}
					return pk.Failf("altered", "%s: event #%d differs from the intact file's", label, i)
				}
				need := 0
				for _, ch := range chunks {
					if ch.end <= uint64(cut) && ch.hasMsg {
						need = ch.evAfter
					}
				}
				if len(got) < need {
					return pk.Failf("incomplete", "%s: %d events returned (err %v); a chunk completely written before the cut ends at event %d", label, len(got), res.Err, need)
				}
			}
		}
	}
	st.Class(fmt.Sprintf("big-files,compression=%s", k.Compression), 1)
	st.Case(wl.Hash(c), maxChunk >= 64<<10, evals, "big-file-boundary-cuts")
	if st.WantSample() && maxChunk >= 64<<10 {
		st.Sample(map[string]any{"K": k, "file_len": len(file), "largest_chunk": maxChunk, "cuts": len(cutSet)})
	}
	return nil
}

func TestC09Big(t *testing.T) {
	pk.Run(t, "C09b", genC09Big, checkC09Big)
}
