package props

import (
	"bytes"
	"encoding/binary"
	"errors"
	"fmt"
	"io"
	"testing"

	"github.com/klauspost/compress/zstd"
	"pgregory.net/rapid"
	"verifharness/mc"
	"verifharness/pk"
	"verifharness/specdec"
	"verifharness/stats"
	"verifharness/wl"
)

type C07Case struct {
	W wl.Workload
	K wl.Config
	// Multi-byte corruptions inside chunk payloads: (chunk ordinal, kind, a, b, seed)
	Ops []CorruptOp
}

type CorruptOp struct {
	Chunk int
	Kind  int // 0 overwrite range with noise, 1 swap two ranges, 2 shift left (truncating) by n
	A, B  int
	N     int
	Seed  uint64
}

func genC07(t *rapid.T) C07Case {
	base := genSmallFile(wl.CfgParams{ForceChunked: true, ForceCRC: true, NoCustom: true, NoSkipMagic: true, SmallChunks: true, Compressions: []string{"", "", "", "", "zstd", "lz4", "lz4-nochecksum", "zstd-nochecksum"}}, 12, 40, true)(t)
	c := C07Case{W: base.W, K: base.K}
	n := rapid.IntRange(0, 6).Draw(t, "n-multibyte")
	for i := 0; i < n; i++ {
		c.Ops = append(c.Ops, CorruptOp{Chunk: rapid.IntRange(0, 7).Draw(t, "c-chunk"), Kind: rapid.IntRange(0, 2).Draw(t, "c-kind"),
			A: rapid.IntRange(0, 400).Draw(t, "c-a"), B: rapid.IntRange(0, 400).Draw(t, "c-b"), N: rapid.IntRange(1, 16).Draw(t, "c-n"), Seed: rapid.Uint64().Draw(t, "c-seed")})
	}
	return c
}

// judgeCorrupted applies the C07 oracle to one corrupted read.
// T/Tsig: events of the intact file; firstIdx: index in T of the damaged chunk's first record;
// afterIdx: index in T of the first event after the damaged chunk.
func judgeCorrupted(label string, base []mc.Event, Tsig []uint64, res *mc.LexResult, firstIdx, afterIdx int, mustDetect bool, surplus func() bool, st *stats.Collector) (detected bool, err error) {
	if res.Panic != "" {
		return false, pk.Failf("panic", "%s: %s", label, res.Panic)
	}
	got := res.Events
	report := -1
	for i := range got {
		if got[i].Kind == "invalidchunk" {
			report = i
			break
		}
	}
	clean := res.OpenErr == nil && errors.Is(res.Err, io.EOF)
	if report < 0 && !clean {
		report = len(got)
	}
	limit := len(got)
	if report >= 0 {
		limit = report
	}
	for i := 0; i < limit; i++ {
		if i >= len(Tsig) || mc.Sig(&got[i]) != Tsig[i] {
			var orig any = "(nothing)"
			if i < len(base) {
				orig = base[i]
			}
			return false, pk.Failf("silent-corruption", "%s: record #%d differs from the original before any report (report at %d): got %s, original %s", label, i, report, pk.Short(got[i]), pk.Short(orig))
		}
	}
	if report < 0 {
		if len(got) != len(Tsig) {
			return false, pk.Failf("silent-loss", "%s: clean end after %d records, the original has %d", label, len(got), len(Tsig))
		}
		if mustDetect {
			return false, pk.Failf("undetected", "%s: a single-bit flip in an uncompressed chunk payload was not reported (CRC-32 detects every single-bit error)", label)
		}
		return false, nil
	}
	// "no later than the damaged chunk": the report may come at the chunk's first record (CRC mismatch)
	// or, when the damage leaves the decoded content and its CRC intact but desynchronises the
	// compressed stream, after the chunk's own (original, already compared) records - never after a
	// record that follows the damaged chunk.
	if report > afterIdx {
		return true, pk.Failf("late-report", "%s: corruption reported after %d records, the damaged chunk spans records #%d..#%d", label, report, firstIdx, afterIdx-1)
	}
	if report > firstIdx {
		st.Note("reported-after-the-damaged-chunk's-own-original-records")
	}
	// After an invalid-chunk token the caller may keep reading (that is what the token is for). Whatever
	// is handed out then must still be data that was written: records of the original file that follow
	// the damaged chunk, in order. Omissions are tolerated (the statement does not promise recovery);
	// a record that is not one of those - in particular anything decoded from the damaged chunk - is
	// corrupted data read back as good data.
	if report < len(got) && got[report].Kind == "invalidchunk" {
		rest := got[report+1:]
		same := len(rest) == len(Tsig)-afterIdx
		for i := 0; same && i < len(rest); i++ {
			if mc.Sig(&rest[i]) != Tsig[afterIdx+i] {
				same = false
			}
		}
		if same {
			st.Note("after-invalid-chunk-token:rest-of-file-intact")
		} else {
			j := 0
			foreign := -1
			for i := range rest {
				if rest[i].Kind == "error" || rest[i].Kind == "invalidchunk" {
					continue
				}
				sg := mc.Sig(&rest[i])
				for afterIdx+j < len(Tsig) && Tsig[afterIdx+j] != sg {
					j++
				}
				if afterIdx+j >= len(Tsig) {
					foreign = i
					break
				}
				j++
			}
			if foreign < 0 {
				st.Note("after-invalid-chunk-token:later-records-omitted")
			} else if pk.Open("C07", "zstd-surplus-after-invalid-chunk-token") && surplus != nil && surplus() {
				st.KnownFinding("zstd-surplus-after-invalid-chunk-token", pk.What("C07", "zstd-surplus-after-invalid-chunk-token"))
			} else {
				return true, pk.Failf("corrupt-after-report", "%s: after the invalid-chunk token the lexer handed out %s, which is not a record of the original file after the damaged chunk (records #%d.. of the original)", label, pk.Short(rest[foreign]), afterIdx)
			}
		}
	}
	return true, nil
}

// zstdSurplus reports (lazily) whether a stored zstd payload decodes, as a stream, to more bytes than
// the chunk declares - the trigger of the open finding "zstd-surplus-after-invalid-chunk-token".
func zstdSurplus(payload []byte, r *specdec.Record) func() bool {
	return func() bool {
		if r.Compression != "zstd" {
			return false
		}
		dec, err := zstd.NewReader(bytes.NewReader(payload))
		if err != nil {
			return false
		}
		defer dec.Close()
		n, _ := io.Copy(io.Discard, dec)
		return uint64(n) > r.UncompressedSize
	}
}

func checkC07(c C07Case, st *stats.Collector) error {
	w, k := &c.W, c.K
	file, _, err := mc.WriteBytes(w, k)
	if err != nil {
		return pk.Failf("write-error", "writer rejected a well-formed call sequence: %v", err)
	}
	if len(file) > 8000 {
		st.Exclude("file-larger-than-8000-bytes")
		return nil
	}
	d, err := specdec.Decode(file, specOpts(k))
	if err != nil {
		return pk.Failf("specdec", "reference decoder rejects the file: %v", err)
	}
	lpA := mc.LexParams{ValidateCRC: true, AttCRC: true, MaxEvents: 100000}
	lpB := mc.LexParams{ValidateCRC: true, AttCRC: true, EmitInvalidChunks: true, ContinueAfterInvalid: true, MaxEvents: 100000}
	base := mc.LexAll(bytes.NewReader(file), lpA, false)
	if !base.Clean() {
		return pk.Failf("baseline", "intact file does not read cleanly: %v %v %s", base.OpenErr, base.Err, base.Panic)
	}
	T := mc.Sigs(base.Events)
	work := append([]byte{}, file...)
	evals, changed, harmless, zeroCRC := 0, 0, 0, 0
	evBefore := 0
	type chunkPos struct {
		rec             *specdec.Record
		first, after    int
	}
	var chunks []chunkPos
	for _, r := range d.Records {
		n := eventsPerRecord(r)
		if r.Op == specdec.OpChunk {
			chunks = append(chunks, chunkPos{r, evBefore, evBefore + n})
		}
		evBefore += n
	}
	for ci, ch := range chunks {
		r := ch.rec
		if r.UncompressedCRC == 0 {
			zeroCRC++
			continue
		}
		lo, hi := int(r.PayloadOffset), int(r.PayloadOffset+r.CompressedSize)
		for pos := lo; pos < hi; pos++ {
			for bit := 0; bit < 8; bit++ {
				work[pos] ^= 1 << bit
				lps := []mc.LexParams{lpA, lpB}
				if r.Compression != "" && (pos+bit)%3 == 0 {
					// one flip in three is also read with caller-supplied decoders for the standard formats
					lpC := lpA
					lpC.OwnCodecs = true
					lps = append(lps, lpC)
				}
				for mi, lp := range lps {
					res := mc.LexAll(bytes.NewReader(work), lp, false)
					evals++
					label := fmt.Sprintf("chunk %d (%q) byte %d bit %d, emitInvalid=%v, caller-supplied decoders=%v", ci, r.Compression, pos-lo, bit, mi == 1, lp.OwnCodecs)
					det, err := judgeCorrupted(label, base.Events, T, &res, ch.first, ch.after, r.Compression == "", zstdSurplus(work[lo:hi], r), st)
					if err != nil {
						work[pos] ^= 1 << bit
						return err
					}
					if mi == 0 {
						if det {
							changed++
						} else {
							harmless++
						}
					}
				}
				work[pos] ^= 1 << bit
			}
		}
	}
	// generated multi-byte damage
	for _, op := range c.Ops {
		if len(chunks) == 0 {
			break
		}
		ch := chunks[op.Chunk%len(chunks)]
		r := ch.rec
		if r.UncompressedCRC == 0 || r.CompressedSize == 0 {
			continue
		}
		lo, n := int(r.PayloadOffset), int(r.CompressedSize)
		a, b := op.A%n, op.B%n
		ln := op.N
		saved := append([]byte{}, work[lo:lo+n]...)
		switch op.Kind {
		case 0:
			noise := wl.Fill(ln, op.Seed|1)
			for i := 0; i < ln && a+i < n; i++ {
				work[lo+a+i] = noise[i]
			}
		case 1:
			for i := 0; i < ln && a+i < n && b+i < n; i++ {
				work[lo+a+i], work[lo+b+i] = work[lo+b+i], work[lo+a+i]
			}
		default:
			copy(work[lo+a:lo+n], saved[min(a+ln, n):])
		}
		same := bytes.Equal(saved, work[lo:lo+n])
		for mi, lp := range []mc.LexParams{lpA, lpB} {
			res := mc.LexAll(bytes.NewReader(work), lp, false)
			evals++
			label := fmt.Sprintf("chunk (%q) multi-byte op %+v, emitInvalid=%v", r.Compression, op, mi == 1)
			if _, err := judgeCorrupted(label, base.Events, T, &res, ch.first, ch.after, false, zstdSurplus(work[lo:lo+n], r), st); err != nil {
				return err
			}
		}
		if !same {
			st.Class("multi-byte-corruptions", 1)
		}
		copy(work[lo:lo+n], saved)
	}
	// attachments: every single-bit flip of the record content
	attFlips, attExposed := 0, 0
	var origAtt []*mc.AttEvent
	for i := range base.Events {
		if base.Events[i].Kind == "attachment" {
			origAtt = append(origAtt, base.Events[i].A)
		}
	}
	for ai, r := range d.Data(specdec.OpAttachment) {
		lo, hi := int(r.Offset)+9, int(r.End())
		for pos := lo; pos < hi; pos++ {
			for bit := 0; bit < 8; bit++ {
				work[pos] ^= 1 << bit
				res := mc.LexAll(bytes.NewReader(work), lpA, false)
				work[pos] ^= 1 << bit
				evals++
				attFlips++
				if res.Panic != "" {
					return pk.Failf("panic", "attachment %d byte %d bit %d: %s", ai, pos-lo, bit, res.Panic)
				}
				// find the ai-th attachment event, if the read got that far
				var got *mc.AttEvent
				n := 0
				for i := range res.Events {
					if res.Events[i].Kind == "attachment" {
						if n == ai {
							got = res.Events[i].A
						}
						n++
					}
				}
				if got == nil {
					attExposed++ // the lexer failed before/at the attachment: exposed by an error
					continue
				}
				exposed := got.ReadErr != "" || got.ParsedErr != "" || got.ComputedErr != "" || got.ParsedCRC != got.ComputedCRC
				o := origAtt[ai]
				altered := mc.AttFieldsSig(got) != mc.AttFieldsSig(o) || !bytes.Equal(got.Data, o.Data)
				if exposed {
					attExposed++
					continue
				}
				if altered {
					return pk.Failf("attachment-undetected", "attachment %d byte %d bit %d: callback saw altered content %s with computed CRC == stored CRC (%08x) and no error", ai, pos-lo, bit, pk.Short(got.Attachment), got.ParsedCRC)
				}
				// content unaltered and CRCs equal: the flip must have been... impossible for a CRC'd byte, possible for none
				return pk.Failf("attachment-undetected", "attachment %d byte %d bit %d: flip inside the record neither changed what the callback saw nor the CRC comparison", ai, pos-lo, bit)
			}
		}
	}
	st.Class("chunk-flips-detected", int64(changed))
	st.Class("chunk-flips-harmless(decoded-records-unchanged)", int64(harmless))
	st.Class("attachment-flips", int64(attFlips))
	st.Class("attachment-flips-exposed", int64(attExposed))
	st.Class("chunks-with-zero-crc-skipped", int64(zeroCRC))
	st.Class("files,compression="+k.Compression, 1)
	st.Case(wl.Hash(c), changed > 0, evals)
	if st.WantSample() {
		st.Sample(map[string]any{"W": w.Trunc(12), "K": k, "file_len": len(file), "chunks": len(chunks), "corrupted_reads": evals})
	}
	_ = binary.LittleEndian
	return nil
}

func TestC07(t *testing.T) {
	pk.Run(t, "C07", genC07, checkC07)
}
