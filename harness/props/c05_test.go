package props

import (
	"fmt"
	"testing"

	"github.com/foxglove/mcap/go/mcap"
	"verifharness/mc"
	"verifharness/pk"
	"verifharness/specdec"
	"verifharness/stats"
	"verifharness/wl"
)

func bp(b bool) *bool { return &b }

func validateOpts(k wl.Config) specdec.ValidateOptions {
	return specdec.ValidateOptions{
		ExpectCRC: bp(k.IncludeCRC), RequireAttachmentCRC: true,
		ExpectSummaryOffsets: bp(!k.SkipSummaryOffsets),
		ExpectMessageIndexes: bp(!k.SkipMessageIndexing),
		WaiveSummaryChannels: k.SkipRepeatedChannelInfos, WaiveSummarySchemas: k.SkipRepeatedSchemas,
		StrictWriter: true,
	}
}

func filterIssues(is []specdec.Issue, cats ...string) []specdec.Issue {
	var out []specdec.Issue
	for _, i := range is {
		for _, c := range cats {
			if i.Cat == c {
				out = append(out, i)
			}
		}
	}
	return out
}

// presenceIssues: what the configuration keeps must be there (one per described record), what it
// skips must be absent; and the writer's public index lists must say what the file says.
func presenceIssues(w *wl.Workload, k wl.Config, d *specdec.File, mw *mcap.Writer) []specdec.Issue {
	var is []specdec.Issue
	add := func(f string, a ...any) { is = append(is, specdec.Issue{Cat: "pointer", Msg: fmt.Sprintf(f, a...)}) }
	chunks := d.Data(specdec.OpChunk)
	atts := d.Data(specdec.OpAttachment)
	mds := d.Data(specdec.OpMetadata)
	count := func(op byte) int { return len(d.Summary(op)) }
	exp := func(name string, skip bool, got, want int) {
		if skip && got != 0 {
			add("%s: %d records present although skipped", name, got)
		}
		if !skip && got != want {
			add("%s: %d records, expected %d", name, got, want)
		}
	}
	exp("statistics", k.SkipStatistics, count(specdec.OpStatistics), 1)
	exp("chunk index", k.SkipChunkIndex, count(specdec.OpChunkIndex), len(chunks))
	exp("attachment index", k.SkipAttachmentIndex, count(specdec.OpAttachmentIndex), len(atts))
	exp("metadata index", k.SkipMetadataIndex, count(specdec.OpMetadataIndex), len(mds))
	exp("summary schemas", k.SkipRepeatedSchemas, count(specdec.OpSchema), len(w.Schemas()))
	exp("summary channels", k.SkipRepeatedChannelInfos, count(specdec.OpChannel), len(w.Channels()))
	if !k.Chunked && len(chunks) != 0 {
		add("unchunked configuration produced %d chunk records", len(chunks))
	}
	for _, c := range chunks {
		if c.Compression != k.CompressionString() {
			add("chunk at %d: compression %q, configured %q", c.Offset, c.Compression, k.CompressionString())
		}
	}
	if k.Chunked {
		for _, op := range []byte{specdec.OpSchema, specdec.OpChannel, specdec.OpMessage} {
			if n := len(d.Data(op)); n != 0 {
				add("chunked configuration left %d records of op 0x%02x outside chunks", n, op)
			}
		}
	}
	if len(atts) != len(w.Attachments()) || len(mds) != len(w.Metadatas()) {
		add("%d attachment / %d metadata records, written %d / %d", len(atts), len(mds), len(w.Attachments()), len(w.Metadatas()))
	}
	// Writer's public lists describe the records actually in the file
	if mw != nil {
		if len(mw.ChunkIndexes) != len(chunks) {
			add("Writer.ChunkIndexes has %d entries, file has %d chunks", len(mw.ChunkIndexes), len(chunks))
		} else {
			for i, x := range mw.ChunkIndexes {
				c := chunks[i]
				if x.ChunkStartOffset != c.Offset || x.ChunkLength != 9+c.Len || x.MessageStartTime != c.MessageStartTime || x.MessageEndTime != c.MessageEndTime ||
					string(x.Compression) != c.Compression || x.CompressedSize != c.CompressedSize || x.UncompressedSize != c.UncompressedSize {
					add("Writer.ChunkIndexes[%d] = %+v does not describe chunk at %d (len %d)", i, *x, c.Offset, 9+c.Len)
				}
			}
		}
		if len(mw.AttachmentIndexes) != len(atts) {
			add("Writer.AttachmentIndexes has %d entries, file has %d attachments", len(mw.AttachmentIndexes), len(atts))
		} else {
			for i, x := range mw.AttachmentIndexes {
				a := atts[i]
				if x.Offset != a.Offset || x.Length != 9+a.Len || x.LogTime != a.LogTime || x.CreateTime != a.CreateTime || x.DataSize != a.DataSize || x.Name != a.Name || x.MediaType != a.MediaType {
					add("Writer.AttachmentIndexes[%d] = %+v does not describe attachment at %d", i, *x, a.Offset)
				}
			}
		}
		if len(mw.MetadataIndexes) != len(mds) {
			add("Writer.MetadataIndexes has %d entries, file has %d metadata records", len(mw.MetadataIndexes), len(mds))
		} else {
			for i, x := range mw.MetadataIndexes {
				m := mds[i]
				if x.Offset != m.Offset || x.Length != 9+m.Len || x.Name != m.Name {
					add("Writer.MetadataIndexes[%d] = %+v does not describe metadata at %d", i, *x, m.Offset)
				}
			}
		}
	}
	return is
}

type fileShape struct {
	nChunks, maxChannelsInChunk, schemaOnlyChunks, attIdx, mdIdx, summaryRecs int
}

func shapeOf(d *specdec.File) fileShape {
	var s fileShape
	for _, c := range d.Data(specdec.OpChunk) {
		s.nChunks++
		ch := map[uint16]bool{}
		for _, in := range c.Inner {
			if in.Op == specdec.OpMessage {
				ch[in.ChannelID] = true
			}
		}
		if len(ch) > s.maxChannelsInChunk {
			s.maxChannelsInChunk = len(ch)
		}
		if len(ch) == 0 {
			s.schemaOnlyChunks++
		}
	}
	s.attIdx = len(d.Summary(specdec.OpAttachmentIndex))
	s.mdIdx = len(d.Summary(specdec.OpMetadataIndex))
	s.summaryRecs = d.FooterIdx - d.DataEndIdx - 1
	return s
}

func decodeWritten(c WKCase) ([]byte, *mcap.Writer, *specdec.File, error) {
	file, mw, err := mc.WriteBytes(&c.W, c.K)
	if err != nil {
		return nil, nil, nil, pk.Failf("write-error", "writer rejected a well-formed call sequence: %v", err)
	}
	d, err := specdec.Decode(file, specOpts(c.K))
	if err != nil {
		return file, mw, nil, pk.Failf("grammar", "reference decoder rejects the file: %v", err)
	}
	return file, mw, d, nil
}

func checkC05(c WKCase, st *stats.Collector) error {
	_, mw, d, err := decodeWritten(c)
	if err != nil {
		return err
	}
	is := specdec.Validate(d, validateOpts(c.K))
	for _, n := range filterIssues(is, "note") {
		st.Note(n.Msg)
	}
	bad := filterIssues(is, "grammar", "pointer")
	bad = append(bad, presenceIssues(&c.W, c.K, d, mw)...)
	if len(bad) > 0 {
		return pk.Failf(bad[0].Cat, "%s", pk.JoinIssues(bad, 6))
	}
	sh := shapeOf(d)
	nontrivial := (sh.nChunks >= 2 && sh.maxChannelsInChunk >= 2) || sh.attIdx+sh.mdIdx > 0
	classes := []string{"compression=" + c.K.Compression, fmt.Sprintf("chunked=%v", c.K.Chunked)}
	if sh.schemaOnlyChunks > 0 {
		classes = append(classes, "has-message-free-chunk")
	}
	if sh.nChunks >= 2 {
		classes = append(classes, "chunks>=2")
	}
	if sh.attIdx > 0 {
		classes = append(classes, "attachment-index")
	}
	if sh.mdIdx > 0 {
		classes = append(classes, "metadata-index")
	}
	if c.K.SkipSummaryOffsets {
		classes = append(classes, "no-summary-offsets")
	}
	st.Class("records-validated", int64(len(d.Flat(true))))
	st.Case(wl.Hash(c), nontrivial, 1, classes...)
	if nontrivial && st.WantSample() {
		st.Sample(WKCase{W: c.W.Trunc(24), K: c.K})
	}
	return nil
}

func checkC06(c WKCase, st *stats.Collector) error {
	_, _, d, err := decodeWritten(c)
	if err != nil {
		return err
	}
	is := filterIssues(specdec.Validate(d, validateOpts(c.K)), "crc")
	if len(is) > 0 {
		return pk.Failf("crc", "IncludeCRC=%v: %s", c.K.IncludeCRC, pk.JoinIssues(is, 6))
	}
	sh := shapeOf(d)
	nAtt := len(d.Data(specdec.OpAttachment))
	nontrivial := c.K.IncludeCRC && sh.nChunks >= 1 && sh.summaryRecs > 0
	classes := []string{fmt.Sprintf("crc=%v", c.K.IncludeCRC), "compression=" + c.K.Compression}
	if nAtt > 0 {
		classes = append(classes, "has-attachment")
	}
	if c.K.SkipMagic {
		classes = append(classes, "skipmagic")
	}
	st.Class("crc-fields-checked", int64(2+sh.nChunks+nAtt))
	st.Case(wl.Hash(c), nontrivial, 1, classes...)
	if nontrivial && st.WantSample() {
		st.Sample(WKCase{W: c.W.Trunc(24), K: c.K})
	}
	return nil
}

func TestC05(t *testing.T) {
	pk.Run(t, "C05", genWK(wl.GenParams{}, wl.CfgParams{}), checkC05)
}

func TestC06(t *testing.T) {
	pk.Run(t, "C06", genWK(wl.GenParams{}, wl.CfgParams{}), checkC06)
}
