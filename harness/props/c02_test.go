package props

import (
	"bytes"
	"errors"
	"fmt"
	"io"
	"sort"
	"testing"

	"github.com/foxglove/mcap/go/mcap"
	"pgregory.net/rapid"
	"verifharness/mc"
	"verifharness/pk"
	"verifharness/specdec"
	"verifharness/stats"
	"verifharness/wl"
)

type C02Case struct {
	W       wl.Workload
	K       wl.Config
	Stratum string // "A" indexed-capable, "B" everything else
}

func genC02(t *rapid.T) C02Case {
	var k wl.Config
	stratum := "A"
	if rapid.IntRange(0, 9).Draw(t, "stratum") < 6 {
		k = wl.GenConfig(t, wl.CfgParams{Indexed: true, SmallChunks: rapid.Bool().Draw(t, "small")})
	} else {
		stratum = "B"
		k = wl.GenConfig(t, wl.CfgParams{NoCustom: true, NoSkipMagic: true, SmallChunks: rapid.Bool().Draw(t, "small")})
		if k.IndexedCapable() {
			// make it a genuine stratum-B configuration by construction
			switch rapid.IntRange(0, 3).Draw(t, "b-kind") {
			case 0:
				k.Chunked = false
			case 1:
				k.SkipChunkIndex = true
			case 2:
				k.SkipRepeatedChannelInfos = true
			default:
				k.SkipRepeatedSchemas = true
			}
		}
	}
	return C02Case{W: wl.GenWorkload(t, wl.GenParams{ChunkHint: k.ChunkSize, NoLong: true, NoMaxTime: true}), K: k, Stratum: stratum}
}

func eqTriple(a, b mc.Triple) bool {
	return pk.EqMessage(a.M, b.M) && pk.EqChannel(a.C, b.C) && pk.EqSchema(a.S, b.S)
}

func tripleKey(t mc.Triple) string { return string(mustJSON(t)) }

func sameMultiset(a, b []mc.Triple) bool {
	if len(a) != len(b) {
		return false
	}
	ka := make([]string, len(a))
	kb := make([]string, len(b))
	for i := range a {
		ka[i], kb[i] = tripleKey(a[i]), tripleKey(b[i])
	}
	sort.Strings(ka)
	sort.Strings(kb)
	for i := range ka {
		if ka[i] != kb[i] {
			return false
		}
	}
	return true
}

func eqMetaList(a, b []*wl.Metadata) bool {
	if len(a) != len(b) {
		return false
	}
	for i := range a {
		if !pk.EqMetadata(a[i], b[i]) {
			return false
		}
	}
	return true
}

func checkC02(c C02Case, st *stats.Collector) error {
	w, k := &c.W, c.K
	file, _, err := mc.WriteBytes(w, k)
	if err != nil {
		return pk.Failf("write-error", "writer rejected a well-formed call sequence: %v", err)
	}
	scan := mc.ReadMessages(bytes.NewReader(file), true, false, 0, mcap.UsingIndex(false))
	if !scan.Clean() {
		return pk.Failf("scan-error", "sequential scan failed: panic=%q open=%v err=%v", scan.Panic, scan.OpenErr, scan.Err)
	}
	allMeta := w.Metadatas()
	canon := func(in []*wl.Metadata) []*wl.Metadata { return in }
	if !eqMetaList(scan.Meta, canon(allMeta)) {
		return pk.Failf("metadata-callback", "sequential read delivered %d metadata records to the callback, file has %d (or contents differ)", len(scan.Meta), len(allMeta))
	}
	if err := compareDefaultWindow(st, "C02", "sequential scan", scan.Items, w.Messages(), nil); err != nil {
		return err
	}
	indexedMeta := allMeta
	if k.SkipMetadataIndex {
		indexedMeta = nil
	}
	variants := []struct {
		name string
		opts []mcap.ReadOpt
		ord  mcap.ReadOrder
	}{
		{"Messages()", nil, mcap.FileOrder},
		{"UsingIndex(true)", []mcap.ReadOpt{mcap.UsingIndex(true)}, mcap.FileOrder},
		{"InOrder(FileOrder)", []mcap.ReadOpt{mcap.InOrder(mcap.FileOrder)}, mcap.FileOrder},
		{"InOrder(LogTimeOrder)", []mcap.ReadOpt{mcap.InOrder(mcap.LogTimeOrder)}, mcap.LogTimeOrder},
		{"InOrder(ReverseLogTimeOrder)", []mcap.ReadOpt{mcap.InOrder(mcap.ReverseLogTimeOrder)}, mcap.ReverseLogTimeOrder},
	}
	// The "index enabled" clause needs an index to exist: a file without any chunk record has no
	// chunk index whatever the configuration, and falls under the fall-back-or-error clause.
	d, err := specdec.Decode(file, specOpts(k))
	if err != nil {
		return pk.Failf("specdec", "reference decoder rejects the file: %v", err)
	}
	strict := c.Stratum == "A" && len(d.Summary(specdec.OpChunkIndex)) > 0 && len(d.Summary(specdec.OpChannel)) > 0
	fellBackOrFailed := 0
	for vi, v := range variants {
		// how the iterator is driven rotates over the variants: a new Message per item, one reused
		// Message (NextInto(msg)), the deprecated Next(buf), or mcap.Range
		res := mc.ReadMessagesMode(bytes.NewReader(file), (vi+int(wl.Hash(c)%4))%4, true, false, 0, v.opts...)
		if res.Panic != "" {
			return pk.Failf("panic", "%s panicked: %s", v.name, res.Panic)
		}
		failed := res.OpenErr != nil || !errors.Is(res.Err, io.EOF)
		if failed {
			fellBackOrFailed++
			if strict {
				return pk.Failf("indexed-error", "%s on an indexed file failed: open=%v err=%v after %d items", v.name, res.OpenErr, res.Err, len(res.Items))
			}
			// stratum B: an error is acceptable, but what came before it must be a prefix of the scan
			if v.ord == mcap.FileOrder {
				for i, it := range res.Items {
					if i >= len(scan.Items) || !eqTriple(it, scan.Items[i]) {
						return pk.Failf("prefix", "%s: item #%d before the error is not what the scan returns there", v.name, i)
					}
				}
			}
			continue
		}
		if v.ord == mcap.FileOrder {
			n := len(res.Items)
			if len(scan.Items) < n {
				n = len(scan.Items)
			}
			for i := 0; i < n; i++ {
				if !eqTriple(res.Items[i], scan.Items[i]) {
					return pk.Failf("indexed-differs", "%s: item #%d is %s, the scan returns %s", v.name, i, pk.Short(res.Items[i]), pk.Short(scan.Items[i]))
				}
			}
			if len(res.Items) != len(scan.Items) {
				return pk.Failf("indexed-count", "%s (stratum %s) ended cleanly with %d messages, the scan returns %d", v.name, c.Stratum, len(res.Items), len(scan.Items))
			}
		} else {
			if !sameMultiset(res.Items, scan.Items) {
				return pk.Failf("indexed-count", "%s (stratum %s) returned %d messages, not the same multiset as the scan's %d", v.name, c.Stratum, len(res.Items), len(scan.Items))
			}
			for i := 1; i < len(res.Items); i++ {
				a, b := res.Items[i-1].M.LogTime, res.Items[i].M.LogTime
				if (v.ord == mcap.LogTimeOrder && a > b) || (v.ord == mcap.ReverseLogTimeOrder && a < b) {
					return pk.Failf("order", "%s: log times not monotone at item #%d (%d then %d)", v.name, i, a, b)
				}
			}
		}
		if !eqMetaList(res.Meta, allMeta) && !eqMetaList(res.Meta, indexedMeta) {
			return pk.Failf("metadata-callback", "%s delivered %d metadata records to the callback; file has %d, %d of them indexed", v.name, len(res.Meta), len(allMeta), len(indexedMeta))
		}
	}
	// random access through Info's index entries
	rd, err := mcap.NewReader(bytes.NewReader(file))
	if err != nil {
		return pk.Failf("open", "NewReader: %v", err)
	}
	info, err := rd.Info()
	if err != nil {
		return pk.Failf("info", "Info: %v", err)
	}
	atts := w.Attachments()
	if !k.SkipAttachmentIndex && len(info.AttachmentIndexes) != len(atts) {
		return pk.Failf("attachment-index", "Info lists %d attachment indexes for %d attachments", len(info.AttachmentIndexes), len(atts))
	}
	for i, idx := range info.AttachmentIndexes {
		ar, err := rd.GetAttachmentReader(idx.Offset)
		if err != nil {
			return pk.Failf("attachment-fetch", "GetAttachmentReader(%d): %v", idx.Offset, err)
		}
		data, err := io.ReadAll(ar.Data())
		if err != nil {
			return pk.Failf("attachment-fetch", "reading attachment at %d: %v", idx.Offset, err)
		}
		want := atts[i]
		if ar.LogTime != want.LogTime || ar.CreateTime != want.CreateTime || ar.Name != want.Name || ar.MediaType != want.MediaType ||
			ar.DataSize != uint64(len(want.Data)) || !bytes.Equal(data, want.Data) {
			return pk.Failf("attachment-fetch", "attachment fetched at index entry #%d differs from written attachment %s", i, pk.Short(want))
		}
		cc, err1 := ar.ComputedCRC()
		pc, err2 := ar.ParsedCRC()
		if err1 != nil || err2 != nil || cc != pc || pc != attachmentCRC(want) {
			return pk.Failf("attachment-crc", "attachment #%d: computed %08x (%v) parsed %08x (%v) expected %08x", i, cc, err1, pc, err2, attachmentCRC(want))
		}
	}
	if !k.SkipMetadataIndex && len(info.MetadataIndexes) != len(allMeta) {
		return pk.Failf("metadata-index", "Info lists %d metadata indexes for %d metadata records", len(info.MetadataIndexes), len(allMeta))
	}
	for i, idx := range info.MetadataIndexes {
		md, err := rd.GetMetadata(idx.Offset)
		if err != nil {
			return pk.Failf("metadata-fetch", "GetMetadata(%d): %v", idx.Offset, err)
		}
		got := &wl.Metadata{Name: md.Name, Metadata: mc.SortKV(md.Metadata)}
		if !pk.EqMetadata(got, allMeta[i]) {
			return pk.Failf("metadata-fetch", "metadata fetched at index entry #%d is %s, written %s", i, pk.Short(got), pk.Short(allMeta[i]))
		}
	}
	// classification
	sh := shapeOf(d)
	attBetween := false
	seenChunk := false
	for i, r := range d.Records {
		if i >= d.DataEndIdx {
			break
		}
		if r.Op == specdec.OpChunk {
			if seenChunk && attBetween {
				break
			}
			seenChunk = true
		}
		if seenChunk && (r.Op == specdec.OpAttachment || r.Op == specdec.OpMetadata) {
			// counts only if another chunk follows
			for _, r2 := range d.Records[i:d.DataEndIdx] {
				if r2.Op == specdec.OpChunk {
					attBetween = true
				}
			}
		}
	}
	ms := w.Stats()
	chanNoMsg := len(w.Channels()) > len(ms.ChannelCounts)
	nontrivial := sh.nChunks >= 2 && (sh.schemaOnlyChunks > 0 || attBetween || chanNoMsg || k.SkipMessageIndexing)
	classes := []string{"stratum=" + c.Stratum, fmt.Sprintf("strict=%v", strict)}
	if c.Stratum == "B" {
		sub := "B:"
		switch {
		case !k.Chunked:
			sub += "unchunked"
		case k.SkipChunkIndex:
			sub += "no-chunk-index"
		default:
			if k.SkipRepeatedChannelInfos {
				sub += "no-channels"
			}
			if k.SkipRepeatedSchemas {
				sub += "no-schemas"
			}
			if k.SkipMessageIndexing {
				sub += "+no-msgidx"
			}
		}
		classes = append(classes, sub, fmt.Sprintf("B-variants-failed=%d", fellBackOrFailed))
	}
	if attBetween {
		classes = append(classes, "attachment-between-chunks")
	}
	if sh.schemaOnlyChunks > 0 {
		classes = append(classes, "message-free-chunk")
	}
	st.Case(wl.Hash(c), nontrivial || (c.Stratum == "B" && sh.nChunks >= 2), len(variants)+1, classes...)
	if nontrivial && st.WantSample() {
		st.Sample(C02Case{W: w.Trunc(16), K: k, Stratum: c.Stratum})
	}
	return nil
}

func TestC02(t *testing.T) {
	pk.Run(t, "C02", genC02, checkC02)
}
