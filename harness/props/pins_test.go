package props

import (
	"crypto/sha256"
	"encoding/hex"
	"os"
	"path/filepath"
	"testing"

	"verifharness/conf"
	"verifharness/specdec"
	"verifharness/specenc"
)

func repoDir() string {
	if r := os.Getenv("VERIF_REPO"); r != "" {
		return r
	}
	return "/repo"
}

// checkPins: the reference encoder reproduces every conformance binary (SHA-256 and size equal to
// the Git-LFS pointers), and the reference decoder accepts each of them.
func checkPins() (int, error) {
	n := 0
	for _, v := range conf.Variants() {
		w := v.W
		file, _, err := specenc.Encode(&w, specenc.ConformanceLayout(v.Features))
		if err != nil {
			return n, err
		}
		p, err := conf.ReadPointer(filepath.Join(conf.DataDir(repoDir()), v.BaseName, v.Name+".mcap"))
		if err != nil {
			return n, err
		}
		sum := sha256.Sum256(file)
		if hex.EncodeToString(sum[:]) != p.SHA256 || int64(len(file)) != p.Size {
			return n, pinErr{v.Name, len(file), p.Size}
		}
		if _, err := specdec.Decode(file, specdec.Options{}); err != nil {
			return n, err
		}
		n++
	}
	return n, nil
}

type pinErr struct {
	name string
	got  int
	want int64
}

func (e pinErr) Error() string {
	return "reference encoder does not reproduce " + e.name
}

func TestPins(t *testing.T) {
	n, err := checkPins()
	if err != nil {
		t.Fatalf("PIN-FAILURE after %d: %v", n, err)
	}
	if n != 416 {
		t.Fatalf("PIN-FAILURE: %d variants, expected 416", n)
	}
	t.Logf("pins: %d/416 conformance binaries reproduced", n)
}
