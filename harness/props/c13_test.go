package props

import (
	"bytes"
	"crypto/sha256"
	"encoding/hex"
	"encoding/json"
	"fmt"
	"runtime"
	"strings"
	"sync"
	"testing"
	"time"

	"github.com/foxglove/mcap/go/mcap"
	"pgregory.net/rapid"
	"verifharness/isolate"
	"verifharness/mc"
	"verifharness/pk"
	"verifharness/stats"
	"verifharness/wl"
)

type C13Case struct {
	W     wl.Workload
	K     wl.Config
	Perm1 uint64
	Perm2 uint64
	Procs bool // also sweep GOMAXPROCS
}

func genC13(t *rapid.T) C13Case {
	k := wl.GenConfig(t, wl.CfgParams{})
	if k.Chunked && k.ChunkSize > 4096 {
		k.ChunkSize = 4096
	}
	// "many channels": a third of the cases register 16-40 extra channels, most of which any single chunk does not touch
	many := 0
	if rapid.IntRange(0, 2).Draw(t, "many-channels?") == 0 {
		many = rapid.IntRange(16, 40).Draw(t, "many-channels")
	}
	w := wl.GenWorkload(t, wl.GenParams{ChunkHint: k.ChunkSize, NoLong: true, MaxMsgs: 40, MinChannels: rapid.IntRange(0, 5).Draw(t, "min-channels"), ManyChannels: many})
	return C13Case{W: w, K: k, Perm1: rapid.Uint64().Draw(t, "perm1"), Perm2: rapid.Uint64().Draw(t, "perm2"), Procs: rapid.IntRange(0, 3).Draw(t, "procs?") == 0}
}

// permuter returns a MapOrder that shuffles insertion order deterministically from a seed.
func permuter(seed uint64) mc.MapOrder {
	return func(in []wl.KV) []wl.KV {
		out := append([]wl.KV{}, in...)
		x := seed | 1
		for i := len(out) - 1; i > 0; i-- {
			x ^= x << 13
			x ^= x >> 7
			x ^= x << 17
			j := int(x % uint64(i+1))
			out[i], out[j] = out[j], out[i]
		}
		return out
	}
}

func writeWith(w *wl.Workload, k wl.Config, mo mc.MapOrder) ([]byte, error) {
	var buf bytes.Buffer
	mw, err := mcap.NewWriter(&buf, mc.Options(k))
	if err != nil {
		return nil, err
	}
	for _, c := range mc.Calls(w, mo, nil) {
		if err := c.Do(mw); err != nil {
			return nil, fmt.Errorf("%s: %w", c.Name, err)
		}
	}
	return buf.Bytes(), nil
}

// writeEntry runs in a worker process: it writes the workload it is sent and answers with the hash of the output.
func writeEntry(req isolate.Req) isolate.Resp {
	var c C13Case
	if err := json.Unmarshal(req.Input, &c); err != nil {
		return isolate.Resp{Text: "harness: " + err.Error()}
	}
	out, err := writeWith(&c.W, c.K, nil)
	if err != nil {
		return isolate.Resp{Text: "write: " + err.Error()}
	}
	h := sha256.Sum256(out)
	return isolate.Resp{Progress: uint32(len(out)), Text: "sha256:" + hex.EncodeToString(h[:])}
}

// writeInFreshProcess has a new process write the workload before it has done anything else with the library.
func writeInFreshProcess(c *C13Case) (string, int, error) {
	in, err := json.Marshal(c)
	if err != nil {
		return "", 0, err
	}
	w := &isolate.Worker{}
	defer w.Close()
	o := w.Call(isolate.Req{Entry: entryWrite, Input: in}, 60*time.Second, 600*time.Second)
	if o.Hang || o.Died || o.Status != 0 || !strings.HasPrefix(o.Text, "sha256:") {
		return "", 0, fmt.Errorf("worker: hang=%v died=%v %s %s", o.Hang, o.Died, o.ExitInfo, o.Text)
	}
	return strings.TrimPrefix(o.Text, "sha256:"), int(o.Progress), nil
}

// sharedOptions reports whether one *WriterOptions value may be handed to several live writers: a
// caller-supplied compressor is a single stateful object, sharing it is the caller's decision.
func sharedOptions(k wl.Config) bool {
	return k.Compression == "" || k.Compression == "zstd" || k.Compression == "lz4"
}

// writeInterleaved runs the same calls on n writers created from ONE options value, alternating between them.
func writeInterleaved(w *wl.Workload, opts *mcap.WriterOptions, n int) ([][]byte, error) {
	bufs := make([]*bytes.Buffer, n)
	ws := make([]*mcap.Writer, n)
	for i := range ws {
		bufs[i] = &bytes.Buffer{}
		mw, err := mcap.NewWriter(bufs[i], opts)
		if err != nil {
			return nil, err
		}
		ws[i] = mw
	}
	calls := make([][]mc.Call, n)
	for i := range calls {
		calls[i] = mc.Calls(w, nil, nil)
	}
	for j := range calls[0] {
		for i := range ws {
			if err := calls[i][j].Do(ws[i]); err != nil {
				return nil, fmt.Errorf("writer %d, %s: %w", i, calls[i][j].Name, err)
			}
		}
	}
	out := make([][]byte, n)
	for i := range bufs {
		out[i] = bufs[i].Bytes()
	}
	return out, nil
}

func maxKeys(w *wl.Workload) int {
	m := 0
	for _, o := range w.Ops {
		if o.C != nil && len(o.C.Metadata) > m {
			m = len(o.C.Metadata)
		}
		if o.D != nil && len(o.D.Metadata) > m {
			m = len(o.D.Metadata)
		}
	}
	return m
}

func checkC13(c C13Case, st *stats.Collector) error {
	ref, err := writeWith(&c.W, c.K, nil)
	if err != nil {
		return pk.Failf("write-error", "writer rejected a well-formed call sequence: %v", err)
	}
	h := sha256.Sum256(ref)
	evals := 1
	for i, seed := range []uint64{c.Perm1, c.Perm2} {
		out, err := writeWith(&c.W, c.K, permuter(seed))
		evals++
		if err != nil {
			return pk.Failf("write-error", "repeat %d: %v", i+1, err)
		}
		if sha256.Sum256(out) != h {
			return pk.Failf("nondeterministic", "output differs when the same calls are repeated with maps built in another insertion order (repeat %d: %d vs %d bytes, first difference at %d)", i+1, len(out), len(ref), firstDiff(out, ref))
		}
	}
	if wl.Hash(c)%3 == 0 {
		// the output is a function of options and calls, not of what this process did before: a new process
		// that writes this workload as its first act must produce the same bytes as this one, which has written
		// (and read) hundreds of other files by now
		fresh, n, err := writeInFreshProcess(&c)
		evals++
		if err != nil {
			return pk.Failf("harness", "fresh-process write: %v", err)
		}
		if fresh != hex.EncodeToString(h[:]) {
			return pk.Failf("nondeterministic", "a fresh process writes %d bytes with sha256 %s for these calls, this process (which has written other files before) %d bytes with %x", n, fresh, len(ref), h)
		}
	}
	if c.Procs {
		old := runtime.GOMAXPROCS(0)
		defer runtime.GOMAXPROCS(old)
		for _, n := range []int{1, 2, 4, 16} {
			runtime.GOMAXPROCS(n)
			out, err := writeWith(&c.W, c.K, nil)
			evals++
			if err != nil {
				return pk.Failf("write-error", "GOMAXPROCS=%d: %v", n, err)
			}
			if sha256.Sum256(out) != h {
				return pk.Failf("nondeterministic", "output differs under GOMAXPROCS=%d (first difference at byte %d)", n, firstDiff(out, ref))
			}
		}
	}
	if sharedOptions(c.K) {
		// other writers alive at the same time, created from the very same options value
		opts := mc.Options(c.K)
		outs, err := writeInterleaved(&c.W, opts, 2)
		evals += 2
		if err != nil {
			return pk.Failf("write-error", "two writers created from one options value, calls interleaved: %v", err)
		}
		for i, out := range outs {
			if sha256.Sum256(out) != h {
				return pk.Failf("nondeterministic", "writer %d of two created from one *WriterOptions (calls interleaved) produced different bytes than a writer used alone (%d vs %d bytes, first difference at %d)", i, len(out), len(ref), firstDiff(out, ref))
			}
		}
		// and the options value is still good for a writer created after those two
		var buf bytes.Buffer
		mw, err := mcap.NewWriter(&buf, opts)
		if err == nil {
			for _, cl := range mc.Calls(&c.W, nil, nil) {
				if err = cl.Do(mw); err != nil {
					break
				}
			}
		}
		evals++
		if err != nil {
			return pk.Failf("write-error", "third writer from the same options value: %v", err)
		}
		if sha256.Sum256(buf.Bytes()) != h {
			return pk.Failf("nondeterministic", "a writer created from an options value that two earlier writers had used produced different bytes (first difference at %d)", firstDiff(buf.Bytes(), ref))
		}
	}
	mk := maxKeys(&c.W)
	nontrivial := mk >= 3 && (c.K.Compression == "zstd" || c.K.Compression == "lz4") && c.K.Chunked
	classes := []string{"compression=" + c.K.Compression}
	if mk >= 3 {
		classes = append(classes, "map>=3keys")
	}
	if c.Procs {
		classes = append(classes, "gomaxprocs-sweep")
	}
	if len(c.W.Channels()) >= 4 {
		classes = append(classes, "channels>=4")
	}
	if len(c.W.Channels()) >= 16 {
		classes = append(classes, "channels>=16")
	}
	st.Case(wl.Hash(c), nontrivial, evals, classes...)
	if nontrivial && st.WantSample() {
		st.Sample(C13Case{W: c.W.Trunc(16), K: c.K, Perm1: c.Perm1, Perm2: c.Perm2, Procs: c.Procs})
	}
	return nil
}

func firstDiff(a, b []byte) int {
	n := len(a)
	if len(b) < n {
		n = len(b)
	}
	for i := 0; i < n; i++ {
		if a[i] != b[i] {
			return i
		}
	}
	return n
}

// ---- concurrent batches

type C13Batch struct {
	Cases []WKCase
}

func genC13Batch(t *rapid.T) C13Batch {
	var b C13Batch
	for i := 0; i < 16; i++ {
		k := wl.GenConfig(t, wl.CfgParams{NoSkipMagic: true})
		if k.Chunked && k.ChunkSize > 1024 {
			k.ChunkSize = 1024
		}
		if k.Compression == "zstd" && k.Level >= 2 {
			k.Level = 1 // the "better"/"best" encoders take ~100 ms per writer under the race detector
		}
		b.Cases = append(b.Cases, WKCase{W: wl.GenWorkload(t, wl.GenParams{ChunkHint: k.ChunkSize, NoLong: true, MaxMsgs: 25, MinMsgs: 3, MaxPayload: 600}), K: k})
	}
	return b
}

func checkC13Batch(b C13Batch, st *stats.Collector) error {
	refs := make([][32]byte, len(b.Cases))
	for i := range b.Cases {
		out, err := writeWith(&b.Cases[i].W, b.Cases[i].K, nil)
		if err != nil {
			return pk.Failf("write-error", "case %d: %v", i, err)
		}
		refs[i] = sha256.Sum256(out)
	}
	errs := make([]error, len(b.Cases))
	var wg sync.WaitGroup
	start := make(chan struct{})
	for i := range b.Cases {
		wg.Add(1)
		go func(i int) {
			defer wg.Done()
			defer func() {
				if x := recover(); x != nil {
					errs[i] = pk.Failf("panic", "goroutine %d: %v", i, x)
				}
			}()
			<-start
			c := b.Cases[i]
			for rep := 0; rep < 3; rep++ {
				out, err := writeWith(&c.W, c.K, permuter(uint64(i*7+rep)))
				if err != nil {
					errs[i] = pk.Failf("write-error", "goroutine %d: %v", i, err)
					return
				}
				if sha256.Sum256(out) != refs[i] {
					errs[i] = pk.Failf("nondeterministic-concurrent", "goroutine %d: output written while 15 other writers/readers run differs from the sequential reference", i)
					return
				}
				custom := c.K.Compression == "custom"
				lr := mc.LexAll(bytes.NewReader(out), mc.LexParams{Custom: custom, AttCRC: true, ValidateCRC: rep%2 == 0}, false)
				if !lr.Clean() {
					errs[i] = pk.Failf("read-concurrent", "goroutine %d: lexer on own output: %v %v %s", i, lr.OpenErr, lr.Err, lr.Panic)
					return
				}
				if err := checkSequential(&c.W, c.K, &lr, fmt.Sprintf("goroutine %d lexer", i)); err != nil {
					errs[i] = err
					return
				}
				if !custom {
					ir := mc.ReadMessages(bytes.NewReader(out), false, false, 0, mcap.InOrder(mcap.FileOrder))
					if ir.Panic != "" || ir.OpenErr != nil {
						errs[i] = pk.Failf("read-concurrent", "goroutine %d: reader on own output: %v %s", i, ir.OpenErr, ir.Panic)
						return
					}
				}
			}
		}(i)
	}
	// four more goroutines write case 0's calls through writers created from ONE options value
	var sharedErrs [4]error
	if sharedOptions(b.Cases[0].K) {
		opts := mc.Options(b.Cases[0].K)
		for g := 0; g < 4; g++ {
			wg.Add(1)
			go func(g int) {
				defer wg.Done()
				defer func() {
					if x := recover(); x != nil {
						sharedErrs[g] = pk.Failf("panic", "goroutine sharing an options value: %v", x)
					}
				}()
				<-start
				for rep := 0; rep < 3; rep++ {
					var buf bytes.Buffer
					mw, err := mcap.NewWriter(&buf, opts)
					if err == nil {
						for _, cl := range mc.Calls(&b.Cases[0].W, nil, nil) {
							if err = cl.Do(mw); err != nil {
								break
							}
						}
					}
					if err != nil {
						sharedErrs[g] = pk.Failf("write-error", "goroutine sharing an options value: %v", err)
						return
					}
					if sha256.Sum256(buf.Bytes()) != refs[0] {
						sharedErrs[g] = pk.Failf("nondeterministic-concurrent", "a writer created from a *WriterOptions value that three other goroutines use for their writers at the same time produced different bytes than the sequential reference")
						return
					}
				}
			}(g)
		}
	}
	close(start)
	wg.Wait()
	for _, e := range errs {
		if e != nil {
			return e
		}
	}
	for _, e := range sharedErrs {
		if e != nil {
			return e
		}
	}
	st.Case(wl.Hash(b), true, 16*3, "concurrent-batch-of-16")
	if st.WantSample() {
		cs := []wl.Config{}
		for _, c := range b.Cases {
			cs = append(cs, c.K)
		}
		st.Sample(map[string]any{"concurrent_batch_configs": cs[:4], "workloads": 16})
	}
	return nil
}

func TestC13(t *testing.T) {
	pk.Run(t, "C13", genC13, checkC13)
}

func TestC13Concurrent(t *testing.T) {
	pk.Run(t, "C13c", genC13Batch, checkC13Batch)
}
