package props

import (
	"bytes"
	"errors"
	"fmt"
	"io"
	"os"
	"path/filepath"
	"sort"
	"sync"
	"testing"

	"github.com/foxglove/mcap/go/mcap"
	"pgregory.net/rapid"
	"verifharness/mc"
	"verifharness/pk"
	"verifharness/pyw"
	"verifharness/specdec"
	"verifharness/stats"
	"verifharness/wl"
)

var (
	pyWorker *pyw.Worker
	pyMu     sync.Mutex
)

func python() *pyw.Worker {
	pyMu.Lock()
	defer pyMu.Unlock()
	if pyWorker == nil {
		pyWorker = &pyw.Worker{}
	}
	return pyWorker
}

func scratchFile(name string) string {
	d := os.Getenv("VERIF_SCRATCH_DIR")
	if d == "" {
		d = os.TempDir()
	}
	return filepath.Join(d, fmt.Sprintf("%s-%d-%s", name, os.Getpid(), os.Getenv("VERIF_SHARD")))
}

// ---- Go writes, Python reads

func genC16(t *rapid.T) WKCase {
	k := wl.GenConfig(t, wl.CfgParams{Compressions: []string{""}, NoSkipMagic: true, SmallChunks: rapid.Bool().Draw(t, "small")})
	w := wl.GenWorkload(t, wl.GenParams{ChunkHint: k.ChunkSize, NoLong: true, MaxMsgs: 40})
	// one case in 40 carries a message of 1.1-2.5 MiB that is not the last one: larger than any multiple of the
	// small chunk sizes and than typical internal buffer thresholds
	if rapid.IntRange(0, 39).Draw(t, "big-message?") == 0 {
		var idx []int
		for i, o := range w.Ops {
			if o.M != nil {
				idx = append(idx, i)
			}
		}
		if len(idx) >= 2 {
			i := idx[rapid.IntRange(0, len(idx)-2).Draw(t, "big-message-at")]
			w.Ops[i].M.Data = wl.Fill(rapid.IntRange(1100<<10, 2500<<10).Draw(t, "big-message-size"), rapid.Uint64().Draw(t, "big-message-seed"))
		}
	}
	// one case in 10 is a recording without message index records whose chunks hold runs of equal log times that
	// straddle chunk boundaries: chunks are then adjacent in the file, and the time-ordered readers have to break
	// ties between a chunk that is still to be opened and the messages of its neighbour
	if rapid.IntRange(0, 9).Draw(t, "adjacent-chunks-with-ties?") == 0 {
		k.Chunked, k.SkipMessageIndexing, k.SkipChunkIndex, k.SkipRepeatedSchemas, k.SkipRepeatedChannelInfos = true, true, false, false, false
		k.ChunkSize = int64(rapid.SampledFrom([]int{80, 100, 160, 300}).Draw(t, "tie-chunk-size"))
		w = wl.Workload{Profile: w.Profile, Library: w.Library}
		w.Ops = append(w.Ops, wl.Op{C: &wl.Channel{ID: 0, Topic: "/a"}})
		n := rapid.IntRange(6, 24).Draw(t, "tie-messages")
		tm := uint64(rapid.IntRange(0, 3).Draw(t, "tie-base"))
		for i := 0; i < n; i++ {
			// mostly the same time, now and then one step on (or back)
			switch rapid.IntRange(0, 5).Draw(t, "tie-step") {
			case 0:
				tm++
			case 1:
				if tm > 0 {
					tm--
				}
			}
			w.Ops = append(w.Ops, wl.Op{M: &wl.Message{ChannelID: 0, Sequence: uint32(i), LogTime: tm, PublishTime: tm, Data: wl.Fill(rapid.SampledFrom([]int{0, 0, 10, 60}).Draw(t, "tie-size"), uint64(i)+1)}})
		}
	}
	return WKCase{W: w, K: k}
}

func pyTriples(label string, got []pyw.Rec) []mc.Triple {
	out := make([]mc.Triple, len(got))
	for i := range got {
		out[i] = mc.Triple{S: got[i].Schema.AsSchema(), C: got[i].Channel.AsChannel(), M: got[i].AsMessage()}
	}
	return out
}

func checkPyStats(label string, r *pyw.Rec, w *wl.Workload, nChunks int) error {
	ms := w.Stats()
	cm := map[uint16]uint64{}
	for k, v := range r.ChannelMessageCounts {
		var id uint16
		fmt.Sscan(k, &id)
		cm[id] = v
	}
	got := aggr{r.MessageCount, r.SchemaCount, r.ChannelCount, r.AttachmentCount, r.MetadataCount, r.ChunkCount, r.MessageStartTime, r.MessageEndTime, countsString(cm)}
	want := aggr{ms.MessageCount, uint64(ms.SchemaCount), uint64(ms.ChannelCount), uint64(ms.AttachmentCount), uint64(ms.MetadataCount), uint64(nChunks), ms.MinTime, ms.MaxTime, countsString(ms.ChannelCounts)}
	if got != want {
		return pk.Failf("py-statistics", "%s: statistics %+v, written content has %+v", label, got, want)
	}
	return nil
}

func checkC16(c WKCase, st *stats.Collector) error {
	w, k := &c.W, c.K
	file, _, err := mc.WriteBytes(w, k)
	if err != nil {
		return pk.Failf("write-error", "writer rejected a well-formed call sequence: %v", err)
	}
	d, err := specdec.Decode(file, specOpts(k))
	if err != nil {
		return pk.Failf("specdec", "reference decoder rejects the file: %v", err)
	}
	path := scratchFile("c16-go.mcap")
	if err := os.WriteFile(path, file, 0o644); err != nil {
		return pk.Failf("harness", "%v", err)
	}
	defer os.Remove(path)
	r, err := python().Read(path)
	if err != nil {
		return pk.Failf("harness", "pyworker: %v", err)
	}
	if r.Stream.Error != nil {
		return pk.Failf("py-stream-error", "Python StreamReader(validate_crcs=True) failed on a Go-written file: %s", *r.Stream.Error)
	}
	// streamed content = model
	recs := r.Stream.Records
	if len(recs) == 0 || recs[0].T != "header" || recs[0].Profile != w.Profile || recs[0].Library != expectedLibrary(w, k) {
		return pk.Failf("py-header", "Python reads header %s", pk.Short(recs))
	}
	var gotS []*wl.Schema
	var gotC []*wl.Channel
	var wantS []*wl.Schema
	var wantC []*wl.Channel
	for _, o := range w.Ops {
		if o.S != nil {
			wantS = append(wantS, o.S)
		}
		if o.C != nil {
			wantC = append(wantC, o.C)
		}
	}
	wantM, wantA, wantD := w.Messages(), w.Attachments(), w.Metadatas()
	mi, ai, di := 0, 0, 0
	chn := map[uint16]*wl.Channel{}
	for i := range recs[1:] {
		rc := &recs[1+i]
		switch rc.T {
		case "schema":
			gotS = append(gotS, rc.AsSchema())
		case "channel":
			gotC = append(gotC, rc.AsChannel())
			chn[rc.ID] = rc.AsChannel()
		case "message":
			if mi >= len(wantM) || !pk.EqMessage(rc.AsMessage(), wantM[mi].M) {
				return pk.Failf("py-message", "Python streams message #%d as %s; written: %s", mi, pk.Short(rc.AsMessage()), pk.Short(safeMsg(wantM, mi)))
			}
			if !pk.EqChannel(chn[rc.ChannelID], wantM[mi].C) {
				return pk.Failf("py-binding", "Python: message #%d is preceded by channel %s, written with %s", mi, pk.Short(chn[rc.ChannelID]), pk.Short(wantM[mi].C))
			}
			mi++
		case "attachment":
			if ai >= len(wantA) {
				return pk.Failf("py-attachment", "Python streams more attachments than written")
			}
			a, wa := rc.AsAttachment(), wantA[ai]
			if a.LogTime != wa.LogTime || a.CreateTime != wa.CreateTime || a.Name != wa.Name || a.MediaType != wa.MediaType || !bytes.Equal(a.Data, wa.Data) {
				return pk.Failf("py-attachment", "Python streams attachment #%d as %s; written %s", ai, pk.Short(a), pk.Short(wa))
			}
			ai++
		case "metadata":
			if di >= len(wantD) || !pk.EqMetadata(rc.AsMetadata(), wantD[di]) {
				return pk.Failf("py-metadata", "Python streams metadata #%d as %s", di, pk.Short(rc.AsMetadata()))
			}
			di++
		}
	}
	if mi != len(wantM) || ai != len(wantA) || di != len(wantD) {
		return pk.Failf("py-missing", "Python streamed %d/%d messages, %d/%d attachments, %d/%d metadata", mi, len(wantM), ai, len(wantA), di, len(wantD))
	}
	if err := multisetSchemas(gotS, wantS); err != nil {
		return pk.Failf("py-schemas", "Python stream: %v", err)
	}
	if err := multisetChannels(gotC, wantC); err != nil {
		return pk.Failf("py-channels", "Python stream: %v", err)
	}
	nChunks := len(d.Data(specdec.OpChunk))
	if !k.SkipStatistics {
		if r.Stream.Statistics == nil {
			return pk.Failf("py-statistics", "Python stream saw no statistics record")
		}
		if err := checkPyStats("Python stream", r.Stream.Statistics, w, nChunks); err != nil {
			return err
		}
	}
	// seeking reader: compared when the summary carries what it relies on
	sk := &r.Seeking
	indexed := len(d.Summary(specdec.OpChunkIndex)) > 0 && len(d.Summary(specdec.OpChannel)) > 0 && (len(d.Summary(specdec.OpSchema)) > 0 || len(w.Schemas()) == 0)
	seekChecked := false
	if sk.Error != nil {
		if indexed {
			return pk.Failf("py-seeking-error", "Python SeekingReader failed on an indexed Go-written file: %s", *sk.Error)
		}
		st.Note("python-seeking-reader-error-on-file-without-usable-index")
	} else {
		if sk.Header == nil || sk.Header.Profile != w.Profile || sk.Header.Library != expectedLibrary(w, k) {
			return pk.Failf("py-header", "Python SeekingReader header %s", pk.Short(sk.Header))
		}
		if indexed {
			seekChecked = true
			pl := placementOfBy(d)
			if err := compareTriples("Python SeekingReader, file order", pyTriples("", sk.FileOrder), wantM); err != nil {
				return err
			}
			if err := checkSelectionByIndex("Python SeekingReader, log-time order", pyTriples("", sk.LogTime), wantM, pl, false); err != nil {
				return err
			}
			if err := checkSelectionByIndex("Python SeekingReader, reverse order", pyTriples("", sk.Reverse), wantM, pl, true); err != nil {
				return err
			}
			if sk.Summary == nil {
				return pk.Failf("py-summary", "Python reports no summary for an indexed file")
			}
			if !k.SkipStatistics {
				if sk.Summary.Statistics == nil {
					return pk.Failf("py-statistics", "Python summary has no statistics")
				}
				if err := checkPyStats("Python summary", sk.Summary.Statistics, w, nChunks); err != nil {
					return err
				}
			}
			if sk.Summary.NChunkIndexes != nChunks {
				return pk.Failf("py-summary", "Python summary lists %d chunk indexes, file has %d chunks", sk.Summary.NChunkIndexes, nChunks)
			}
		}
		if sk.Summary != nil && !k.SkipAttachmentIndex {
			if len(sk.Attachments) != len(wantA) {
				return pk.Failf("py-attachment", "Python iter_attachments (via index) returns %d attachments, written %d", len(sk.Attachments), len(wantA))
			}
			for i := range wantA {
				a := sk.Attachments[i].AsAttachment()
				if a.LogTime != wantA[i].LogTime || a.CreateTime != wantA[i].CreateTime || a.Name != wantA[i].Name || a.MediaType != wantA[i].MediaType || !bytes.Equal(a.Data, wantA[i].Data) {
					return pk.Failf("py-attachment", "Python fetches attachment #%d through its index entry as %s; written %s", i, pk.Short(a), pk.Short(wantA[i]))
				}
			}
		}
		if sk.Summary != nil && !k.SkipMetadataIndex {
			if len(sk.Metadata) != len(wantD) {
				return pk.Failf("py-metadata", "Python iter_metadata (via index) returns %d records, written %d", len(sk.Metadata), len(wantD))
			}
			for i := range wantD {
				if !pk.EqMetadata(sk.Metadata[i].AsMetadata(), wantD[i]) {
					return pk.Failf("py-metadata", "Python fetches metadata #%d through its index entry as %s", i, pk.Short(sk.Metadata[i].AsMetadata()))
				}
			}
		}
	}
	chans := map[uint16]bool{}
	for _, m := range wantM {
		chans[m.M.ChannelID] = true
	}
	nontrivial := nChunks >= 2 && len(chans) >= 2 && len(wantA)+len(wantD) >= 1
	classes := []string{"direction=go-to-python", fmt.Sprintf("chunked=%v", k.Chunked)}
	if seekChecked {
		classes = append(classes, "seeking-reader-compared")
	}
	st.Case(wl.Hash(c), nontrivial, 2, classes...)
	if nontrivial && st.WantSample() {
		st.Sample(WKCase{W: w.Trunc(12), K: k})
	}
	return nil
}

func safeMsg(ms []wl.MsgRef, i int) any {
	if i < len(ms) {
		return ms[i].M
	}
	return "(none)"
}

// placement by message ordinal (the generic workload does not tag messages with unique sequence numbers)
type placementBy struct {
	chunkOf []int
}

func placementOfBy(d *specdec.File) placementBy {
	var p placementBy
	ci := 0
	for i, r := range d.Records {
		if d.DataEndIdx >= 0 && i >= d.DataEndIdx {
			break
		}
		switch r.Op {
		case specdec.OpChunk:
			for _, in := range r.Inner {
				if in.Op == specdec.OpMessage {
					p.chunkOf = append(p.chunkOf, ci)
				}
			}
			ci++
		case specdec.OpMessage:
			p.chunkOf = append(p.chunkOf, -1)
		}
	}
	return p
}

// checkSelectionByIndex: the time-ordered result is a permutation of all messages, monotone, and
// equal-time messages of one chunk keep (reverse) file order. Messages are matched by full content;
// identical duplicates are interchangeable.
func checkSelectionByIndex(label string, got []mc.Triple, want []wl.MsgRef, pl placementBy, reverse bool) error {
	if len(got) != len(want) {
		return pk.Failf("count", "%s: %d messages, expected %d", label, len(got), len(want))
	}
	keyOf := func(t mc.Triple) string { return string(mustJSON(t)) }
	pool := map[string][]int{}
	for i, m := range want {
		k := keyOf(mc.Triple{S: canonS(m.S), C: canonC(m.C), M: m.M})
		pool[k] = append(pool[k], i)
	}
	type ck struct {
		chunk int
		t     uint64
	}
	last := map[ck]int{}
	for i, g := range got {
		if i > 0 {
			a, b := got[i-1].M.LogTime, g.M.LogTime
			if (!reverse && a > b) || (reverse && a < b) {
				return pk.Failf("order", "%s: log time goes from %d to %d at item #%d", label, a, b, i)
			}
		}
		k := keyOf(mc.Triple{S: canonS(g.S), C: canonC(g.C), M: g.M})
		ids := pool[k]
		if len(ids) == 0 {
			return pk.Failf("content", "%s: item #%d %s is not a written message (or was returned too often)", label, i, pk.Short(g.M))
		}
		// take the candidate that keeps in-chunk order if possible
		pick := 0
		if reverse {
			pick = len(ids) - 1
		}
		id := ids[pick]
		pool[k] = append(append([]int{}, ids[:pick]...), ids[pick+1:]...)
		c := ck{pl.chunkOf[id], g.M.LogTime}
		if prev, ok := last[c]; ok && c.chunk >= 0 {
			if (!reverse && id < prev) || (reverse && id > prev) {
				return pk.Failf("tie-order", "%s: equal-time messages of chunk %d are not in (reverse) file order", label, c.chunk)
			}
		}
		last[c] = id
	}
	return nil
}

func canonS(s *wl.Schema) *wl.Schema {
	if s == nil {
		return nil
	}
	c := *s
	if c.Data == nil {
		c.Data = []byte{}
	}
	return &c
}

func canonC(c *wl.Channel) *wl.Channel {
	if c == nil {
		return nil
	}
	x := *c
	x.Metadata = wl.SortedKV(c.Metadata)
	if x.Metadata == nil {
		x.Metadata = []wl.KV{}
	}
	return &x
}

func TestC16(t *testing.T) {
	pk.Run(t, "C16", genC16, checkC16)
}

// ---- Python writes, Go reads

type C16PyCase struct {
	W wl.Workload
	O pyw.WriteOptions
}

func genC16Py(t *rapid.T) C16PyCase {
	o := pyw.WriteOptions{ChunkSize: rapid.SampledFrom([]int{1, 50, 300, 1024, 1 << 20}).Draw(t, "chunk-size"), RepeatChannels: rapid.IntRange(0, 3).Draw(t, "rch") != 0,
		RepeatSchemas: rapid.IntRange(0, 3).Draw(t, "rsh") != 0, UseChunking: rapid.IntRange(0, 3).Draw(t, "chunking") != 0, UseStatistics: rapid.Bool().Draw(t, "stats"),
		UseSummaryOffsets: rapid.Bool().Draw(t, "sum"), EnableCRCs: rapid.Bool().Draw(t, "crcs"), EnableDataCRCs: rapid.Bool().Draw(t, "data-crcs"),
		Output: rapid.SampledFrom([]string{"file", "file", "path", "raw", "bytesio"}).Draw(t, "py-output")}
	for _, n := range []string{"ATTACHMENT", "CHUNK", "MESSAGE", "METADATA"} {
		if rapid.IntRange(0, 3).Draw(t, "idx-"+n) != 0 {
			o.IndexTypes = append(o.IndexTypes, n)
		}
	}
	w := wl.GenWorkload(t, wl.GenParams{ChunkHint: int64(o.ChunkSize), NoLong: true, MaxMsgs: 40, PythonIDs: true, UniqueSeq: true, NoMaxTime: true})
	return C16PyCase{W: w, O: o}
}

func checkC16Py(c C16PyCase, st *stats.Collector) error {
	w := &c.W
	path := scratchFile("c16-py.mcap")
	defer os.Remove(path)
	if err := python().Write(path, w, c.O); err != nil {
		return pk.Failf("harness", "pyworker write: %v", err)
	}
	file, err := os.ReadFile(path)
	if err != nil {
		return pk.Failf("harness", "%v", err)
	}
	d, err := specdec.Decode(file, specdec.Options{})
	if err != nil {
		return pk.Failf("py-file-unreadable", "what the Python Writer (output kind %q) left behind after finish() and the caller's close() - %d bytes - is not a readable MCAP file: %v", c.O.Output, len(file), err)
	}
	// Go lexer: content = what Python was asked to write. Python's writer never emits schema/channel records that
	// no later message follows in a chunk (they only reach the summary), which is not charged to Go.
	for _, validate := range []bool{false, true} {
		lr := mc.LexAll(bytesReader(file), mc.LexParams{AttCRC: true, ValidateCRC: validate, MaxEvents: 200000}, false)
		if err := checkSequentialSubset(w, &lr, fmt.Sprintf("Go lexer(validate=%v) on a Python-written file", validate)); err != nil {
			return err
		}
	}
	all := w.Messages()
	r := mc.ReadMessages(bytesReader(file), true, false, 0, mcap.UsingIndex(false))
	if !r.Clean() {
		return pk.Failf("go-read-error", "Go non-indexed iterator on a Python-written file: panic=%q open=%v err=%v", r.Panic, r.OpenErr, r.Err)
	}
	if err := compareTriples("Go non-indexed iterator on a Python-written file", r.Items, all); err != nil {
		return err
	}
	if !eqMetaList(r.Meta, w.Metadatas()) {
		return pk.Failf("go-metadata", "Go sequential read delivers %d metadata records, Python wrote %d", len(r.Meta), len(w.Metadatas()))
	}
	usable := len(d.Summary(specdec.OpChunkIndex)) > 0 && len(d.Summary(specdec.OpChannel)) > 0 && c.O.RepeatSchemas
	pl := placementOf(d)
	for _, order := range []mcap.ReadOrder{mcap.FileOrder, mcap.LogTimeOrder, mcap.ReverseLogTimeOrder} {
		ir := mc.ReadMessages(bytesReader(file), false, false, 0, mcap.InOrder(order))
		if ir.Panic != "" {
			return pk.Failf("panic", "Go indexed read (order %d) of a Python-written file: %s", order, ir.Panic)
		}
		if ir.OpenErr != nil || !errors.Is(ir.Err, io.EOF) {
			if usable {
				return pk.Failf("go-indexed-error", "Go indexed read (order %d) fails on an indexed Python-written file: open=%v err=%v", order, ir.OpenErr, ir.Err)
			}
			continue
		}
		if usable || order == mcap.FileOrder {
			if err := checkSelection(fmt.Sprintf("Go indexed read (order %d) of a Python-written file", order), ir.Items, all, pl, order); err != nil {
				return err
			}
		}
	}
	rd, err := mcap.NewReader(bytesReader(file))
	if err != nil {
		return pk.Failf("go-open", "NewReader on a Python-written file: %v", err)
	}
	info, err := rd.Info()
	if err != nil {
		return pk.Failf("go-info", "Info on a Python-written file: %v", err)
	}
	if c.O.UseStatistics {
		if info.Statistics == nil {
			return pk.Failf("go-info", "Info.Statistics nil although Python wrote statistics")
		}
		ms := w.Stats()
		got := aggrOfStats(info.Statistics)
		want := aggr{ms.MessageCount, uint64(ms.SchemaCount), uint64(ms.ChannelCount), uint64(ms.AttachmentCount), uint64(ms.MetadataCount), uint64(len(d.Data(specdec.OpChunk))), ms.MinTime, ms.MaxTime, countsString(ms.ChannelCounts)}
		if got != want {
			return pk.Failf("go-statistics", "Go Info.Statistics on a Python-written file = %+v, content has %+v", got, want)
		}
	}
	if info.Header.Profile != w.Profile || info.Header.Library != w.Library {
		return pk.Failf("go-header", "Go reads header %+v, Python wrote (%q, %q)", info.Header, w.Profile, w.Library)
	}
	// random access to attachments and metadata through Python's index entries
	atts := w.Attachments()
	for i, idx := range info.AttachmentIndexes {
		ar, err := rd.GetAttachmentReader(idx.Offset)
		if err != nil {
			return pk.Failf("go-attachment", "GetAttachmentReader at Python's index entry: %v", err)
		}
		data, _ := io.ReadAll(ar.Data())
		if i >= len(atts) || !bytes.Equal(data, atts[i].Data) || ar.Name != atts[i].Name || ar.LogTime != atts[i].LogTime {
			return pk.Failf("go-attachment", "attachment #%d fetched through Python's index entry differs from what Python wrote", i)
		}
		cc, e1 := ar.ComputedCRC()
		pc, e2 := ar.ParsedCRC()
		if e1 != nil || e2 != nil || (pc != 0 && cc != pc) {
			return pk.Failf("go-attachment", "attachment #%d: CRC computed %08x (%v) parsed %08x (%v)", i, cc, e1, pc, e2)
		}
	}
	mds := w.Metadatas()
	for i, idx := range info.MetadataIndexes {
		md, err := rd.GetMetadata(idx.Offset)
		if err != nil || i >= len(mds) || !pk.EqMetadata(&wl.Metadata{Name: md.Name, Metadata: mc.SortKV(md.Metadata)}, mds[i]) {
			return pk.Failf("go-metadata", "metadata #%d fetched through Python's index entry: %v", i, err)
		}
	}
	if usable {
		// the same Reader goes on: one read per topic (in turn: file, log-time, reverse order), then everything in the
		// three orders - what a viewer does with a Python-recorded file it keeps open
		topicSeen := map[string]bool{}
		reads := 0
		drain := func(label string, want []wl.MsgRef, order mcap.ReadOrder, opts ...mcap.ReadOpt) error {
			it, err := rd.Messages(append(opts, mcap.InOrder(order))...)
			if err != nil {
				return pk.Failf("go-indexed-error", "%s: %v", label, err)
			}
			var items []mc.Triple
			for len(items) <= len(all)+4 {
				sc, ch, m, err := it.NextInto(nil)
				if err != nil {
					if !errors.Is(err, io.EOF) {
						return pk.Failf("go-indexed-error", "%s: %v after %d items", label, err, len(items))
					}
					break
				}
				items = append(items, mc.Triple{S: mc.FromSchema(sc), C: mc.FromChannel(ch), M: mc.FromMessage(m)})
			}
			return checkSelection(label, items, want, pl, order)
		}
		for _, m := range all {
			if topicSeen[m.C.Topic] || reads >= 3 {
				continue
			}
			topicSeen[m.C.Topic] = true
			order := mcap.ReadOrder(reads % 3)
			reads++
			if err := drain(fmt.Sprintf("Go read of topic %q (order %d) on a Reader kept open over a Python-written file (read #%d)", m.C.Topic, order, reads), wl.Select(all, []string{m.C.Topic}, 0, 0, true), order, mcap.WithTopics([]string{m.C.Topic})); err != nil {
				return err
			}
		}
		for _, order := range []mcap.ReadOrder{mcap.FileOrder, mcap.LogTimeOrder, mcap.ReverseLogTimeOrder} {
			if err := drain(fmt.Sprintf("Go indexed read (order %d) after %d per-topic reads on the same Reader over a Python-written file", order, reads), all, order); err != nil {
				return err
			}
		}
		info2, err := rd.Info()
		if err != nil || len(info2.ChunkIndexes) != len(d.Summary(specdec.OpChunkIndex)) {
			return pk.Failf("go-info", "Info after the reads on the same Reader: %v, %d chunk indexes, the file has %d", err, len(info2.ChunkIndexes), len(d.Summary(specdec.OpChunkIndex)))
		}
	}
	chans := map[uint16]bool{}
	for _, m := range all {
		chans[m.M.ChannelID] = true
	}
	nontrivial := len(d.Data(specdec.OpChunk)) >= 2 && len(chans) >= 2 && len(atts)+len(mds) >= 1
	classes := []string{"direction=python-to-go", fmt.Sprintf("chunking=%v", c.O.UseChunking)}
	if usable {
		classes = append(classes, "indexed-reads-compared")
	}
	st.Case(wl.Hash(c), nontrivial, 6, classes...)
	if nontrivial && st.WantSample() {
		st.Sample(C16PyCase{W: w.Trunc(12), O: c.O})
	}
	return nil
}

// checkSequentialSubset is C01's oracle for files of a producer that may omit schema/channel records
// nothing depends on: messages (with their bindings), attachments and metadata must match exactly;
// every schema/channel record read must be one that was written.
func checkSequentialSubset(w *wl.Workload, res *mc.LexResult, label string) error {
	// re-use the strict oracle on a workload from which unused trailing definitions are removed
	used := map[uint16]bool{}
	usedS := map[uint16]bool{}
	for _, m := range w.Messages() {
		used[m.M.ChannelID] = true
		if m.S != nil {
			usedS[m.S.ID] = true
		}
	}
	seenC, seenS := map[uint16]bool{}, map[uint16]bool{}
	for _, e := range res.Events {
		if e.Kind == "dataend" {
			break
		}
		if e.Kind == "channel" {
			seenC[e.C.ID] = true
		}
		if e.Kind == "schema" {
			seenS[e.S.ID] = true
		}
	}
	trimmed := wl.Workload{Profile: w.Profile, Library: w.Library}
	for _, o := range w.Ops {
		if o.C != nil && !seenC[o.C.ID] && !used[o.C.ID] {
			continue
		}
		if o.S != nil && !seenS[o.S.ID] && !usedS[o.S.ID] {
			continue
		}
		trimmed.Ops = append(trimmed.Ops, o)
	}
	sort.SliceStable(trimmed.Ops, func(i, j int) bool { return false })
	return checkSequentialOpts(&trimmed, wl.Config{OverrideLibrary: true}, res, label, true)
}

func TestC16Py(t *testing.T) {
	pk.Run(t, "C16p", genC16Py, checkC16Py)
}
