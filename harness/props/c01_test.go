package props

import (
	"bytes"
	"encoding/binary"
	"fmt"
	"hash/crc32"
	"strings"
	"testing"

	"github.com/foxglove/mcap/go/mcap"
	"pgregory.net/rapid"
	"verifharness/mc"
	"verifharness/pk"
	"verifharness/specdec"
	"verifharness/stats"
	"verifharness/wl"
)

type WKCase struct {
	W wl.Workload
	K wl.Config
}

func genWK(gp wl.GenParams, cp wl.CfgParams) func(t *rapid.T) WKCase {
	return func(t *rapid.T) WKCase {
		k := wl.GenConfig(t, cp)
		g := gp
		if g.ChunkHint == 0 {
			g.ChunkHint = k.ChunkSize
		}
		return WKCase{W: wl.GenWorkload(t, g), K: k}
	}
}

func specOpts(k wl.Config) specdec.Options {
	return specdec.Options{SkipMagic: k.SkipMagic, Decompress: map[string]func([]byte, uint64) ([]byte, error){wl.CustomCompression: mc.XorBytes, wl.CustomCompressionHdr: mc.XorHdrBytes}}
}

func expectedLibrary(w *wl.Workload, k wl.Config) string {
	if k.OverrideLibrary {
		return w.Library
	}
	lib := "mcap-go/" + strings.TrimPrefix(mcap.Version, "v")
	if w.Library != "" && w.Library != lib {
		lib += "; " + w.Library
	}
	return lib
}

func attachmentCRC(a *wl.Attachment) uint32 {
	var b bytes.Buffer
	var u [8]byte
	put64 := func(v uint64) { binary.LittleEndian.PutUint64(u[:], v); b.Write(u[:]) }
	putS := func(s string) { binary.LittleEndian.PutUint32(u[:4], uint32(len(s))); b.Write(u[:4]); b.WriteString(s) }
	put64(a.LogTime)
	put64(a.CreateTime)
	putS(a.Name)
	putS(a.MediaType)
	put64(uint64(len(a.Data)))
	b.Write(a.Data)
	return crc32.ChecksumIEEE(b.Bytes())
}

// checkSequential compares what a lexer run surfaced before DataEnd with the model.
func checkSequential(w *wl.Workload, k wl.Config, res *mc.LexResult, label string) error {
	return checkSequentialOpts(w, k, res, label, false)
}

// checkSequentialOpts: with allowRepeats, schema/channel records may be re-stated any number of
// times (a layout choice of the producer): sets are compared instead of multisets.
func checkSequentialOpts(w *wl.Workload, k wl.Config, res *mc.LexResult, label string, allowRepeats bool) error {
	if res.Panic != "" {
		return pk.Failf("panic", "%s: lexer panicked: %s", label, res.Panic)
	}
	if !res.Clean() {
		return pk.Failf("lex-error", "%s: lexer did not reach a clean end: open=%v err=%v after %d events", label, res.OpenErr, res.Err, len(res.Events))
	}
	evs := res.Events
	if len(evs) == 0 || evs[0].Kind != "header" {
		return pk.Failf("header", "%s: first token is not a header", label)
	}
	if evs[0].H.Profile != w.Profile {
		return pk.Failf("header", "%s: profile %q, written %q", label, evs[0].H.Profile, w.Profile)
	}
	if want := expectedLibrary(w, k); evs[0].H.Library != want {
		return pk.Failf("header", "%s: library %q, expected %q", label, pk.Short(evs[0].H.Library), pk.Short(want))
	}
	// multisets of schema/channel records, ordered lists of the rest
	var wantS []*wl.Schema
	var wantC []*wl.Channel
	for _, o := range w.Ops {
		if o.S != nil {
			wantS = append(wantS, o.S)
		}
		if o.C != nil {
			wantC = append(wantC, o.C)
		}
	}
	wantM := w.Messages()
	wantA := w.Attachments()
	wantD := w.Metadatas()
	var gotS []*wl.Schema
	var gotC []*wl.Channel
	mi, ai, di := 0, 0, 0
	sch := map[uint16]*wl.Schema{}
	chn := map[uint16]*wl.Channel{}
	for _, e := range evs[1:] {
		if e.Kind == "dataend" {
			break
		}
		switch e.Kind {
		case "schema":
			gotS = append(gotS, e.S)
			sch[e.S.ID] = e.S
		case "channel":
			gotC = append(gotC, e.C)
			chn[e.C.ID] = e.C
		case "message":
			if mi >= len(wantM) {
				return pk.Failf("extra-message", "%s: message #%d was never written: %s", label, mi, pk.Short(e.M))
			}
			want := wantM[mi]
			if !pk.EqMessage(e.M, want.M) {
				return pk.Failf("message-mismatch", "%s: message #%d is %s, written %s", label, mi, pk.Short(e.M), pk.Short(want.M))
			}
			c := chn[e.M.ChannelID]
			if !pk.EqChannel(c, want.C) {
				return pk.Failf("binding", "%s: message #%d is preceded by channel %s, written with %s", label, mi, pk.Short(c), pk.Short(want.C))
			}
			var s *wl.Schema
			if c.SchemaID != 0 {
				s = sch[c.SchemaID]
			}
			if !pk.EqSchema(s, want.S) {
				return pk.Failf("binding", "%s: message #%d bound to schema %s, written with %s", label, mi, pk.Short(s), pk.Short(want.S))
			}
			mi++
		case "attachment":
			if ai >= len(wantA) {
				return pk.Failf("extra-attachment", "%s: attachment #%d was never written", label, ai)
			}
			a, want := e.A, wantA[ai]
			if a.LogTime != want.LogTime || a.CreateTime != want.CreateTime || a.Name != want.Name || a.MediaType != want.MediaType ||
				a.DataSize != uint64(len(want.Data)) || !bytes.Equal(a.Data, want.Data) || a.ReadErr != "" {
				return pk.Failf("attachment-mismatch", "%s: attachment #%d is %s (readErr %q), written %s", label, ai, pk.Short(a.Attachment), a.ReadErr, pk.Short(want))
			}
			if a.ParsedErr != "" || a.ComputedErr != "" {
				return pk.Failf("attachment-crc", "%s: attachment #%d CRC accessors failed: %q %q", label, ai, a.ParsedErr, a.ComputedErr)
			}
			if exp := attachmentCRC(want); a.ParsedCRC != exp || a.ComputedCRC != exp {
				return pk.Failf("attachment-crc", "%s: attachment #%d stored crc %08x computed %08x expected %08x", label, ai, a.ParsedCRC, a.ComputedCRC, exp)
			}
			ai++
		case "metadata":
			if di >= len(wantD) {
				return pk.Failf("extra-metadata", "%s: metadata #%d was never written", label, di)
			}
			if !pk.EqMetadata(e.D, wantD[di]) {
				return pk.Failf("metadata-mismatch", "%s: metadata #%d is %s, written %s", label, di, pk.Short(e.D), pk.Short(wantD[di]))
			}
			di++
		}
	}
	if mi != len(wantM) || ai != len(wantA) || di != len(wantD) {
		return pk.Failf("missing", "%s: read %d/%d messages, %d/%d attachments, %d/%d metadata", label, mi, len(wantM), ai, len(wantA), di, len(wantD))
	}
	if allowRepeats {
		gotS, wantS = dedupSchemas(gotS), dedupSchemas(wantS)
		gotC, wantC = dedupChannels(gotC), dedupChannels(wantC)
	}
	if err := multisetSchemas(gotS, wantS); err != nil {
		return pk.Failf("schema-multiset", "%s: %v", label, err)
	}
	if err := multisetChannels(gotC, wantC); err != nil {
		return pk.Failf("channel-multiset", "%s: %v", label, err)
	}
	return nil
}

func dedupSchemas(in []*wl.Schema) []*wl.Schema {
	var out []*wl.Schema
outer:
	for _, s := range in {
		for _, o := range out {
			if pk.EqSchema(s, o) {
				continue outer
			}
		}
		out = append(out, s)
	}
	return out
}

func dedupChannels(in []*wl.Channel) []*wl.Channel {
	var out []*wl.Channel
outer:
	for _, s := range in {
		for _, o := range out {
			if pk.EqChannel(s, o) {
				continue outer
			}
		}
		out = append(out, s)
	}
	return out
}

func multisetSchemas(got, want []*wl.Schema) error {
	used := make([]bool, len(got))
outer:
	for _, w := range want {
		for i, g := range got {
			if !used[i] && pk.EqSchema(g, w) {
				used[i] = true
				continue outer
			}
		}
		return fmt.Errorf("written schema %s not found among the %d read", pk.Short(w), len(got))
	}
	for i, u := range used {
		if !u {
			return fmt.Errorf("read schema %s was never written", pk.Short(got[i]))
		}
	}
	return nil
}

func multisetChannels(got, want []*wl.Channel) error {
	used := make([]bool, len(got))
outer:
	for _, w := range want {
		for i, g := range got {
			if !used[i] && pk.EqChannel(g, w) {
				used[i] = true
				continue outer
			}
		}
		return fmt.Errorf("written channel %s not found among the %d read", pk.Short(w), len(got))
	}
	for i, u := range used {
		if !u {
			return fmt.Errorf("read channel %s was never written", pk.Short(got[i]))
		}
	}
	return nil
}

// checkNoAliasing re-parses the raw tokens kept from a lexer run after the whole read and compares
// them with what was parsed when each was returned.
func checkLexAliasing(res *mc.LexResult) error {
	j := 0
	for i, raw := range res.RawToks {
		for j < len(res.Events) && (res.Events[j].Kind == "attachment" || res.Events[j].Kind == "invalidchunk") {
			j++
		}
		if j >= len(res.Events) {
			break
		}
		ev, err := mc.ParseToken(res.RawTypes[i], raw)
		if err != nil || pk.Short(ev) != pk.Short(res.Events[j]) || string(mustJSON(ev)) != string(mustJSON(res.Events[j])) {
			return pk.Failf("aliasing", "token #%d changed after later reads: was %s, now %s (%v)", i, pk.Short(res.Events[j]), pk.Short(ev), err)
		}
		j++
	}
	return nil
}

func checkIterAliasing(res *mc.IterResult) error {
	for i := range res.OrigM {
		if !pk.EqMessage(mc.FromMessage(res.OrigM[i]), res.Items[i].M) {
			return pk.Failf("aliasing", "message #%d returned by the iterator changed after later reads: was %s, now %s", i, pk.Short(res.Items[i].M), pk.Short(mc.FromMessage(res.OrigM[i])))
		}
		if !pk.EqChannel(mc.FromChannel(res.OrigC[i]), res.Items[i].C) || !pk.EqSchema(mc.FromSchema(res.OrigS[i]), res.Items[i].S) {
			return pk.Failf("aliasing", "schema/channel returned with message #%d changed after later reads", i)
		}
	}
	return nil
}

// compareTriples checks an iterator result against the expected message list, element-wise.
func compareTriples(label string, got []mc.Triple, want []wl.MsgRef) error {
	n := len(got)
	if len(want) < n {
		n = len(want)
	}
	for i := 0; i < n; i++ {
		if !pk.EqMessage(got[i].M, want[i].M) {
			return pk.Failf("iter-message", "%s: item #%d is %s, expected %s (got %d items, expected %d)", label, i, pk.Short(got[i].M), pk.Short(want[i].M), len(got), len(want))
		}
		if !pk.EqChannel(got[i].C, want[i].C) {
			return pk.Failf("iter-binding", "%s: item #%d has channel %s, written with %s", label, i, pk.Short(got[i].C), pk.Short(want[i].C))
		}
		if !pk.EqSchema(got[i].S, want[i].S) {
			return pk.Failf("iter-binding", "%s: item #%d has schema %s, written with %s", label, i, pk.Short(got[i].S), pk.Short(want[i].S))
		}
	}
	if len(got) != len(want) {
		return pk.Failf("iter-count", "%s: %d items, expected %d", label, len(got), len(want))
	}
	return nil
}

const maxT = ^uint64(0)

func hasMaxTime(ms []wl.MsgRef) bool {
	for _, m := range ms {
		if m.M.LogTime == maxT {
			return true
		}
	}
	return false
}

// compareDefaultWindow compares a read made with no time restriction. The known finding
// "maxtime-default-window" tolerates exactly: all messages with log_time = 2^64-1 missing.
func compareDefaultWindow(st *stats.Collector, prop, label string, got []mc.Triple, all []wl.MsgRef, topics []string) error {
	want := wl.Select(all, topics, 0, 0, true)
	err := compareTriples(label, got, want)
	if err == nil || !hasMaxTime(want) || !pk.Open(prop, "maxtime-default-window") {
		return err
	}
	alt := wl.Select(all, topics, 0, maxT, false)
	if compareTriples(label, got, alt) == nil {
		st.KnownFinding("maxtime-default-window", pk.What(prop, "maxtime-default-window"))
		return nil
	}
	return err
}

func checkC01(c WKCase, st *stats.Collector) error {
	w, k := &c.W, c.K
	file, _, err := mc.WriteBytes(w, k)
	if err != nil {
		return pk.Failf("write-error", "writer rejected a well-formed call sequence: %v", err)
	}
	custom := k.Compression == "custom"
	for _, validate := range []bool{false, true} {
		res := mc.LexAll(bytes.NewReader(file), mc.LexParams{SkipMagic: k.SkipMagic, Custom: custom, ValidateCRC: validate, AttCRC: true}, true)
		label := fmt.Sprintf("lexer(validate=%v)", validate)
		if err := checkSequential(w, k, &res, label); err != nil {
			return err
		}
		if err := checkLexAliasing(&res); err != nil {
			return err
		}
	}
	// the same reads with the caller's buffers handed back, as the API documentation recommends
	// (Lexer.Next(buf); NextInto(msg) with one Message; the deprecated Next(buf)): same content
	bufMode := 1 + int(wl.Hash(c)%2)
	{
		res := mc.LexAll(bytes.NewReader(file), mc.LexParams{SkipMagic: k.SkipMagic, Custom: custom, ValidateCRC: wl.Hash(c)%4 < 2, AttCRC: true, BufMode: bufMode}, false)
		if err := checkSequential(w, k, &res, fmt.Sprintf("lexer(caller buffer mode %d)", bufMode)); err != nil {
			return err
		}
	}
	// whatever the attachment callback does with the data (reads all, nothing, half; asks for the CRCs or not, in
	// either order), every other record is lexed the same
	if len(w.Attachments()) > 0 {
		full := mc.LexAll(bytes.NewReader(file), mc.LexParams{SkipMagic: k.SkipMagic, Custom: custom, AttCRC: true}, false)
		mode := 1 + int(wl.Hash(c)%4)
		part := mc.LexAll(bytes.NewReader(file), mc.LexParams{SkipMagic: k.SkipMagic, Custom: custom, AttCRC: mode != 3, AttConsume: mode, ValidateCRC: wl.Hash(c)%8 < 4}, false)
		if part.Panic != "" {
			return pk.Failf("panic", "lexer with attachment callback mode %d: %s", mode, part.Panic)
		}
		if !part.Clean() {
			return pk.Failf("lex-error", "lexer whose attachment callback reads %s: open=%v err=%v after %d events", []string{"", "nothing", "half the data", "all, no CRC calls", "all, ParsedCRC first"}[mode], part.OpenErr, part.Err, len(part.Events))
		}
		if len(part.Events) != len(full.Events) {
			return pk.Failf("attachment-handling", "lexer with attachment callback mode %d yields %d events, %d when the callback reads everything", mode, len(part.Events), len(full.Events))
		}
		for i := range full.Events {
			a, b := &full.Events[i], &part.Events[i]
			if a.Kind != b.Kind {
				return pk.Failf("attachment-handling", "attachment callback mode %d: event #%d is a %s, a %s when the callback reads everything", mode, i, b.Kind, a.Kind)
			}
			if a.Kind == "attachment" {
				if mc.AttFieldsSig(a.A) != mc.AttFieldsSig(b.A) || !bytes.HasPrefix(a.A.Data, b.A.Data) || (mode == 4 && (b.A.ParsedCRC != a.A.ParsedCRC || b.A.ComputedCRC != a.A.ComputedCRC || b.A.ParsedErr != "" || b.A.ComputedErr != "")) {
					return pk.Failf("attachment-handling", "attachment callback mode %d: attachment event #%d differs: %s vs %s", mode, i, pk.Short(b.A), pk.Short(a.A))
				}
				continue
			}
			if mc.Sig(a) != mc.Sig(b) {
				return pk.Failf("attachment-handling", "attachment callback mode %d: event #%d is %s, %s when the callback reads everything", mode, i, pk.Short(b), pk.Short(a))
			}
		}
	}
	// two lexers side by side over the same bytes, one Next each in turn (a merge or compare tool): what one
	// lexer returns must not depend on another lexer being alive, or on lexers this process closed earlier
	{
		lp := mc.LexParams{SkipMagic: k.SkipMagic, Custom: custom, AttCRC: true}
		ra, rb := mc.LexPair(file, file, lp, lp)
		if err := checkSequential(w, k, &ra, "first of two lexers reading side by side"); err != nil {
			return err
		}
		if err := checkSequential(w, k, &rb, "second of two lexers reading side by side"); err != nil {
			return err
		}
	}
	msgs := w.Messages()
	if !k.SkipMagic && !custom {
		rr := mc.ReadMessagesMode(bytes.NewReader(file), bufMode, false, false, 0, mcap.UsingIndex(false))
		if rr.Panic != "" {
			return pk.Failf("panic", "non-indexed iterator (drive mode %d) panicked: %s", bufMode, rr.Panic)
		}
		if !rr.Clean() {
			return pk.Failf("iter-error", "non-indexed iterator (drive mode %d): open=%v err=%v after %d items", bufMode, rr.OpenErr, rr.Err, len(rr.Items))
		}
		if err := compareDefaultWindow(st, "C01", fmt.Sprintf("non-indexed iterator (drive mode %d: 1 = NextInto(reused msg), 2 = Next(buf))", bufMode), rr.Items, msgs, nil); err != nil {
			return err
		}
	}
	ir := mc.ReadMessages(bytes.NewReader(file), false, true, 0, mcap.UsingIndex(false))
	if ir.Panic != "" {
		return pk.Failf("panic", "non-indexed iterator panicked: %s", ir.Panic)
	}
	if !k.SkipMagic && !custom {
		if !ir.Clean() {
			return pk.Failf("iter-error", "non-indexed iterator: open=%v err=%v after %d items", ir.OpenErr, ir.Err, len(ir.Items))
		}
		if err := compareDefaultWindow(st, "C01", "non-indexed iterator", ir.Items, msgs, nil); err != nil {
			return err
		}
		if err := checkIterAliasing(&ir); err != nil {
			return err
		}
	} else {
		st.Note("iterator-pairing-impossible(skipmagic/custom)")
	}
	// classification
	nChunks := 0
	if d, err := specdec.Decode(file, specOpts(k)); err == nil {
		nChunks = len(d.Data(specdec.OpChunk))
	} else {
		return pk.Failf("specdec", "reference decoder rejects the file: %v", err)
	}
	chans := map[uint16]bool{}
	for _, m := range msgs {
		chans[m.M.ChannelID] = true
	}
	nontrivial := len(msgs) >= 2 && len(chans) >= 2 && ((k.Chunked && nChunks >= 2) || len(w.Attachments())+len(w.Metadatas()) >= 1)
	classes := []string{"compression=" + k.Compression, fmt.Sprintf("chunked=%v", k.Chunked), fmt.Sprintf("flags=%d", k.FlagWeight())}
	switch {
	case nChunks == 0:
		classes = append(classes, "chunks=0")
	case nChunks == 1:
		classes = append(classes, "chunks=1")
	case nChunks < 10:
		classes = append(classes, "chunks=2-9")
	default:
		classes = append(classes, "chunks>=10")
	}
	if hasMaxTime(msgs) {
		classes = append(classes, "has-maxtime")
	}
	if k.SkipMagic {
		classes = append(classes, "skipmagic")
	}
	for _, m := range msgs {
		if k.Chunked && k.ChunkSize > 0 && int64(len(m.M.Data)) > 2*k.ChunkSize {
			classes = append(classes, "multi-chunk-payload")
			break
		}
	}
	st.Case(wl.Hash(c), nontrivial, 7, classes...)
	if nontrivial && st.WantSample() {
		st.Sample(WKCase{W: w.Trunc(24), K: k})
	}
	return nil
}

func mustJSON(v any) []byte {
	b, err := jsonMarshal(v)
	if err != nil {
		return []byte(err.Error())
	}
	return b
}

func TestC01(t *testing.T) {
	pk.Run(t, "C01", genWK(wl.GenParams{}, wl.CfgParams{}), checkC01)
}
