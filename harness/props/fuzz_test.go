package props

import (
	"testing"

	"verifharness/conf"
	"verifharness/isolate"
	"verifharness/mc"
	"verifharness/specenc"
	"verifharness/wl"
)

// seedFiles returns a few small valid files (reference encoder and Go writer, every compression)
// plus hostile constants, as the starting corpus of the native fuzz targets.
func seedFiles() [][]byte {
	var out [][]byte
	for _, in := range conf.Inputs() {
		w := in.W
		for _, f := range []map[string]bool{{}, {"ch": true, "chx": true, "mx": true, "rch": true, "rsh": true, "st": true, "sum": true}, {"ch": true, "pad": true, "st": true}} {
			if !conf.Admissible(&w, f) {
				continue
			}
			b, _, err := specenc.Encode(&w, specenc.ConformanceLayout(f))
			if err == nil {
				out = append(out, b)
			}
		}
	}
	ten := conf.Inputs()[5].W
	ten.Ops = append(ten.Ops, wl.Op{A: &wl.Attachment{Name: "a", MediaType: "m", Data: []byte("attachment")}}, wl.Op{D: &wl.Metadata{Name: "md", Metadata: []wl.KV{{K: "k", V: "v"}}}})
	for _, comp := range []string{"", "zstd", "lz4"} {
		b, _, err := mc.WriteBytes(&ten, wl.Config{Chunked: true, ChunkSize: 64, Compression: comp, IncludeCRC: true})
		if err == nil {
			out = append(out, b)
		}
	}
	return out
}

func FuzzC10Lexer(f *testing.F) {
	for i, s := range seedFiles() {
		f.Add(s, uint8(i*37))
	}
	f.Add([]byte("\x89MCAP0\r\n\x06\xff\xff\xff\xff\xff\xff\xff\x7f"), uint8(2))
	f.Add([]byte("\x89MCAP0\r\n\x01\x00\x00\x00\x80\x00\x00\x00\x00"), uint8(0))
	f.Fuzz(func(t *testing.T, data []byte, opts uint8) {
		o := uint32(opts) &^ loSkipMagic
		if o&loLimit1K != 0 {
			o &^= loLimit1M
		}
		var m isolate.Meter
		var r isolate.Resp
		m.Do(func() { r = handleC10(isolate.Req{Entry: entryLexer, Opts: o, Input: data}) })
		c := C10Case{Entry: entryLexer, Opts: o}
		if ceil := allocCeiling(&c, data); m.Max > ceil {
			t.Fatalf("lexer(opts=%08b) allocated %d bytes on a %d-byte input, ceiling %d (%s)", o, m.Max, len(data), ceil, r.Text)
		}
	})
}

func FuzzC10Reader(f *testing.F) {
	for i, s := range seedFiles() {
		f.Add(s, uint8(i*11), uint64(i))
	}
	f.Fuzz(func(t *testing.T, data []byte, opts uint8, aux uint64) {
		r := handleC10(isolate.Req{Entry: entryReader, Opts: uint32(opts) & 63, Aux: aux, Input: data})
		c := C10Case{Entry: entryReader}
		if ceil := allocCeiling(&c, data); r.Alloc > ceil {
			t.Fatalf("reader(opts=%06b) allocated %d bytes in one API call on a %d-byte input, ceiling %d (%s)", opts&63, r.Alloc, len(data), ceil, r.Text)
		}
	})
}

func FuzzC10Parse(f *testing.F) {
	for i := range parserNames {
		f.Add([]byte{0, 0, 0, 0, 0, 0, 0, 0, 0, 0, 0, 0, 0, 0, 0, 0, 0, 0, 0, 0, 0, 0, 0, 0}, uint8(i))
		f.Add([]byte{0xff, 0xff, 0xff, 0xff, 0xff, 0xff, 0xff, 0xff, 0xff, 0xff, 0xff, 0xff, 0xff, 0xff, 0xff, 0xff, 0xff, 0xff, 0xff, 0xff, 0xff, 0xff, 0xff, 0x7f, 1, 0, 0, 0, 0, 0, 0, 0, 0, 0, 0, 0, 0, 0, 0, 0, 0, 0, 0, 0, 0, 0, 0, 0, 0, 0, 0, 0, 0, 0, 0, 0}, uint8(i))
	}
	f.Fuzz(func(t *testing.T, data []byte, which uint8) {
		_ = handleC10(isolate.Req{Entry: entryParse, Aux: uint64(which) % uint64(len(parserNames)), Opts: uint32(which >> 7), Input: data})
	})
}
