package props

import (
	"bytes"
	"encoding/binary"
	"errors"
	"fmt"
	"io"
	"os"
	"strings"
	"sync"
	"testing"
	"time"

	"github.com/foxglove/mcap/go/mcap"
	"github.com/klauspost/compress/zstd"
	"github.com/pierrec/lz4/v4"
	"pgregory.net/rapid"
	"verifharness/isolate"
	"verifharness/mc"
	"verifharness/pk"
	"verifharness/specdec"
	"verifharness/specenc"
	"verifharness/stats"
	"verifharness/wl"
)

const (
	entryLexer  = 1
	entryParse  = 2
	entryReader = 3
	entryWrite  = 4 // C13: write a workload as the first thing a fresh process does
)

// lexer option bits
const (
	loSkipMagic = 1 << iota
	loValidate
	loEmitChunks
	loEmitInvalid
	loAttCRC
	loLimit1K
	loLimit1M
	loNoCallback
)

func limitsOf(opts uint32) (rec, chunk int) {
	switch {
	case opts&loLimit1K != 0:
		return 1 << 10, 1 << 10
	case opts&loLimit1M != 0:
		return 1 << 20, 1 << 20
	}
	return 0, 0
}

var parserNames = []string{"ParseHeader", "ParseFooter", "ParseSchema", "ParseChannel", "ParseMessage", "ParseChunk", "ParseMessageIndex", "ParseChunkIndex",
	"ParseAttachmentIndex", "ParseStatistics", "ParseMetadata", "ParseMetadataIndex", "ParseSummaryOffset", "ParseDataEnd", "Message.PopulateFrom"}

func errText(err error) string {
	if err == nil {
		return ""
	}
	return err.Error()
}

// handleC10 runs inside the worker process.
func handleC10(req isolate.Req) isolate.Resp {
	switch req.Entry {
	case entryLexer:
		rec, chunk := limitsOf(req.Opts)
		o := &mcap.LexerOptions{SkipMagic: req.Opts&loSkipMagic != 0, ValidateChunkCRCs: req.Opts&loValidate != 0, EmitChunks: req.Opts&loEmitChunks != 0,
			EmitInvalidChunks: req.Opts&loEmitInvalid != 0, ComputeAttachmentCRCs: req.Opts&loAttCRC != 0, MaxRecordSize: rec, MaxDecompressedChunkSize: chunk}
		if req.Opts&loNoCallback == 0 {
			o.AttachmentCallback = func(ar *mcap.AttachmentReader) error {
				_, err := io.Copy(io.Discard, ar.Data())
				_, _ = ar.ComputedCRC()
				_, _ = ar.ParsedCRC()
				return err
			}
		}
		lx, err := mcap.NewLexer(bytes.NewReader(req.Input), o)
		if err != nil {
			return isolate.Resp{Text: errText(err)}
		}
		defer lx.Close()
		n := uint32(0)
		for {
			tt, _, err := lx.Next(nil)
			if err != nil {
				if tt == mcap.TokenInvalidChunk && n < 1<<24 {
					n++
					continue
				}
				return isolate.Resp{Progress: n, Text: errText(err)}
			}
			n++
			if n > 1<<26 {
				return isolate.Resp{Progress: n, Text: "harness: token budget exhausted"}
			}
		}
	case entryParse:
		var err error
		b := req.Input
		switch req.Aux {
		case 0:
			_, err = mcap.ParseHeader(b)
		case 1:
			_, err = mcap.ParseFooter(b)
		case 2:
			_, err = mcap.ParseSchema(b)
		case 3:
			_, err = mcap.ParseChannel(b)
		case 4:
			_, err = mcap.ParseMessage(b)
		case 5:
			_, err = mcap.ParseChunk(b)
		case 6:
			_, err = mcap.ParseMessageIndex(b)
		case 7:
			_, err = mcap.ParseChunkIndex(b)
		case 8:
			_, err = mcap.ParseAttachmentIndex(b)
		case 9:
			_, err = mcap.ParseStatistics(b)
		case 10:
			_, err = mcap.ParseMetadata(b)
		case 11:
			_, err = mcap.ParseMetadataIndex(b)
		case 12:
			_, err = mcap.ParseSummaryOffset(b)
		case 13:
			_, err = mcap.ParseDataEnd(b)
		default:
			m := &mcap.Message{}
			err = m.PopulateFrom(b, req.Opts&1 != 0)
		}
		p := uint32(0)
		if err == nil {
			p = 1
		}
		return isolate.Resp{Progress: p, Text: errText(err)}
	case entryReader:
		return readerEntry(req)
	case entryWrite:
		return writeEntry(req)
	}
	return isolate.Resp{Text: "harness: unknown entry"}
}

func readerEntry(req isolate.Req) (resp isolate.Resp) {
	// every API call is metered on its own: the 2 GiB ceiling is per buffer, and a failed call may
	// legitimately have requested one buffer below it
	var meter isolate.Meter
	defer func() {
		resp.Alloc = meter.Max + 1
	}()
	var rd *mcap.Reader
	var err error
	// opts bit 64: the source cannot seek (a pipe, a network stream): every call must still return
	source := func() io.Reader {
		if req.Opts&64 != 0 {
			return struct{ io.Reader }{bytes.NewReader(req.Input)}
		}
		return bytes.NewReader(req.Input)
	}
	meter.Do(func() { rd, err = mcap.NewReader(source()) })
	if err != nil {
		return isolate.Resp{Text: errText(err)}
	}
	defer rd.Close()
	resp.Flags |= 1
	var opts []mcap.ReadOpt
	switch req.Opts & 3 {
	case 0:
		opts = append(opts, mcap.UsingIndex(true))
	case 1:
		opts = append(opts, mcap.InOrder(mcap.LogTimeOrder))
	case 2:
		opts = append(opts, mcap.InOrder(mcap.ReverseLogTimeOrder))
	default:
		opts = append(opts, mcap.UsingIndex(false))
	}
	if req.Opts&4 != 0 {
		opts = append(opts, mcap.WithTopics([]string{"/a", "/shared"}))
	}
	if req.Opts&8 != 0 {
		opts = append(opts, mcap.AfterNanos(1), mcap.BeforeNanos(1<<62))
	}
	if req.Opts&16 != 0 {
		opts = append(opts, mcap.WithMetadataCallback(func(*mcap.Metadata) error { return nil }))
	}
	var texts []string
	if req.Opts&128 != 0 {
		// the Reader was used before: a sequential read, abandoned after a message or two
		meter.Do(func() {
			if it0, err := rd.Messages(mcap.UsingIndex(false)); err == nil {
				for i := 0; i < 2; i++ {
					if _, _, _, err := it0.NextInto(nil); err != nil {
						break
					}
				}
			}
		})
	}
	if req.Opts&32 == 0 { // Info first
		meter.Do(func() {
			if info, err := rd.Info(); err == nil {
				resp.Flags |= 2
				_ = info.CanReadMessagesUsingIndex()
				_ = info.ChannelCounts()
			} else {
				texts = append(texts, "Info: "+errText(err))
			}
		})
	}
	var it mcap.MessageIterator
	meter.Do(func() { it, err = rd.Messages(opts...) })
	if err != nil {
		texts = append(texts, "Messages: "+errText(err))
	} else {
		resp.Flags |= 4
		msg := &mcap.Message{}
		meter.Do(func() {
			// a caller that logs an error and asks again (a retry loop, a poller): the iterator may answer what it
			// likes, but the process has to survive the question
			failures := 0
			for {
				_, _, _, err := it.NextInto(msg)
				if err != nil {
					if failures == 0 && !errors.Is(err, io.EOF) {
						texts = append(texts, "Next: "+errText(err))
					}
					if failures++; failures > 4 {
						break
					}
					continue
				}
				resp.Progress++
				if resp.Progress > 1<<26 {
					texts = append(texts, "harness: item budget exhausted")
					break
				}
			}
		})
	}
	// random access
	var rd2 *mcap.Reader
	meter.Do(func() { rd2, err = mcap.NewReader(source()) })
	if err == nil {
		defer rd2.Close()
		var offs []uint64
		meter.Do(func() {
			if info, err := rd2.Info(); err == nil {
				for _, ai := range info.AttachmentIndexes {
					offs = append(offs, ai.Offset)
				}
				for _, mi := range info.MetadataIndexes {
					offs = append(offs, mi.Offset)
				}
			}
		})
		offs = append(offs, req.Aux)
		if len(offs) > 64 {
			offs = offs[:64]
		}
		for _, off := range offs {
			meter.Do(func() {
				if ar, err := rd2.GetAttachmentReader(off); err == nil {
					_, _ = io.Copy(io.Discard, ar.Data())
					_, _ = ar.ComputedCRC()
					_, _ = ar.ParsedCRC()
					resp.Flags |= 8
				}
			})
			meter.Do(func() {
				if _, err := rd2.GetMetadata(off); err == nil {
					resp.Flags |= 16
				}
			})
		}
	}
	resp.Text = strings.Join(texts, "; ")
	return resp
}

func TestMain(m *testing.M) {
	isolate.RedirectFuzzWorkerStderr()
	if isolate.IsWorker() {
		isolate.Serve(handleC10)
		return
	}
	code := m.Run()
	if c10Worker != nil {
		c10Worker.Close()
	}
	if pyWorker != nil {
		pyWorker.Close()
	}
	os.Exit(code)
}

var (
	c10Worker *isolate.Worker
	c10Mu     sync.Mutex
)

func worker() *isolate.Worker {
	c10Mu.Lock()
	defer c10Mu.Unlock()
	if c10Worker == nil {
		c10Worker = &isolate.Worker{}
	}
	return c10Worker
}

// ---- input construction

type Mutation struct {
	Kind  int    // 0 set field, 1 truncate, 2 duplicate record, 3 delete record, 4 unknown compression, 5 nest chunk, 6 overwrite bytes, 7 transplant a field value from another record
	Pick  uint32 // which field / record / offset (reduced modulo what exists)
	Pick2 uint32
	Val   int // index into the hostile value table
	Seed  uint64
}

type C10Case struct {
	W        wl.Workload
	K        wl.Config
	UseEnc   bool // build the base file with the reference encoder instead of the Go writer
	L        specenc.Layout
	Muts     []Mutation
	Random   []byte // when non-empty: random bytes framed by magic/footer instead of a mutated file
	Entry    int
	Opts     uint32
	Aux      uint64
	ParseRec uint32 // entryParse: which record body of the (mutated) file is handed to the parser
}

const dearValue = 1<<31 - 2 // the largest length makeSafe accepts: every use costs a 2 GiB allocation

func hostileTable(old, fileLen uint64) []uint64 {
	return []uint64{0, 1, old - 1, old + 1, 1<<31 - 1, 1 << 31, 1<<32 - 1, 1 << 63, 1<<64 - 1, fileLen, fileLen - 1, fileLen + 1,
		24, 25, 1<<32 - 8, 1<<32 - 9, 8, 9, old + 9, old - 9, 1 << 16, 1<<24 + 7, 1<<63 - 1, 1<<63 + 1, old * 2, 1 << 27,
		1<<64 - 9, 1<<64 - 8, 1<<64 - 10, 1<<64 - 17, 1<<64 - 2, -fileLen, 1<<63 - 9, -(old + 9), dearValue}
}

var nHostile = len(hostileTable(0, 0)) + 2 // + two "offset of another record" picks

func hostileValue(idx int, old uint64, width int, fileLen uint64, recOffsets []uint64, seed uint64) uint64 {
	tbl := hostileTable(old, fileLen)
	var v uint64
	switch {
	case idx < len(tbl):
		v = tbl[idx]
	case len(recOffsets) > 0:
		v = recOffsets[(seed+uint64(idx))%uint64(len(recOffsets))]
	default:
		v = seed
	}
	if v == dearValue && seed%8 != 0 {
		v = 1<<31 - 1 // the dear 2 GiB-minus-two allocation is kept rare in the random part
	}
	if width < 8 {
		v &= (1 << (8 * uint(width))) - 1
	}
	return v
}

func putUint(b []byte, width int, v uint64) {
	switch width {
	case 1:
		b[0] = byte(v)
	case 2:
		binary.LittleEndian.PutUint16(b, uint16(v))
	case 4:
		binary.LittleEndian.PutUint32(b, uint32(v))
	default:
		binary.LittleEndian.PutUint64(b, v)
	}
}

func getUint(b []byte, width int) uint64 {
	switch width {
	case 1:
		return uint64(b[0])
	case 2:
		return uint64(binary.LittleEndian.Uint16(b))
	case 4:
		return uint64(binary.LittleEndian.Uint32(b))
	}
	return binary.LittleEndian.Uint64(b)
}

// buildInput produces the hostile input of a case and a description of what was done to it.
func buildInput(c *C10Case) ([]byte, []string, error) {
	if len(c.Random) > 0 {
		b := append([]byte{}, specdec.Magic...)
		b = append(b, c.Random...)
		b = append(b, specenc.Magic...)
		return b, []string{"random-bytes"}, nil
	}
	var file []byte
	var err error
	if c.UseEnc {
		file, _, err = specenc.Encode(&c.W, c.L)
	} else {
		file, _, err = mc.WriteBytes(&c.W, c.K)
	}
	if err != nil {
		return nil, nil, err
	}
	var notes []string
	for _, m := range c.Muts {
		d, derr := specdec.Decode(file, specdec.Options{})
		if derr != nil {
			// earlier mutations broke the framing: only blind mutations remain possible
			if len(file) > 0 {
				p := int(m.Pick) % len(file)
				file[p] ^= byte(m.Seed) | 1
				notes = append(notes, fmt.Sprintf("blind-flip@%d", p))
			}
			continue
		}
		var recOffsets []uint64
		for _, r := range d.Records {
			recOffsets = append(recOffsets, r.Offset)
		}
		switch m.Kind {
		case 0:
			fs := specdec.Fields(d)
			if len(fs) == 0 {
				continue
			}
			f := fs[int(m.Pick)%len(fs)]
			old := getUint(file[f.Off:], f.Width)
			v := hostileValue(m.Val%nHostile, old, f.Width, uint64(len(file)), recOffsets, m.Seed)
			putUint(file[f.Off:], f.Width, v)
			notes = append(notes, fmt.Sprintf("set %s.%s(%s,inchunk=%v)@%d %d->%d", opName(f.Op), f.Name, f.Kind, f.InChunk, f.Off, old, v))
		case 1:
			p := int(m.Pick) % (len(file) + 1)
			file = file[:p]
			notes = append(notes, fmt.Sprintf("truncate@%d", p))
		case 2:
			r := d.Records[int(m.Pick)%len(d.Records)]
			at := d.Records[int(m.Pick2)%len(d.Records)].Offset
			dup := append([]byte{}, file[r.Offset:r.End()]...)
			file = append(append(append([]byte{}, file[:at]...), dup...), file[at:]...)
			notes = append(notes, fmt.Sprintf("duplicate %s@%d->%d", opName(r.Op), r.Offset, at))
		case 3:
			r := d.Records[int(m.Pick)%len(d.Records)]
			file = append(append([]byte{}, file[:r.Offset]...), file[r.End():]...)
			notes = append(notes, fmt.Sprintf("delete %s@%d", opName(r.Op), r.Offset))
		case 4:
			chunks := d.Data(specdec.OpChunk)
			if len(chunks) == 0 {
				continue
			}
			r := chunks[int(m.Pick)%len(chunks)]
			at := r.Offset + 9 + 28 // compression string length prefix
			n := int(binary.LittleEndian.Uint32(file[at:]))
			for i := 0; i < n; i++ {
				file[int(at)+4+i] = "xyzq"[i%4]
			}
			if n == 0 { // grow the string by rewriting the record with a longer compression name
				name := strings.Repeat("z", 1+int(m.Pick2)%40)
				body := append([]byte{}, r.Body[:28]...)
				body = binary.LittleEndian.AppendUint32(body, uint32(len(name)))
				body = append(body, name...)
				body = append(body, r.Body[32:]...)
				rec := append([]byte{specdec.OpChunk}, binary.LittleEndian.AppendUint64(nil, uint64(len(body)))...)
				rec = append(rec, body...)
				file = append(append(append([]byte{}, file[:r.Offset]...), rec...), file[r.End():]...)
			}
			notes = append(notes, fmt.Sprintf("unknown-compression@%d", r.Offset))
		case 5:
			chunks := d.Data(specdec.OpChunk)
			if len(chunks) == 0 {
				continue
			}
			r := chunks[int(m.Pick)%len(chunks)]
			inner := append([]byte{}, file[r.Offset:r.End()]...)
			body := append([]byte{}, r.Body[:16]...)
			body = binary.LittleEndian.AppendUint64(body, uint64(len(inner)))
			body = binary.LittleEndian.AppendUint32(body, 0)
			body = binary.LittleEndian.AppendUint32(body, 0)
			body = binary.LittleEndian.AppendUint64(body, uint64(len(inner)))
			body = append(body, inner...)
			rec := append([]byte{specdec.OpChunk}, binary.LittleEndian.AppendUint64(nil, uint64(len(body)))...)
			rec = append(rec, body...)
			file = append(append(append([]byte{}, file[:r.Offset]...), rec...), file[r.End():]...)
			notes = append(notes, fmt.Sprintf("nest-chunk@%d", r.Offset))
		case 7:
			// transplant: a field takes the value the same field has in another record
			fs := specdec.Fields(d)
			if len(fs) == 0 {
				continue
			}
			f := fs[int(m.Pick)%len(fs)]
			var donors []specdec.Field
			for _, g := range fs {
				if g.Op == f.Op && g.Name == f.Name && g.Width == f.Width && g.Off != f.Off {
					donors = append(donors, g)
				}
			}
			if len(donors) == 0 {
				continue
			}
			g := donors[int(m.Pick2)%len(donors)]
			old := getUint(file[f.Off:], f.Width)
			v := getUint(file[g.Off:], g.Width)
			putUint(file[f.Off:], f.Width, v)
			notes = append(notes, fmt.Sprintf("transplant %s.%s(%s,inchunk=%v)@%d %d->%d (value of the record at %d)", opName(f.Op), f.Name, f.Kind, f.InChunk, f.Off, old, v, g.Off))
		default:
			if len(file) == 0 {
				continue
			}
			p := int(m.Pick) % len(file)
			noise := wl.Fill(1+int(m.Pick2)%8, m.Seed|1)
			for i, b := range noise {
				if p+i < len(file) {
					file[p+i] = b
				}
			}
			notes = append(notes, fmt.Sprintf("overwrite@%d+%d", p, len(noise)))
		}
	}
	return file, notes, nil
}

func opName(op byte) string {
	names := map[byte]string{1: "Header", 2: "Footer", 3: "Schema", 4: "Channel", 5: "Message", 6: "Chunk", 7: "MessageIndex", 8: "ChunkIndex", 9: "Attachment",
		10: "AttachmentIndex", 11: "Statistics", 12: "Metadata", 13: "MetadataIndex", 14: "SummaryOffset", 15: "DataEnd"}
	if n, ok := names[op]; ok {
		return n
	}
	return fmt.Sprintf("op%02x", op)
}

func genC10(t *rapid.T) C10Case {
	var c C10Case
	if rapid.IntRange(0, 19).Draw(t, "random-bytes?") == 0 {
		c.Random = rapid.SliceOfN(rapid.Byte(), 1, 300).Draw(t, "random")
		if rapid.Bool().Draw(t, "with-header") {
			// a valid header record first, so the readers get past the open
			c.Random = append([]byte{1, 8, 0, 0, 0, 0, 0, 0, 0, 0, 0, 0, 0, 0, 0, 0, 0}, c.Random...)
		}
	} else {
		c.W = wl.GenWorkload(t, wl.GenParams{ChunkHint: 60, NoLong: true, MaxMsgs: 12, MaxPayload: 80, SmallIDs: true, MinMsgs: 1})
		c.UseEnc = rapid.IntRange(0, 3).Draw(t, "use-specenc") == 0
		if c.UseEnc {
			c.L = genLayout(t, &c.W, rapid.Bool().Draw(t, "enc-indexed"), "enc-")
		} else {
			c.K = wl.GenConfig(t, wl.CfgParams{NoCustom: true, NoSkipMagic: true, SmallChunks: true, Compressions: []string{"", "", "", "zstd", "lz4"}})
			if c.K.Compression == "zstd" && c.K.Level > 1 {
				c.K.Level = 1
			}
		}
		n := rapid.IntRange(1, 3).Draw(t, "n-mut")
		for i := 0; i < n; i++ {
			c.Muts = append(c.Muts, Mutation{Kind: rapid.SampledFrom([]int{0, 0, 0, 0, 0, 0, 1, 2, 3, 4, 5, 6, 7, 7}).Draw(t, "m-kind"), Pick: rapid.Uint32().Draw(t, "m-pick"),
				Pick2: rapid.Uint32().Draw(t, "m-pick2"), Val: rapid.IntRange(0, nHostile-1).Draw(t, "m-val"), Seed: rapid.Uint64().Draw(t, "m-seed")})
		}
	}
	c.Entry = rapid.SampledFrom([]int{entryLexer, entryLexer, entryReader, entryReader, entryParse}).Draw(t, "entry")
	switch c.Entry {
	case entryLexer:
		c.Opts = rapid.Uint32Range(0, 255).Draw(t, "lexer-opts")
		if c.Opts&loLimit1K != 0 && c.Opts&loLimit1M != 0 {
			c.Opts &^= loLimit1M
		}
		c.Opts &^= loSkipMagic
	case entryReader:
		c.Opts = rapid.Uint32Range(0, 255).Draw(t, "reader-opts")
		c.Aux = rapid.SampledFrom([]uint64{0, 1, 8, 9, 1 << 31, 1<<63 - 10, 1<<63 - 9, 1<<64 - 9, 1<<64 - 1, 100, 1000}).Draw(t, "hostile-offset")
	case entryParse:
		c.Aux = uint64(rapid.IntRange(0, len(parserNames)-1).Draw(t, "parser"))
		c.Opts = uint32(rapid.IntRange(0, 1).Draw(t, "copy"))
		c.ParseRec = rapid.Uint32().Draw(t, "parse-rec")
	}
	return c
}

// pickParseBody selects a record body out of the hostile file for the Parse* entry: preferably one of
// the matching opcode (so the parser gets past its first field), otherwise any.
func pickParseBody(input []byte, parser uint64, pick uint32) []byte {
	wantOp := map[uint64]byte{0: 1, 1: 2, 2: 3, 3: 4, 4: 5, 5: 6, 6: 7, 7: 8, 8: 10, 9: 11, 10: 12, 11: 13, 12: 14, 13: 15, 14: 5}[parser]
	var bodies, matching [][]byte
	pos := 8
	for pos+9 <= len(input) {
		n := binary.LittleEndian.Uint64(input[pos+1:])
		end := uint64(pos) + 9 + n
		if n > uint64(len(input)) || end > uint64(len(input)) {
			bodies = append(bodies, input[pos+9:])
			if input[pos] == wantOp {
				matching = append(matching, input[pos+9:])
			}
			break
		}
		bodies = append(bodies, input[pos+9:end])
		if input[pos] == wantOp {
			matching = append(matching, input[pos+9:end])
		}
		pos = int(end)
	}
	if len(matching) > 0 && pick%4 != 0 {
		return matching[int(pick)%len(matching)]
	}
	if len(bodies) > 0 {
		return bodies[int(pick)%len(bodies)]
	}
	return input
}

func hasCompressedChunk(input []byte) bool {
	return bytes.Contains(input, []byte{4, 0, 0, 0, 'z', 's', 't', 'd'}) || bytes.Contains(input, []byte{3, 0, 0, 0, 'l', 'z', '4'})
}

func allocCeiling(c *C10Case, input []byte) uint64 {
	slack := uint64(64<<20) + 64*uint64(len(input))
	extra := uint64(0)
	if hasCompressedChunk(input) {
		extra = 1 << 30
	}
	if c.Entry == entryLexer && c.Opts&loValidate != 0 {
		if rec, chunk := limitsOf(c.Opts); rec > 0 {
			// with limits configured the slack is tight: nothing but the input's own size justifies more
			return 4*(uint64(rec)+2*uint64(chunk)) + 1<<20 + 64*uint64(len(input)) + extra
		}
	}
	return 2<<30 + slack + extra
}

func entryLabel(c *C10Case) string {
	switch c.Entry {
	case entryLexer:
		return fmt.Sprintf("lexer(opts=%08b)", c.Opts)
	case entryParse:
		return parserNames[c.Aux]
	default:
		return fmt.Sprintf("reader(opts=%06b, offset=%d)", c.Opts, c.Aux)
	}
}

// judge applies the C10 oracle to a worker outcome.
func judgeHostile(prop string, label string, o isolate.Outcome, ceiling uint64) error {
	switch {
	case o.Hang:
		return pk.Failf("hang", "%s did not finish within the deadline, also when re-run alone in a fresh worker with a 600 s deadline", label)
	case o.Died:
		return pk.Failf("process-death", "%s killed the process: %s", label, o.ExitInfo)
	case o.Status == 1:
		return pk.Failf("panic", "%s panicked: %s", label, o.Text)
	case o.Alloc > ceiling:
		return pk.Failf("allocation", "%s allocated %d bytes, ceiling %d", label, o.Alloc, ceiling)
	}
	return nil
}

func checkC10(c C10Case, st *stats.Collector) error {
	input, notes, err := buildInput(&c)
	if err != nil {
		return pk.Failf("harness", "cannot build the base file: %v", err)
	}
	req := isolate.Req{Entry: uint16(c.Entry), Opts: c.Opts, Aux: c.Aux, Input: input}
	if c.Entry == entryParse {
		req.Input = pickParseBody(input, c.Aux, c.ParseRec)
	}
	o := worker().Call(req, 10*time.Second, 600*time.Second)
	label := fmt.Sprintf("%s on a %d-byte input (%s)", entryLabel(&c), len(req.Input), strings.Join(notes, ", "))
	if err := judgeHostile("C10", label, o, allocCeiling(&c, input)); err != nil {
		return err
	}
	nontrivial := false
	switch c.Entry {
	case entryLexer:
		nontrivial = o.Progress >= 1
	case entryParse:
		nontrivial = len(req.Input) > 0
	default:
		nontrivial = o.Flags&1 != 0 && o.Flags&(2|4) != 0
	}
	classes := []string{"entry=" + map[int]string{1: "lexer", 2: "parse", 3: "reader"}[c.Entry]}
	if len(c.Random) > 0 {
		classes = append(classes, "input=random-bytes")
	} else if c.UseEnc {
		classes = append(classes, "input=mutated-reference-encoder-file")
	} else {
		classes = append(classes, "input=mutated-go-writer-file")
	}
	for _, n := range notes {
		cl := strings.SplitN(strings.SplitN(n, "@", 2)[0], " ", 2)[0]
		if cl == "set" {
			if i, j := strings.Index(n, "("), strings.Index(n, ","); i > 0 && j > i {
				cl = "set-" + n[i+1:j]
			}
		}
		classes = append(classes, "mut:"+cl)
	}
	if o.Text == "" {
		classes = append(classes, "outcome=no-error")
	} else {
		classes = append(classes, "outcome=error-returned")
	}
	if o.Alloc > 64<<20 {
		classes = append(classes, "alloc>64MiB")
	}
	st.Case(wl.Hash(input)^uint64(c.Entry)<<56^uint64(c.Opts)<<40^c.Aux, nontrivial, 1, classes...)
	if nontrivial && st.WantSample() && len(c.Muts) > 0 {
		st.Sample(map[string]any{"entry": entryLabel(&c), "mutations": notes, "input_len": len(input), "result": o.Text, "alloc": o.Alloc})
	}
	return nil
}

func TestC10(t *testing.T) {
	pk.Run(t, "C10", genC10, checkC10)
}

// ---- systematic sweep: every numeric field of a few base files x every hostile value x a fixed
// set of entry configurations. Random mutation reaches a particular (field, value, entry) triple
// with probability ~1e-5 per case; defects that need exactly one such triple are found here.

type C10Sweep struct {
	Base  int // index into sweepBases()
	Field int
	Val   int
}

type sweepBase struct {
	name string
	file []byte
}

func sweepBases() []sweepBase {
	w := wl.Workload{Profile: "p", Library: "l"}
	w.Ops = append(w.Ops, wl.Op{S: &wl.Schema{ID: 1, Name: "S", Encoding: "e", Data: []byte{1, 2, 3}}},
		wl.Op{C: &wl.Channel{ID: 1, SchemaID: 1, Topic: "/a", MessageEncoding: "m", Metadata: []wl.KV{{K: "k", V: "v"}}}},
		wl.Op{C: &wl.Channel{ID: 2, Topic: "/b"}})
	for i := 0; i < 5; i++ {
		w.Ops = append(w.Ops, wl.Op{M: &wl.Message{ChannelID: uint16(1 + i%2), Sequence: uint32(i), LogTime: uint64(10 - i), PublishTime: 3, Data: []byte("payload")}})
		if i == 1 {
			w.Ops = append(w.Ops, wl.Op{A: &wl.Attachment{LogTime: 5, CreateTime: 6, Name: "att", MediaType: "text/plain", Data: []byte("attachment data")}})
		}
		if i == 3 {
			w.Ops = append(w.Ops, wl.Op{D: &wl.Metadata{Name: "md", Metadata: []wl.KV{{K: "a", V: "b"}}}})
		}
	}
	var out []sweepBase
	for _, k := range []wl.Config{
		{IncludeCRC: true},
		{Chunked: true, ChunkSize: 60, IncludeCRC: true},
		{Chunked: true, ChunkSize: 60, Compression: "zstd", IncludeCRC: true},
		{Chunked: true, ChunkSize: 60, Compression: "lz4", IncludeCRC: true},
	} {
		f, _, err := mc.WriteBytes(&w, k)
		if err == nil {
			out = append(out, sweepBase{fmt.Sprintf("go-writer chunked=%v compression=%q", k.Chunked, k.Compression), f})
		}
	}
	f, _, err := specenc.Encode(&w, specenc.Layout{Chunked: true, CutAfter: []int{5, 8}, MessageIndex: true, IndexAllChannels: true, ChunkIndex: true, RepeatSchemas: true, RepeatChannels: true,
		Statistics: true, AttachmentIndex: true, MetadataIndex: true, SummaryOffsets: true, CRC: true, Pad: []byte{1, 2, 3}, RepeatDefs: 1})
	if err == nil {
		out = append(out, sweepBase{"reference encoder, padded, repeated definitions", f})
	}
	return out
}

var sweepEntries = []struct {
	entry int
	opts  uint32
	aux   uint64
}{
	{entryLexer, 0, 0}, {entryLexer, loValidate, 0}, {entryLexer, loNoCallback, 0}, {entryLexer, loNoCallback | loValidate | loEmitInvalid, 0}, {entryLexer, loEmitChunks, 0},
	{entryLexer, loValidate | loLimit1K | loAttCRC, 0},
	{entryReader, 0, 9}, {entryReader, 1 | 16, 1<<64 - 9}, {entryReader, 2 | 4 | 8, 0}, {entryReader, 3 | 16, 1 << 63}, {entryReader, 3 | 64, 0}, {entryReader, 64, 9}, {entryReader, 128, 0}, {entryReader, 1 | 128, 0},
}

func sweepValue(idx int, old uint64, width int, fileLen uint64, recOffsets []uint64) (uint64, bool) {
	v := hostileValue(idx, old, width, fileLen, recOffsets, 8)
	if v == dearValue || (width == 4 && v == dearValue&0xffffffff) { // the 2 GiB-minus-two allocation is left to the random part
		return 0, false
	}
	return v, true
}

func enumC10Sweep(yield func(C10Sweep) bool) {
	sh, n := shardInfo()
	bases := sweepBases()
	var sel []int // all base files in both tiers; the quick tier thins the entry configurations instead
	for i := range bases {
		sel = append(sel, i)
	}
	k := 0
	for _, bi := range sel {
		d, err := specdec.Decode(bases[bi].file, specdec.Options{})
		if err != nil {
			continue
		}
		nf := len(specdec.Fields(d))
		for f := 0; f < nf; f++ {
			for v := 0; v < nHostile+3; v++ { // the last three: values transplanted from the same field of other records
				k++
				if k%n != sh {
					continue
				}
				if !yield(C10Sweep{bi, f, v}) {
					return
				}
			}
		}
	}
}

func checkC10Sweep(c C10Sweep, st *stats.Collector) error {
	bases := sweepBases()
	if c.Base >= len(bases) {
		return nil
	}
	b := bases[c.Base]
	d, err := specdec.Decode(b.file, specdec.Options{})
	if err != nil {
		return pk.Failf("harness", "base file does not decode: %v", err)
	}
	fs := specdec.Fields(d)
	if c.Field >= len(fs) {
		return nil
	}
	f := fs[c.Field]
	var recOffsets []uint64
	for _, r := range d.Records {
		recOffsets = append(recOffsets, r.Offset)
	}
	input := append([]byte{}, b.file...)
	old := getUint(input[f.Off:], f.Width)
	var v uint64
	ok := false
	if c.Val >= nHostile {
		var donors []uint64
		for _, g := range fs {
			if g.Op == f.Op && g.Name == f.Name && g.Width == f.Width && g.Off != f.Off {
				if x := getUint(input[g.Off:], g.Width); x != old {
					donors = append(donors, x)
				}
			}
		}
		if k := c.Val - nHostile; k < len(donors) {
			v, ok = donors[len(donors)-1-k], true // the largest-offset donors first
		}
	} else {
		v, ok = sweepValue(c.Val, old, f.Width, uint64(len(input)), recOffsets)
	}
	if !ok || v == old {
		return nil
	}
	putUint(input[f.Off:], f.Width, v)
	what := fmt.Sprintf("%s: %s.%s (%s, in chunk=%v) at %d: %d -> %d", b.name, opName(f.Op), f.Name, f.Kind, f.InChunk, f.Off, old, v)
	ran := 0
	for ei, e := range sweepEntries {
		// quick tier: three of the ten entry configurations per (field, value), chosen by a seed-dependent hash
		if !pk.Thorough() && (wl.Hash(c)+uint64(ei)*0x9E3779B97F4A7C15+seedInt())%10 >= 3 {
			continue
		}
		ran++
		cc := C10Case{Entry: e.entry, Opts: e.opts, Aux: e.aux}
		o := worker().Call(isolate.Req{Entry: uint16(e.entry), Opts: e.opts, Aux: e.aux, Input: input}, 10*time.Second, 600*time.Second)
		if err := judgeHostile("C10", fmt.Sprintf("%s on (%s)", entryLabel(&cc), what), o, allocCeiling(&cc, input)); err != nil {
			return err
		}
	}
	st.Case(wl.Hash(c), true, ran, "sweep:"+f.Kind)
	if st.WantSample() && c.Val%7 == 3 {
		st.Sample(map[string]any{"sweep": what, "entries": len(sweepEntries)})
	}
	return nil
}

func TestC10Sweep(t *testing.T) {
	pk.RunEnum(t, "C10s", enumC10Sweep, checkC10Sweep)
}

// ---- decompression bombs under configured limits: a chunk whose compressed data decodes to far more
// than the chunk declares. With MaxDecompressedChunkSize set (and validation on, the mode that enforces
// it) the lexer may not buffer what the frame produces beyond the declared, limit-checked size.
type C10Bomb struct {
	Codec    string // lz4 | zstd
	Declared uint64 // the chunk's uncompressed_size field
	Real     int    // bytes the frame really decodes to (zeros)
	Opts     uint32
	// Reader: the file carries a summary (channel, chunk index) and is read through NewReader/Messages with
	// Opts as reader options; ClaimFCS != 0: the zstd frame is hand-built, empty, with a Frame_Content_Size
	// field claiming that many bytes.
	Reader   bool   `json:",omitempty"`
	ClaimFCS uint64 `json:",omitempty"`
}

func bombFile(c C10Bomb) ([]byte, error) {
	var payload []byte
	zeros := make([]byte, c.Real)
	switch c.Codec {
	case "lz4":
		var out bytes.Buffer
		w := lz4.NewWriter(&out)
		if _, err := w.Write(zeros); err != nil {
			return nil, err
		}
		if err := w.Close(); err != nil {
			return nil, err
		}
		payload = out.Bytes()
	default:
		e, err := zstd.NewWriter(nil)
		if err != nil {
			return nil, err
		}
		payload = e.EncodeAll(zeros, nil)
		e.Close()
	}
	if c.ClaimFCS != 0 {
		// zstd magic; descriptor 0xC0 = 8-byte Frame_Content_Size, not single-segment; window descriptor
		// (1 KiB); the claimed size; one last, raw, empty block
		payload = append([]byte{0x28, 0xB5, 0x2F, 0xFD, 0xC0, 0x00}, binary.LittleEndian.AppendUint64(nil, c.ClaimFCS)...)
		payload = append(payload, 0x01, 0x00, 0x00)
	}
	b := &specenc.Builder{}
	b.Magic()
	b.Header("", "bomb")
	hdr := specenc.ChunkHdr{UncompressedSize: c.Declared, Compression: c.Codec, CRC: 0x12345678, Start: 0, End: 10}
	if c.Reader {
		hdr.CRC = 0
	}
	var pre *specenc.ChunkIndex
	if c.Reader && c.Opts&128 != 0 {
		// an ordinary chunk (channel + one message, same codec) ahead of the hostile one, so that an earlier
		// sequential read on the same Reader has something to decode
		pb := &specenc.Builder{}
		pb.Channel(&wl.Channel{ID: 1, Topic: "t"})
		pb.Message(&wl.Message{ChannelID: 1, Sequence: 1, LogTime: 1, PublishTime: 1, Data: []byte("ordinary message")})
		var pp []byte
		if c.Codec == "lz4" {
			var out bytes.Buffer
			lw := lz4.NewWriter(&out)
			_, _ = lw.Write(pb.Buf)
			_ = lw.Close()
			pp = out.Bytes()
		} else {
			e, _ := zstd.NewWriter(nil)
			pp = e.EncodeAll(pb.Buf, nil)
			e.Close()
		}
		poff := b.Len()
		plen := b.Chunk(specenc.ChunkHdr{UncompressedSize: uint64(len(pb.Buf)), Compression: c.Codec, Start: 1, End: 1}, pp)
		pre = &specenc.ChunkIndex{Start: 1, End: 1, Offset: poff, Length: plen, Compression: c.Codec, CompressedSize: uint64(len(pp)), UncompressedSize: uint64(len(pb.Buf))}
	}
	off := b.Len()
	length := b.Chunk(hdr, payload)
	b.DataEnd(0)
	if !c.Reader {
		b.Footer(0, 0, 0)
		b.Magic()
		return b.Buf, nil
	}
	summaryStart := b.Len()
	b.Channel(&wl.Channel{ID: 1, Topic: "t"})
	if pre != nil {
		b.ChunkIndex(pre)
	}
	b.ChunkIndex(&specenc.ChunkIndex{Start: 0, End: 10, Offset: off, Length: length, Compression: c.Codec, CompressedSize: uint64(len(payload)), UncompressedSize: c.Declared})
	b.Footer(summaryStart, 0, 0)
	b.Magic()
	return b.Buf, nil
}

func enumC10Bombs(yield func(C10Bomb) bool) {
	sh, n := shardInfo()
	i := 0
	for _, codec := range []string{"lz4", "zstd"} {
		for _, declared := range []uint64{16, 1000} {
			for _, opts := range []uint32{loValidate | loLimit1K, loValidate | loLimit1M, loValidate | loLimit1K | loEmitInvalid | loNoCallback} {
				if i%n == sh {
					if !yield(C10Bomb{Codec: codec, Declared: declared, Real: 64 << 20, Opts: opts}) {
						return
					}
				}
				i++
			}
		}
	}
	// the index-based reader: a zstd frame header that claims 5 GiB of content (the chunk declares none), and a
	// frame that decodes to 64 MiB where the chunk declares 100 bytes; file order and log-time order
	for _, bomb := range []C10Bomb{{Codec: "zstd", Declared: 0, Real: 0, ClaimFCS: 5 << 30, Reader: true}, {Codec: "zstd", Declared: 100, Real: 64 << 20, Reader: true},
		{Codec: "lz4", Declared: 100, Real: 64 << 20, Reader: true}} {
		for _, opts := range []uint32{0, 1, 128, 128 | 1} {
			if i%n == sh {
				bomb.Opts = opts
				if !yield(bomb) {
					return
				}
			}
			i++
		}
	}
}

func checkC10Bomb(c C10Bomb, st *stats.Collector) error {
	input, err := bombFile(c)
	if err != nil {
		return pk.Failf("harness", "cannot build the bomb: %v", err)
	}
	entry := uint16(entryLexer)
	if c.Reader {
		entry = entryReader
	}
	o := worker().Call(isolate.Req{Entry: entry, Opts: c.Opts, Input: input}, 60*time.Second, 900*time.Second)
	rec, chunk := limitsOf(c.Opts)
	// what the codec itself may need for one block/window of this frame, plus the configured limits
	ceiling := 4*(uint64(rec)+2*uint64(chunk)) + 1<<20 + 64*uint64(len(input)) + 24<<20
	label := fmt.Sprintf("lexer(opts=%08b, MaxDecompressedChunkSize=%d) on a %d-byte file whose %s chunk declares %d uncompressed bytes and decodes to %d", c.Opts, chunk, len(input), c.Codec, c.Declared, c.Real)
	if c.Reader {
		// the Reader has no configurable limits: what bounds a chunk buffer is the size the chunk declares
		// (checked against the 2 GiB ceiling by makeSafe), plus the codec's own working memory
		ceiling = 4*c.Declared + 1<<20 + 64*uint64(len(input)) + 24<<20
		label = fmt.Sprintf("reader(opts=%06b) on a %d-byte indexed file whose %s chunk declares %d uncompressed bytes; the frame decodes to %d bytes and its header claims %d", c.Opts, len(input), c.Codec, c.Declared, c.Real, c.ClaimFCS)
	}
	if err := judgeHostile("C10", label, o, ceiling); err != nil {
		return err
	}
	st.Case(wl.Hash(c), true, 1, "bomb:"+c.Codec)
	if st.WantSample() {
		st.Sample(map[string]any{"bomb": c, "input_len": len(input), "result": o.Text, "alloc": o.Alloc, "ceiling": ceiling})
	}
	return nil
}

func TestC10Bombs(t *testing.T) {
	pk.RunEnum(t, "C10b", enumC10Bombs, checkC10Bomb)
}
