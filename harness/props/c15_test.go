package props

import (
	"errors"
	"fmt"
	"io"
	"testing"

	"github.com/foxglove/mcap/go/mcap"
	"pgregory.net/rapid"
	"verifharness/faultio"
	"verifharness/mc"
	"verifharness/pk"
	"verifharness/specdec"
	"verifharness/stats"
	"verifharness/wl"
)

type C15Case struct {
	W     wl.Workload
	K     wl.Config
	Sizes []int // generated read-size sequence
}

func genC15(t *rapid.T) C15Case {
	b := genSmallFile(wl.CfgParams{NoCustom: true, NoSkipMagic: true, Compressions: cheapMix}, 10, 40, true)(t)
	return C15Case{W: b.W, K: b.K, Sizes: rapid.SliceOfN(rapid.IntRange(1, 40), 1, 8).Draw(t, "read-sizes")}
}

// outcome is the comparable result of one read: a list of item signatures and how it ended.
type outcome struct {
	sigs   []uint64
	err    error // terminal error; io.EOF = clean
	panic_ string
	extra  uint64 // signature of additional results (Info)
}

func (o *outcome) clean() bool { return o.panic_ == "" && errors.Is(o.err, io.EOF) }

type reader15 struct {
	name     string
	seekable bool
	run      func(r io.Reader) outcome
}

func lexOutcome(p mc.LexParams) func(r io.Reader) outcome {
	return func(r io.Reader) outcome {
		res := mc.LexAll(r, p, false)
		o := outcome{sigs: mc.Sigs(res.Events), err: res.Err, panic_: res.Panic}
		if res.OpenErr != nil {
			o.err = res.OpenErr
		}
		return o
	}
}

func iterOutcome(opts ...mcap.ReadOpt) func(r io.Reader) outcome {
	return func(r io.Reader) outcome {
		res := mc.ReadMessages(r, false, false, 0, opts...)
		o := outcome{err: res.Err, panic_: res.Panic}
		if res.OpenErr != nil {
			o.err = res.OpenErr
		}
		for i := range res.Items {
			o.sigs = append(o.sigs, mc.TripleSig(&res.Items[i]))
		}
		return o
	}
}

func infoOutcome(r io.Reader) (o outcome) {
	defer func() {
		if x := recover(); x != nil {
			o.panic_ = fmt.Sprint(x)
		}
	}()
	rd, err := mcap.NewReader(r)
	if err != nil {
		return outcome{err: err}
	}
	info, err := rd.Info()
	if err != nil {
		return outcome{err: err}
	}
	s := fmt.Sprintf("%+v|%d|%d|%d|%d|%d", info.Statistics, len(info.Channels), len(info.Schemas), len(info.ChunkIndexes), len(info.AttachmentIndexes), len(info.MetadataIndexes))
	for _, ci := range info.ChunkIndexes {
		s += fmt.Sprintf("%+v", *ci)
	}
	return outcome{err: io.EOF, extra: wl.Hash(s)}
}

func readers15() []reader15 {
	lp := mc.LexParams{AttCRC: true, MaxEvents: 100000, PropagateAttErr: true}
	lpv := mc.LexParams{AttCRC: true, ValidateCRC: true, MaxEvents: 100000, PropagateAttErr: true}
	return []reader15{
		{"lexer", false, lexOutcome(lp)},
		{"lexer+validate", false, lexOutcome(lpv)},
		{"lexer(seekable)", true, lexOutcome(lp)},
		{"lexer+validate(seekable)", true, lexOutcome(lpv)},
		{"lexer without attachment callback (skip by copy)", false, lexOutcome(mc.LexParams{NoAttCallback: true, MaxEvents: 100000})},
		{"lexer without attachment callback (skip by seek)", true, lexOutcome(mc.LexParams{NoAttCallback: true, MaxEvents: 100000})},
		{"non-indexed iterator", false, iterOutcome(mcap.UsingIndex(false))},
		{"indexed iterator file order", true, iterOutcome(mcap.UsingIndex(true))},
		{"indexed iterator log-time order", true, iterOutcome(mcap.InOrder(mcap.LogTimeOrder))},
		{"indexed iterator reverse order", true, iterOutcome(mcap.InOrder(mcap.ReverseLogTimeOrder))},
		{"Info", true, infoOutcome},
	}
}

func sameOutcome(a, b *outcome) bool {
	if len(a.sigs) != len(b.sigs) || a.extra != b.extra || a.clean() != b.clean() {
		return false
	}
	for i := range a.sigs {
		if a.sigs[i] != b.sigs[i] {
			return false
		}
	}
	if !a.clean() {
		// both ended with an error: same kind of ending is enough (messages may embed offsets)
		return (a.err == nil) == (b.err == nil)
	}
	return true
}

func mkSource(file []byte, seekable bool, src faultio.Source) (io.Reader, *faultio.Source) {
	src.Data = file
	if src.OneShot {
		if seekable {
			s := &faultio.SeekSource{Source: src}
			return s, &s.Source
		}
		s := &src
		return s, s
	}
	if seekable {
		s := &faultio.SeekSource{Source: src}
		return s, &s.Source
	}
	src.Sticky = true
	s := &src
	return s, s
}

func faultClass(d *specdec.File, p uint64) string {
	if p >= uint64(len(d.Bytes)) {
		return "error-where-eof-was-due"
	}
	if d.DataEndIdx >= 0 && p >= d.Records[d.DataEndIdx].End() {
		return "error-in-summary-or-footer"
	}
	return cutClass(d, p)
}

func checkC15(c C15Case, st *stats.Collector) error {
	w, k := &c.W, c.K
	file, _, err := mc.WriteBytes(w, k)
	if err != nil {
		return pk.Failf("write-error", "writer rejected a well-formed call sequence: %v", err)
	}
	if len(file) > 4000 {
		st.Exclude("file-larger-than-4000-bytes")
		return nil
	}
	d, err := specdec.Decode(file, specOpts(k))
	if err != nil {
		return pk.Failf("specdec", "reference decoder rejects the file: %v", err)
	}
	rs := readers15()
	base := make([]outcome, len(rs))
	for i, r := range rs {
		src, _ := mkSource(file, true, faultio.Source{FailAt: -1})
		base[i] = r.run(src)
		if base[i].panic_ != "" {
			return pk.Failf("panic", "%s on the intact file: %s", r.name, base[i].panic_)
		}
	}
	evals := 0
	// 1. delivery schedules: results must be identical
	scheds := []struct {
		name string
		src  faultio.Source
		at   bool // seekable sources also offer io.ReaderAt
	}{
		{name: "positioned reads on offer (ReadAt returns the final bytes together with EOF)", src: faultio.Source{EOFWithData: true, FailAt: -1}, at: true},
		{name: "positioned reads on offer, generated read sizes", src: faultio.Source{Sizes: c.Sizes, FailAt: -1}, at: true},
		{name: "1-byte reads", src: faultio.Source{Sizes: []int{1}, FailAt: -1}},
		{name: "halving reads", src: faultio.Source{Halving: true, FailAt: -1}},
		{name: "generated read sizes", src: faultio.Source{Sizes: c.Sizes, FailAt: -1}},
		{name: "data together with EOF", src: faultio.Source{EOFWithData: true, FailAt: -1}},
		{name: "generated sizes + data with EOF", src: faultio.Source{Sizes: c.Sizes, EOFWithData: true, FailAt: -1}},
	}
	for _, sc := range scheds {
		for i, r := range rs {
			src, _ := mkSource(file, r.seekable, sc.src)
			if sc.at && r.seekable {
				a := &faultio.AtSeekSource{SeekSource: faultio.SeekSource{Source: sc.src}}
				a.Data = file
				src = a
			}
			got := r.run(src)
			evals++
			if got.panic_ != "" {
				return pk.Failf("panic", "%s with %s: %s", r.name, sc.name, got.panic_)
			}
			if !sameOutcome(&got, &base[i]) {
				return pk.Failf("delivery-dependent", "%s with %s: %d items ending %v; with plain delivery %d items ending %v", r.name, sc.name, len(got.sigs), got.err, len(base[i].sigs), base[i].err)
			}
		}
	}
	// 2. an I/O error at every byte position
	classes := map[string]int64{}
	// position len(file) is the read after the last byte: the source reports an error where io.EOF was due
	for p := 0; p <= len(file); p++ {
		cl := faultClass(d, uint64(p))
		for variant := 0; variant < 3; variant++ {
			together := variant == 1
			oneShot := variant == 2
			if together && p == len(file) {
				// the final bytes arriving together with an error: io.ReadFull itself reports success once
				// the buffer is full (documented io semantics), so nothing can be demanded of its callers
				continue
			}
			for i, r := range rs {
				src, h := mkSource(file, r.seekable, faultio.Source{FailAt: p, Together: together, OneShot: oneShot})
				got := r.run(src)
				evals++
				label := fmt.Sprintf("%s, source error at byte %d of %d (%s, together=%v, one-shot=%v)", r.name, p, len(file), cl, together, oneShot)
				if got.panic_ != "" {
					return pk.Failf("panic", "%s: %s", label, got.panic_)
				}
				if !h.Fired {
					if !sameOutcome(&got, &base[i]) {
						return pk.Failf("untouched-differs", "%s: the faulty byte was never read, yet the result differs from the fault-free read", label)
					}
					continue
				}
				classes[cl]++
				// prefix
				if len(got.sigs) > len(base[i].sigs) {
					return pk.Failf("extra", "%s: %d items, the fault-free read has %d", label, len(got.sigs), len(base[i].sigs))
				}
				for j := range got.sigs {
					if got.sigs[j] != base[i].sigs[j] {
						return pk.Failf("altered", "%s: item #%d differs from the fault-free read", label, j)
					}
				}
				if got.err == nil {
					return pk.Failf("no-error", "%s: the source reported an I/O error but the read ended without one", label)
				}
				if errors.Is(got.err, io.EOF) {
					return pk.Failf("error-as-eof", "%s: the source reported an I/O error but the read ended with a clean end-of-file (%v) after %d of %d items", label, got.err, len(got.sigs), len(base[i].sigs))
				}
			}
		}
	}
	// 3. the source's Seek fails (once, or from then on) at every Seek call of a history of calls on one Reader
	n3, err := checkSeekFaults(file, classes)
	if err != nil {
		return err
	}
	evals += n3
	for cl, n := range classes {
		st.Class(cl, n)
	}
	st.Class(fmt.Sprintf("files,chunked=%v,compression=%s", k.Chunked, k.Compression), 1)
	nt := classes["cut-in-chunk-payload"] + classes["cut-in-compressed-frame"] + classes["error-in-summary-or-footer"] + classes["cut-in-record-header"]
	st.Case(wl.Hash(c), nt > 0, evals)
	if st.WantSample() {
		st.Sample(map[string]any{"W": w.Trunc(10), "K": k, "Sizes": c.Sizes, "file_len": len(file), "faulted_reads": evals})
	}
	return nil
}

// ---- Seek faults

type seekOp struct {
	name string
	info bool
	opts []mcap.ReadOpt
}

type seekSession struct {
	name string
	ops  []seekOp
}

func seekSessions() []seekSession {
	info := seekOp{name: "Info", info: true}
	def := seekOp{name: "Messages()"}
	seq := seekOp{name: "Messages(UsingIndex(false))", opts: []mcap.ReadOpt{mcap.UsingIndex(false)}}
	lt := seekOp{name: "Messages(LogTimeOrder)", opts: []mcap.ReadOpt{mcap.InOrder(mcap.LogTimeOrder)}}
	rev := seekOp{name: "Messages(ReverseLogTimeOrder)", opts: []mcap.ReadOpt{mcap.InOrder(mcap.ReverseLogTimeOrder)}}
	return []seekSession{
		{"Info, Messages()", []seekOp{info, def}},
		{"Messages(), Messages()", []seekOp{def, def}},
		{"Messages(UsingIndex(false)) twice", []seekOp{seq, seq}},
		{"Info, Messages(UsingIndex(false))", []seekOp{info, seq}},
		{"log-time, reverse", []seekOp{lt, rev}},
		{"Messages(), Info, Messages(UsingIndex(false))", []seekOp{def, info, seq}},
	}
}

// runSeekSession performs the calls on one Reader over src; seeksAtOpen is the source's Seek count when NewReader
// returned.
func runSeekSession(src *faultio.SeekSource, ops []seekOp, limit int) (res []outcome, seeksAtOpen int, panic_ string) {
	defer func() {
		if x := recover(); x != nil {
			panic_ = fmt.Sprint(x)
		}
	}()
	rd, err := mcap.NewReader(src)
	seeksAtOpen = src.Seeks
	if err != nil {
		return []outcome{{err: err}}, seeksAtOpen, ""
	}
	defer rd.Close()
	for _, op := range ops {
		if op.info {
			info, err := rd.Info()
			if err != nil {
				res = append(res, outcome{err: err})
				continue
			}
			res = append(res, outcome{err: io.EOF, extra: wl.Hash(fmt.Sprintf("%+v|%d|%d|%d", info.Statistics, len(info.Channels), len(info.Schemas), len(info.ChunkIndexes)))})
			continue
		}
		it, err := rd.Messages(op.opts...)
		if err != nil {
			res = append(res, outcome{err: err})
			continue
		}
		o := outcome{}
		for len(o.sigs) <= limit {
			sc, ch, m, err := it.NextInto(nil)
			if err != nil {
				o.err = err
				break
			}
			tr := mc.Triple{S: mc.FromSchema(sc), C: mc.FromChannel(ch), M: mc.FromMessage(m)}
			o.sigs = append(o.sigs, mc.TripleSig(&tr))
		}
		res = append(res, o)
	}
	return res, seeksAtOpen, ""
}

func checkSeekFaults(file []byte, classes map[string]int64) (int, error) {
	evals := 0
	for _, ss := range seekSessions() {
		clean := &faultio.SeekSource{Source: faultio.Source{Data: file, FailAt: -1}}
		base, _, pn := runSeekSession(clean, ss.ops, 1<<20)
		if pn != "" {
			return evals, pk.Failf("panic", "calls [%s] on one Reader over the intact file: %s", ss.name, pn)
		}
		if len(base) != len(ss.ops) {
			return evals, pk.Failf("open", "NewReader over the intact file: %v", base[0].err)
		}
		longest := 0
		for _, b := range base {
			if len(b.sigs) > longest {
				longest = len(b.sigs)
			}
		}
		for k := 1; k <= clean.Seeks; k++ {
			for _, sticky := range []bool{false, true} {
				src := &faultio.SeekSource{Source: faultio.Source{Data: file, FailAt: -1}, SeekFail: k, SeekSticky: sticky}
				got, atOpen, pn := runSeekSession(src, ss.ops, longest+4)
				evals++
				label := fmt.Sprintf("calls [%s] on one Reader, the source's Seek call #%d of %d fails (from then on: %v)", ss.name, k, clean.Seeks, sticky)
				if pn != "" {
					return evals, pk.Failf("panic", "%s: %s", label, pn)
				}
				if !src.SeekFired {
					continue
				}
				// a source whose Seek fails while it is opened is a stream to the Reader: one pass over it, so
				// only the calls up to the first completed sequence are judged for completeness
				streamed := k <= atOpen
				switch {
				case streamed:
					classes["seek-fault-at-open"]++
				default:
					classes["seek-fault-in-call"]++
				}
				passed := false
				for i := range got {
					if i >= len(base) || !base[i].clean() {
						break
					}
					g, b := &got[i], &base[i]
					opLabel := fmt.Sprintf("%s: call #%d (%s)", label, i+1, ss.ops[i].name)
					if g.err == nil {
						return evals, pk.Failf("extra", "%s: more than %d items, the fault-free call returns %d", opLabel, len(g.sigs)-1, len(b.sigs))
					}
					if len(g.sigs) > len(b.sigs) {
						return evals, pk.Failf("extra", "%s: %d items, the fault-free call returns %d", opLabel, len(g.sigs), len(b.sigs))
					}
					if !ss.ops[i].info {
						for j := range g.sigs {
							if g.sigs[j] != b.sigs[j] {
								return evals, pk.Failf("altered", "%s: item #%d differs from the fault-free call", opLabel, j)
							}
						}
					}
					if !g.clean() || (streamed && passed) {
						continue
					}
					if ss.ops[i].info {
						if g.extra != b.extra {
							return evals, pk.Failf("altered", "%s: Info differs from the fault-free call", opLabel)
						}
						continue
					}
					if len(g.sigs) != len(b.sigs) {
						return evals, pk.Failf("error-as-eof", "%s: the source reported an I/O error from Seek, and this call ended with a clean end-of-file after %d of %d items", opLabel, len(g.sigs), len(b.sigs))
					}
					passed = true
				}
			}
		}
	}
	return evals, nil
}

func TestC15(t *testing.T) {
	pk.Run(t, "C15", genC15, checkC15)
}
