package props

import (
	"bytes"
	"errors"
	"fmt"
	"io"
	"os"
	"strconv"
	"testing"

	"github.com/foxglove/mcap/go/mcap"
	"pgregory.net/rapid"
	"verifharness/mc"
	"verifharness/pk"
	"verifharness/specdec"
	"verifharness/specenc"
	"verifharness/stats"
	"verifharness/wl"
)

// placement of each message (identified by its unique sequence number) in a decoded file
type placement struct {
	chunkOf map[uint32]int
	filePos map[uint32]int
	nChunks int
	// chunk time ranges that overlap or run backwards?
	overlap bool
	ties    bool
}

func placementOf(d *specdec.File) placement {
	p := placement{chunkOf: map[uint32]int{}, filePos: map[uint32]int{}}
	pos := 0
	type rng struct{ s, e uint64 }
	var rs []rng
	seenT := map[uint64]bool{}
	for i, r := range d.Records {
		if d.DataEndIdx >= 0 && i >= d.DataEndIdx {
			break
		}
		switch r.Op {
		case specdec.OpChunk:
			has := false
			for _, in := range r.Inner {
				if in.Op == specdec.OpMessage {
					p.chunkOf[in.Sequence] = p.nChunks
					p.filePos[in.Sequence] = pos
					pos++
					has = true
					if seenT[in.LogTime] {
						p.ties = true
					}
					seenT[in.LogTime] = true
				}
			}
			if has {
				rs = append(rs, rng{r.MessageStartTime, r.MessageEndTime})
			}
			p.nChunks++
		case specdec.OpMessage:
			p.chunkOf[r.Sequence] = -1
			p.filePos[r.Sequence] = pos
			pos++
		}
	}
	for i := 1; i < len(rs); i++ {
		for j := 0; j < i; j++ {
			if rs[i].s <= rs[j].e { // overlaps an earlier chunk or lies before it
				p.overlap = true
			}
		}
	}
	return p
}

// checkSelection judges what a read returned against the expected selection (a subset of the
// file's messages, given in file order).
func checkSelection(label string, got []mc.Triple, want []wl.MsgRef, pl placement, order mcap.ReadOrder) error {
	if order == mcap.FileOrder {
		return compareTriples(label, got, want)
	}
	bySeq := map[uint32]wl.MsgRef{}
	for _, m := range want {
		bySeq[m.M.Sequence] = m
	}
	seen := map[uint32]bool{}
	type key struct {
		chunk int
		t     uint64
	}
	last := map[key]int{}
	for i, g := range got {
		m, ok := bySeq[g.M.Sequence]
		if !ok {
			return pk.Failf("extra", "%s: item #%d (seq %d, t=%d) is not in the selection", label, i, g.M.Sequence, g.M.LogTime)
		}
		if seen[g.M.Sequence] {
			return pk.Failf("duplicate", "%s: message seq %d returned twice", label, g.M.Sequence)
		}
		seen[g.M.Sequence] = true
		if !pk.EqMessage(g.M, m.M) || !pk.EqChannel(g.C, m.C) || !pk.EqSchema(g.S, m.S) {
			return pk.Failf("content", "%s: item #%d differs from the written message seq %d", label, i, g.M.Sequence)
		}
		if i > 0 {
			a, b := got[i-1].M.LogTime, g.M.LogTime
			if (order == mcap.LogTimeOrder && a > b) || (order == mcap.ReverseLogTimeOrder && a < b) {
				return pk.Failf("order", "%s: log time goes from %d to %d at item #%d", label, a, b, i)
			}
		}
		k := key{pl.chunkOf[g.M.Sequence], g.M.LogTime}
		fp := pl.filePos[g.M.Sequence]
		if prev, ok := last[k]; ok {
			if (order == mcap.LogTimeOrder && fp < prev) || (order == mcap.ReverseLogTimeOrder && fp > prev) {
				return pk.Failf("tie-order", "%s: messages of chunk %d sharing log time %d are not in (reverse) file order", label, k.chunk, k.t)
			}
		}
		last[k] = fp
	}
	if len(got) != len(want) {
		for _, m := range want {
			if !seen[m.M.Sequence] {
				return pk.Failf("missing", "%s: %d of %d selected messages returned; e.g. seq %d (t=%d, topic %q) is missing", label, len(got), len(want), m.M.Sequence, m.M.LogTime, m.C.Topic)
			}
		}
	}
	return nil
}

// selectionWithKnownFindings tolerates exactly the open finding on 2^64-1 under an open-ended window.
func checkSelectionKF(st *stats.Collector, prop, label string, got []mc.Triple, all []wl.MsgRef, topics []string, s, e uint64, endOpen bool, pl placement, order mcap.ReadOrder) error {
	want := wl.Select(all, topics, s, e, endOpen)
	err := checkSelection(label, got, want, pl, order)
	if err == nil || !endOpen || !hasMaxTime(want) || !pk.Open(prop, "maxtime-default-window") {
		return err
	}
	if checkSelection(label, got, wl.Select(all, topics, s, maxT, false), pl, order) == nil {
		st.KnownFinding("maxtime-default-window", pk.What(prop, "maxtime-default-window"))
		return nil
	}
	return err
}

// ---- part 1: exhaustive small scope

// Arr is an arrangement: per chunk, the log times of its messages (one channel).
type Arr struct {
	Chunks [][]uint64
	// Chans, when set, gives the channel (0/1) of each message, same shape as Chunks.
	Chans [][]int `json:",omitempty"`
}

func decodeChunkCode(code, base, maxLen int) []int {
	// codes 0..: length 0 first, then length 1 (base values), length 2, ...
	n := 0
	size := 1
	for code >= size {
		code -= size
		size *= base
		n++
	}
	out := make([]int, n)
	for i := n - 1; i >= 0; i-- {
		out[i] = code % base
		code /= base
	}
	return out
}

func chunkCodes(base, maxLen int) int {
	t, size := 0, 1
	for n := 0; n <= maxLen; n++ {
		t += size
		size *= base
	}
	return t
}

// arrWorkload turns an arrangement into a workload + the op indexes after which chunks end.
func arrWorkload(a Arr) (wl.Workload, []int, bool) {
	w := wl.Workload{}
	w.Ops = append(w.Ops, wl.Op{C: &wl.Channel{ID: 0, Topic: "/a"}})
	twoCh := a.Chans != nil
	if twoCh {
		w.Ops = append(w.Ops, wl.Op{C: &wl.Channel{ID: 1, Topic: "/b"}})
	}
	var cuts []int
	seq := uint32(0)
	hasEmpty := false
	for ci, ch := range a.Chunks {
		if len(ch) == 0 {
			hasEmpty = true
			// message-free chunk: a re-statement of channel 0 only
			c := *w.Ops[0].C
			w.Ops = append(w.Ops, wl.Op{C: &c})
		}
		for mi, t := range ch {
			m := &wl.Message{Sequence: seq, LogTime: t, PublishTime: t}
			if twoCh {
				m.ChannelID = uint16(a.Chans[ci][mi])
			}
			seq++
			w.Ops = append(w.Ops, wl.Op{M: m})
		}
		cuts = append(cuts, len(w.Ops)-1)
	}
	return w, cuts, hasEmpty
}

// buildArr produces the file: through the Go writer when it can emit the arrangement (boundaries
// forced by an oversize payload on the last message of each chunk), else through the reference encoder.
func buildArr(a Arr) ([]byte, string, *wl.Workload, error) {
	w, cuts, hasEmpty := arrWorkload(a)
	if !hasEmpty {
		const chunkSize = 170
		for _, c := range cuts[:len(cuts)-1] {
			w.Ops[c].M.Data = make([]byte, 220)
		}
		file, _, err := mc.WriteBytes(&w, wl.Config{Chunked: true, ChunkSize: chunkSize, IncludeCRC: true})
		return file, "go-writer", &w, err
	}
	file, _, err := specenc.Encode(&w, specenc.Layout{Chunked: true, CutAfter: cuts, MessageIndex: true, ChunkIndex: true, RepeatSchemas: true,
		RepeatChannels: true, Statistics: true, SummaryOffsets: true, CRC: true, SortedMaps: true})
	return file, "specenc", &w, err
}

func readOrdered(file []byte, opts ...mcap.ReadOpt) mc.IterResult {
	return mc.ReadMessages(bytes.NewReader(file), false, false, 0, opts...)
}

func checkArr(a Arr, st *stats.Collector) error {
	file, producer, wUsed, err := buildArr(a)
	if err != nil {
		return pk.Failf("harness", "cannot build arrangement: %v", err)
	}
	d, err := specdec.Decode(file, specdec.Options{})
	if err != nil {
		return pk.Failf("harness", "reference decoder rejects %s output: %v", producer, err)
	}
	pl := placementOf(d)
	// sanity: the file realises the intended arrangement
	if pl.nChunks != len(a.Chunks) {
		return pk.Failf("harness", "arrangement %v realised as %d chunks by %s", a.Chunks, pl.nChunks, producer)
	}
	seq := uint32(0)
	for ci, ch := range a.Chunks {
		for range ch {
			if pl.chunkOf[seq] != ci {
				return pk.Failf("harness", "arrangement %v: message %d landed in chunk %d", a.Chunks, seq, pl.chunkOf[seq])
			}
			seq++
		}
	}
	all := wUsed.Messages()
	for _, order := range []mcap.ReadOrder{mcap.LogTimeOrder, mcap.ReverseLogTimeOrder} {
		label := fmt.Sprintf("%s order=%d", producer, order)
		r1 := readOrdered(file, mcap.InOrder(order))
		if !r1.Clean() {
			return pk.Failf("read-error", "%s: panic=%q open=%v err=%v", label, r1.Panic, r1.OpenErr, r1.Err)
		}
		if err := checkSelection(label, r1.Items, all, pl, order); err != nil {
			return err
		}
		r2 := readOrdered(file, mcap.InOrder(order))
		if !r2.Clean() || len(r2.Items) != len(r1.Items) {
			return pk.Failf("repeat", "%s: second read differs (%d vs %d items, err %v)", label, len(r2.Items), len(r1.Items), r2.Err)
		}
		for i := range r1.Items {
			if r1.Items[i].M.Sequence != r2.Items[i].M.Sequence {
				return pk.Failf("repeat", "%s: second read returns a different sequence at item #%d", label, i)
			}
		}
	}
	nontrivial := pl.overlap || pl.ties
	classes := []string{"producer=" + producer, fmt.Sprintf("chunks=%d", len(a.Chunks))}
	if pl.overlap {
		classes = append(classes, "overlapping-or-backward-chunks")
	}
	if pl.ties {
		classes = append(classes, "ties")
	}
	st.Case(wl.Hash(a), nontrivial, 4, classes...)
	if nontrivial && st.WantSample() && len(a.Chunks) == 3 {
		st.Sample(a)
	}
	return nil
}

func shardInfo() (int, int) {
	v := os.Getenv("VERIF_SHARD_INDEX")
	if v == "" {
		v = os.Getenv("VERIF_SHARD")
	}
	sh, _ := strconv.Atoi(v)
	n, _ := strconv.Atoi(os.Getenv("VERIF_SHARDS"))
	if n <= 0 {
		n = 1
	}
	return sh, n
}

func seedInt() uint64 {
	s, _ := strconv.ParseUint(os.Getenv("VERIF_SEED"), 10, 64)
	return s
}

// enumArr enumerates the 1..3-chunk scope over one channel. In the quick tier the 3-chunk part is
// a seeded 1/40 sample (a stride with a seed-dependent phase); the 1-2 chunk part is always complete.
func enumArr(full bool) func(yield func(Arr) bool) {
	return func(yield func(Arr) bool) {
		sh, nsh := shardInfo()
		per := chunkCodes(4, 3) // 85
		toTimes := func(code int) []uint64 {
			v := decodeChunkCode(code, 4, 3)
			out := make([]uint64, len(v))
			for i, x := range v {
				out[i] = uint64(x)
			}
			return out
		}
		idx := 0
		emit := func(a Arr) bool {
			idx++
			if idx%nsh != sh {
				return true
			}
			return yield(a)
		}
		for c1 := 0; c1 < per; c1++ {
			if !emit(Arr{Chunks: [][]uint64{toTimes(c1)}}) {
				return
			}
		}
		for c1 := 0; c1 < per; c1++ {
			for c2 := 0; c2 < per; c2++ {
				if !emit(Arr{Chunks: [][]uint64{toTimes(c1), toTimes(c2)}}) {
					return
				}
			}
		}
		phase := int(seedInt() % 40)
		n := 0
		for c1 := 0; c1 < per; c1++ {
			for c2 := 0; c2 < per; c2++ {
				for c3 := 0; c3 < per; c3++ {
					n++
					if !full && n%40 != phase {
						continue
					}
					if !emit(Arr{Chunks: [][]uint64{toTimes(c1), toTimes(c2), toTimes(c3)}}) {
						return
					}
				}
			}
		}
	}
}

// ---- part 2: exhaustive small scope with two channels, all windows, topic sets and orders

var part2Topics = [][]string{nil, {"/a"}, {"/b"}, {"/a", "/b"}, {"/nope"}}

func enumArr2() func(yield func(Arr) bool) {
	return func(yield func(Arr) bool) {
		sh, nsh := shardInfo()
		per := chunkCodes(6, 2) // 43
		dec := func(code int) ([]uint64, []int) {
			v := decodeChunkCode(code, 6, 2)
			ts := make([]uint64, len(v))
			cs := make([]int, len(v))
			for i, x := range v {
				ts[i] = uint64(x % 3)
				cs[i] = x / 3
			}
			return ts, cs
		}
		idx := 0
		emit := func(a Arr) bool {
			idx++
			if idx%nsh != sh {
				return true
			}
			return yield(a)
		}
		for c1 := 0; c1 < per; c1++ {
			t1, ch1 := dec(c1)
			if !emit(Arr{Chunks: [][]uint64{t1}, Chans: [][]int{ch1}}) {
				return
			}
			for c2 := 0; c2 < per; c2++ {
				t2, ch2 := dec(c2)
				if !emit(Arr{Chunks: [][]uint64{t1, t2}, Chans: [][]int{ch1, ch2}}) {
					return
				}
			}
		}
	}
}

func checkArr2(prop string) func(a Arr, st *stats.Collector) error {
	return func(a Arr, st *stats.Collector) error {
		file, producer, wUsed, err := buildArr(a)
		if err != nil {
			return pk.Failf("harness", "cannot build arrangement: %v", err)
		}
		d, err := specdec.Decode(file, specdec.Options{})
		if err != nil {
			return pk.Failf("harness", "reference decoder rejects %s output: %v", producer, err)
		}
		pl := placementOf(d)
		all := wUsed.Messages()
		reads := 0
		properSubset := false
		for s := uint64(0); s <= 3; s++ {
			for e := s; e <= 3; e++ {
				for _, topics := range part2Topics {
					want := wl.Select(all, topics, s, e, false)
					if len(want) > 0 && len(want) < len(all) {
						properSubset = true
					}
					for _, order := range []mcap.ReadOrder{mcap.FileOrder, mcap.LogTimeOrder, mcap.ReverseLogTimeOrder} {
						opts := []mcap.ReadOpt{mcap.InOrder(order), mcap.AfterNanos(s), mcap.BeforeNanos(e)}
						if topics != nil {
							opts = append(opts, mc.Topics(topics))
						}
						label := fmt.Sprintf("%s [%d,%d) topics=%v order=%d", producer, s, e, topics, order)
						r := readOrdered(file, opts...)
						reads++
						if !r.Clean() {
							return pk.Failf("read-error", "%s: panic=%q open=%v err=%v", label, r.Panic, r.OpenErr, r.Err)
						}
						if err := checkSelection(label, r.Items, want, pl, order); err != nil {
							return err
						}
					}
				}
			}
		}
		nontrivial := properSubset && (pl.overlap || pl.ties)
		st.Case(wl.Hash(a), nontrivial, reads, "part2", "producer="+producer)
		if nontrivial && st.WantSample() && len(a.Chunks) == 2 {
			st.Sample(a)
		}
		return nil
	}
}

// ---- part 2b: the 3-chunk scope with two channels: every file of 3 chunks x 0-2 messages x log times {0..3}
// x channels {/a,/b} (73^3 = 389017 arrangements), read with each single-topic selection and without, in all
// three orders, plus one window. Between parts 1 and 2 this is where "a third chunk overlaps the first two
// and a topic filter hides some of its messages" lives. Complete in the thorough tier; the quick tier takes a
// seed-phased 1/40 stride.
func enumArr3(full bool) func(yield func(Arr) bool) {
	return func(yield func(Arr) bool) {
		sh, nsh := shardInfo()
		per := chunkCodes(8, 2) // 73
		dec := func(code int) ([]uint64, []int) {
			v := decodeChunkCode(code, 8, 2)
			ts := make([]uint64, len(v))
			cs := make([]int, len(v))
			for i, x := range v {
				ts[i] = uint64(x % 4)
				cs[i] = x / 4
			}
			return ts, cs
		}
		phase := int((seedInt() * 7) % 40)
		n, idx := 0, 0
		for c1 := 0; c1 < per; c1++ {
			t1, ch1 := dec(c1)
			for c2 := 0; c2 < per; c2++ {
				t2, ch2 := dec(c2)
				for c3 := 0; c3 < per; c3++ {
					n++
					if !full && n%40 != phase {
						continue
					}
					idx++
					if idx%nsh != sh {
						continue
					}
					t3, ch3 := dec(c3)
					if !yield(Arr{Chunks: [][]uint64{t1, t2, t3}, Chans: [][]int{ch1, ch2, ch3}}) {
						return
					}
				}
			}
		}
	}
}

func checkArr3(a Arr, st *stats.Collector) error {
	file, producer, wUsed, err := buildArr(a)
	if err != nil {
		return pk.Failf("harness", "cannot build arrangement: %v", err)
	}
	d, err := specdec.Decode(file, specdec.Options{})
	if err != nil {
		return pk.Failf("harness", "reference decoder rejects %s output: %v", producer, err)
	}
	pl := placementOf(d)
	all := wUsed.Messages()
	reads := 0
	read := func(topics []string, window bool, order mcap.ReadOrder) error {
		opts := []mcap.ReadOpt{mcap.InOrder(order)}
		s, e := uint64(0), uint64(0)
		if window {
			s, e = 1, 3
			opts = append(opts, mcap.AfterNanos(s), mcap.BeforeNanos(e))
		}
		if topics != nil {
			opts = append(opts, mc.Topics(topics))
		}
		label := fmt.Sprintf("%s topics=%v window=%v order=%d", producer, topics, window, order)
		r := readOrdered(file, opts...)
		reads++
		if !r.Clean() {
			return pk.Failf("read-error", "%s: panic=%q open=%v err=%v", label, r.Panic, r.OpenErr, r.Err)
		}
		return checkSelection(label, r.Items, wl.Select(all, topics, s, e, !window), pl, order)
	}
	for _, topics := range [][]string{nil, {"/a"}, {"/b"}} {
		for _, order := range []mcap.ReadOrder{mcap.LogTimeOrder, mcap.ReverseLogTimeOrder, mcap.FileOrder} {
			if err := read(topics, false, order); err != nil {
				return err
			}
		}
	}
	for _, order := range []mcap.ReadOrder{mcap.LogTimeOrder, mcap.ReverseLogTimeOrder} {
		if err := read([]string{"/a"}, true, order); err != nil {
			return err
		}
	}
	nontrivial := pl.overlap || pl.ties
	st.Case(wl.Hash(a), nontrivial, reads, "part2b", "producer="+producer)
	if nontrivial && st.WantSample() {
		st.Sample(a)
	}
	return nil
}

// ---- part 3: random larger files

type C03Case struct {
	W      wl.Workload
	K      wl.Config
	Topics []string
	S, E   uint64
	Window bool
}

func genTopics(t *rapid.T, w *wl.Workload) []string {
	chans := w.Channels()
	used := map[uint16]bool{}
	for _, m := range w.Messages() {
		used[m.M.ChannelID] = true
	}
	switch rapid.IntRange(0, 6).Draw(t, "topic-kind") {
	case 0:
		return nil
	case 1:
		return []string{}
	case 2:
		return []string{"/unknown-topic"}
	case 3:
		if len(chans) > 0 {
			return []string{chans[rapid.IntRange(0, len(chans)-1).Draw(t, "one-topic")].Topic}
		}
	case 4:
		var out []string
		for _, c := range chans {
			if rapid.Bool().Draw(t, "in-subset") {
				out = append(out, c.Topic)
			}
		}
		return out
	case 5:
		var out []string
		for _, c := range chans {
			out = append(out, c.Topic)
		}
		return out
	default:
		for _, c := range chans {
			if !used[c.ID] {
				return []string{c.Topic}
			}
		}
	}
	return nil
}

func genWindow(t *rapid.T, w *wl.Workload) (uint64, uint64) {
	cands := []uint64{0, 1, 1 << 63, 1<<64 - 2, 1<<64 - 1}
	for _, m := range w.Messages() {
		cands = append(cands, m.M.LogTime, m.M.LogTime+1, m.M.LogTime-1)
	}
	a := rapid.SampledFrom(cands).Draw(t, "w-a")
	b := rapid.SampledFrom(cands).Draw(t, "w-b")
	if a > b {
		a, b = b, a
	}
	return a, b
}

func genC03(t *rapid.T) C03Case {
	k := wl.GenConfig(t, wl.CfgParams{Indexed: true, SmallChunks: true})
	mode := rapid.SampledFrom([]int{1, 1, 3, 4, 5, 0}).Draw(t, "c03-time-mode")
	maxMsgs := 120
	if pk.Thorough() {
		maxMsgs = 600
	}
	w := wl.GenWorkload(t, wl.GenParams{ChunkHint: k.ChunkSize, TimeMode: mode, NoLong: true, UniqueSeq: true, MaxMsgs: maxMsgs, MinMsgs: 10, NoAttach: true, NoMeta: true, MaxPayload: 400})
	c := C03Case{W: w, K: k, Topics: genTopics(t, &w)}
	if rapid.Bool().Draw(t, "window?") {
		c.Window = true
		c.S, c.E = genWindow(t, &w)
	}
	return c
}

func checkC03(c C03Case, st *stats.Collector) error {
	w, k := &c.W, c.K
	file, _, err := mc.WriteBytes(w, k)
	if err != nil {
		return pk.Failf("write-error", "writer rejected a well-formed call sequence: %v", err)
	}
	d, err := specdec.Decode(file, specOpts(k))
	if err != nil {
		return pk.Failf("specdec", "reference decoder rejects the file: %v", err)
	}
	pl := placementOf(d)
	all := w.Messages()
	for _, order := range []mcap.ReadOrder{mcap.LogTimeOrder, mcap.ReverseLogTimeOrder} {
		opts := []mcap.ReadOpt{mcap.InOrder(order)}
		if c.Topics != nil {
			opts = append(opts, mc.Topics(c.Topics))
		}
		if c.Window {
			opts = append(opts, mcap.AfterNanos(c.S), mcap.BeforeNanos(c.E))
		}
		label := fmt.Sprintf("order=%d topics=%v window=%v[%d,%d)", order, c.Topics, c.Window, c.S, c.E)
		r1 := readOrdered(file, opts...)
		if r1.Panic != "" {
			return pk.Failf("panic", "%s: %s", label, r1.Panic)
		}
		if r1.OpenErr != nil || !errors.Is(r1.Err, io.EOF) {
			if len(d.Summary(specdec.OpChunkIndex)) == 0 || len(d.Summary(specdec.OpChannel)) == 0 {
				st.Note("file-without-usable-index")
				continue
			}
			return pk.Failf("read-error", "%s: open=%v err=%v", label, r1.OpenErr, r1.Err)
		}
		if err := checkSelectionKF(st, "C03", label, r1.Items, all, c.Topics, c.S, c.E, !c.Window, pl, order); err != nil {
			return err
		}
		// (the options are built anew: the caller's topic slice behind the first set has been overwritten)
		opts2 := []mcap.ReadOpt{mcap.InOrder(order)}
		if c.Topics != nil {
			opts2 = append(opts2, mc.Topics(c.Topics))
		}
		if c.Window {
			opts2 = append(opts2, mcap.AfterNanos(c.S), mcap.BeforeNanos(c.E))
		}
		r2 := readOrdered(file, opts2...)
		if len(r2.Items) != len(r1.Items) {
			return pk.Failf("repeat", "%s: second read returns %d items, first %d", label, len(r2.Items), len(r1.Items))
		}
		for i := range r1.Items {
			if r1.Items[i].M.Sequence != r2.Items[i].M.Sequence {
				return pk.Failf("repeat", "%s: second read differs at item #%d", label, i)
			}
		}
	}
	nontrivial := pl.nChunks >= 2 && (pl.overlap || pl.ties)
	classes := []string{"part3", "compression=" + k.Compression}
	switch {
	case pl.nChunks >= 30:
		classes = append(classes, "chunks>=30")
	case pl.nChunks >= 10:
		classes = append(classes, "chunks=10-29")
	case pl.nChunks >= 2:
		classes = append(classes, "chunks=2-9")
	default:
		classes = append(classes, "chunks<2")
	}
	if pl.overlap {
		classes = append(classes, "overlapping-or-backward-chunks")
	}
	if pl.ties {
		classes = append(classes, "ties")
	}
	if c.Window {
		classes = append(classes, "window")
	}
	if len(c.Topics) > 0 {
		classes = append(classes, "topics")
	}
	if hasMaxTime(all) {
		classes = append(classes, "has-maxtime")
	}
	st.Case(wl.Hash(c), nontrivial, 4, classes...)
	if nontrivial && st.WantSample() {
		st.Sample(C03Case{W: w.Trunc(8), K: k, Topics: c.Topics, S: c.S, E: c.E, Window: c.Window})
	}
	return nil
}

func TestC03(t *testing.T) {
	pk.Run(t, "C03", genC03, checkC03)
}

func TestC03Exhaustive(t *testing.T) {
	pk.RunEnum(t, "C03x1", enumArr(pk.Thorough()), checkArr)
	pk.RunEnum(t, "C03x2", enumArr2(), checkArr2("C03"))
	pk.RunEnum(t, "C03x3", enumArr3(pk.Thorough()), checkArr3)
}
