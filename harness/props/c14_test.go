package props

import (
	"bytes"
	"fmt"
	"io"
	"strings"
	"testing"

	"github.com/foxglove/mcap/go/mcap"
	"pgregory.net/rapid"
	"verifharness/faultio"
	"verifharness/mc"
	"verifharness/pk"
	"verifharness/stats"
	"verifharness/wl"
)

func genC14(t *rapid.T) WKCase {
	k := wl.GenConfig(t, wl.CfgParams{Compressions: []string{"", "", "", "zstd", "lz4", "custom"}})
	if k.Chunked && k.ChunkSize > 1024 {
		k.ChunkSize = rapid.SampledFrom([]int64{50, 100, 300, 1024, 1 << 20}).Draw(t, "c14-chunksize")
	}
	w := wl.GenWorkload(t, wl.GenParams{ChunkHint: 60, NoLong: true, MaxMsgs: 20, MaxPayload: 300, SmallIDs: true, MinMsgs: 2})
	return WKCase{W: w, K: k}
}

// runFaulted executes the whole call sequence against a faulting sink and applies the C14 oracle.
func runFaulted(w *wl.Workload, k wl.Config, sink *faultio.Sink, golden []byte) (firedIn string, err error) {
	call := func(i int, name string, f func() error) (e error, pan string) {
		sink.CurCall = i
		defer func() {
			if x := recover(); x != nil {
				pan = fmt.Sprint(x)
			}
		}()
		return f(), ""
	}
	var mw *mcap.Writer
	e, pan := call(0, "NewWriter", func() error {
		var err error
		mw, err = mcap.NewWriter(sink, mc.Options(k))
		return err
	})
	if pan != "" {
		return "", pk.Failf("panic", "NewWriter panicked: %s", pan)
	}
	check := func(i int, name string, e error) error {
		if sink.Fired && sink.FiredCall == i && e == nil {
			return pk.Failf("swallowed", "sink write #%d failed (short=%v short-count-with-nil-error=%v permanent=%v) during %s (call %d), which returned nil", sink.FailAt, sink.Short, sink.Silent, sink.Permanent, name, i)
		}
		if sink.Fired && sink.FiredCall == i {
			firedIn = name
		}
		return nil
	}
	if err := check(0, "NewWriter", e); err != nil {
		return firedIn, err
	}
	if mw != nil {
		for i, c := range mc.Calls(w, nil, nil) {
			c := c
			e, pan := call(i+1, c.Name, func() error { return c.Do(mw) })
			if pan != "" {
				return firedIn, pk.Failf("panic", "%s (op %d) panicked with sink write #%d failing: %s", c.Name, c.Op, sink.FailAt, pan)
			}
			if err := check(i+1, c.Name, e); err != nil {
				return firedIn, err
			}
		}
	}
	if sink.Fired && !bytes.HasPrefix(golden, sink.Buf[:sink.PrefixLen]) {
		return firedIn, pk.Failf("not-a-prefix", "bytes accepted up to the fault at sink write #%d (%d bytes) are not a prefix of the fault-free output", sink.FailAt, sink.PrefixLen)
	}
	return firedIn, nil
}

func checkC14(c WKCase, st *stats.Collector) error {
	w, k := &c.W, c.K
	clean := &faultio.Sink{FailAt: -1}
	if _, err := runFaulted(w, k, clean, nil); err != nil {
		return err
	}
	golden := clean.Buf
	n := clean.Calls
	if n > 1500 {
		st.Exclude("more-than-1500-sink-writes")
		return nil
	}
	evals := 0
	where := map[string]int64{}
	for at := 0; at < n; at++ {
		// short = 2: the short count comes with a nil error - the destination simply stops taking bytes. The
		// statement names "a short write" next to "an error" as the ways a destination fails.
		for _, shortMode := range []int{0, 1, 2} {
			short := shortMode > 0
			for _, perm := range []bool{false, true} {
				sink := &faultio.Sink{FailAt: at, Short: short, Silent: shortMode == 2, Permanent: perm}
				in, err := runFaulted(w, k, sink, golden)
				evals++
				if err != nil {
					return err
				}
				if !sink.Fired {
					return pk.Failf("harness", "fault at sink write #%d of %d never fired", at, n)
				}
				where["fault-in:"+in]++
			}
		}
	}
	// attachment sources
	attN := 0
	for oi, o := range w.Ops {
		if o.A == nil {
			continue
		}
		size := len(o.A.Data)
		var js []int
		if size <= 256 {
			for j := 0; j <= size; j++ {
				js = append(js, j)
			}
		} else {
			for j := 0; j <= size; j += 1 + size/200 {
				js = append(js, j)
			}
			js = append(js, size-1, size)
		}
		type variant struct{ mode, j, extra int }
		var vs []variant
		for _, j := range js {
			vs = append(vs, variant{0, j, 0}) // source error after j bytes (j == size: error instead of EOF)
			if j < size {
				vs = append(vs, variant{1, j, 0}) // ends early
			}
		}
		vs = append(vs, variant{2, 0, 1}, variant{2, 0, 4096})
		// standard-library readers the caller has already read from (a sniffed header, a resumed upload): they
		// still report their total size through Size()/Len()-like methods, but deliver fewer bytes than declared
		if size >= 2 {
			vs = append(vs, variant{3, 1, 0}, variant{3, size / 2, 0}, variant{4, 1, 0}, variant{5, size - 1, 0})
		}
		for _, v := range vs {
			target := o.A
			var got error
			sawCall := false
			sink := &faultio.Sink{FailAt: -1}
			mw, err := mcap.NewWriter(sink, mc.Options(k))
			if err != nil {
				return pk.Failf("write-error", "NewWriter on a sink that accepts everything: %v", err)
			}
			calls := mc.Calls(w, nil, func(a *wl.Attachment) io.Reader {
				if a == target {
					switch v.mode {
					case 3: // *bytes.Reader, j bytes already consumed
						r := bytes.NewReader(a.Data)
						_, _ = io.CopyN(io.Discard, r, int64(v.j))
						return r
					case 4: // *strings.Reader, j bytes already consumed
						r := strings.NewReader(string(a.Data))
						_, _ = io.CopyN(io.Discard, r, int64(v.j))
						return r
					case 5: // *io.SectionReader positioned j bytes in
						r := io.NewSectionReader(bytes.NewReader(a.Data), 0, int64(len(a.Data)))
						_, _ = r.Seek(int64(v.j), io.SeekStart)
						return r
					}
					return &faultio.AttSource{Data: a.Data, J: v.j, Mode: v.mode, Extra: v.extra}
				}
				return bytes.NewReader(a.Data)
			})
			var pan string
			for _, cl := range calls {
				func() {
					defer func() {
						if x := recover(); x != nil {
							pan = fmt.Sprint(x)
						}
					}()
					e := cl.Do(mw)
					if cl.Op == oi {
						got, sawCall = e, true
					}
				}()
				if pan != "" {
					return pk.Failf("panic", "%s panicked with attachment source fault %+v: %s", cl.Name, v, pan)
				}
			}
			evals++
			attN++
			if sawCall && got == nil {
				return pk.Failf("attachment-source", "WriteAttachment returned nil although its %d-byte source %s", size,
					map[int]string{0: fmt.Sprintf("failed after %d bytes", v.j), 1: fmt.Sprintf("ended after %d bytes", v.j), 2: fmt.Sprintf("delivered %d extra bytes", v.extra),
						3: fmt.Sprintf("was a *bytes.Reader with %d bytes already read", v.j), 4: fmt.Sprintf("was a *strings.Reader with %d bytes already read", v.j), 5: fmt.Sprintf("was an *io.SectionReader positioned at %d", v.j)}[v.mode])
			}
		}
	}
	for kname, v := range where {
		st.Class(kname, v)
	}
	st.Class("attachment-source-faults", int64(attN))
	st.Class(fmt.Sprintf("files,chunked=%v,compression=%s", k.Chunked, k.Compression), 1)
	nontrivial := where["fault-in:WriteMessage"]+where["fault-in:Close"]+where["fault-in:WriteAttachment"] > 0 && n > 3
	st.Case(wl.Hash(c), nontrivial, evals)
	if nontrivial && st.WantSample() {
		st.Sample(map[string]any{"W": w.Trunc(12), "K": k, "sink_writes": n, "faulted_runs": evals})
	}
	return nil
}

func TestC14(t *testing.T) {
	pk.Run(t, "C14", genC14, checkC14)
}
