//go:build verif

package props

import (
	"bytes"
	"crypto/sha256"
	"encoding/binary"
	"errors"
	"fmt"
	"hash"
	"io"
	"runtime"
	"runtime/metrics"
	"testing"

	"github.com/foxglove/mcap/go/mcap"
	"pgregory.net/rapid"
	"verifharness/mc"
	"verifharness/pk"
	"verifharness/specdec"
	"verifharness/specenc"
	"verifharness/stats"
	"verifharness/wl"
)

type C20Case struct {
	NChunks   int
	Depth     int      // intended overlap depth (measured from the file afterwards)
	PerChunk  int      // messages per chunk
	Comp      []string // per-chunk compression, cycled
	Payload   int
	Seed      uint64
	Topics    bool
	Window    bool
	UseWriter bool // produce with the Go writer instead of the reference encoder
	SizeMode  int  // chunk payload sizes: 0 uniform, 1 growing through the file, 2 shrinking, 3 irregular
}

func genC20(t *rapid.T) C20Case {
	maxChunks := 120
	if pk.Thorough() {
		maxChunks = 1000
	}
	c := C20Case{NChunks: rapid.IntRange(10, maxChunks).Draw(t, "n-chunks"), Depth: rapid.IntRange(1, 8).Draw(t, "depth"), PerChunk: rapid.IntRange(2, 6).Draw(t, "per-chunk"),
		Payload: rapid.SampledFrom([]int{0, 8, 100, 2000}).Draw(t, "payload"), Seed: rapid.Uint64().Draw(t, "seed"), Topics: rapid.Bool().Draw(t, "topics"), Window: rapid.Bool().Draw(t, "window"),
		UseWriter: rapid.IntRange(0, 3).Draw(t, "use-go-writer") == 0, SizeMode: rapid.IntRange(0, 3).Draw(t, "size-mode")}
	n := rapid.IntRange(1, 3).Draw(t, "n-comp")
	for i := 0; i < n; i++ {
		c.Comp = append(c.Comp, rapid.SampledFrom([]string{"", "zstd", "lz4"}).Draw(t, "comp"))
	}
	return c
}

// buildC20 lays out NChunks chunks whose time ranges [10i, 10i + 10*Depth - 5] overlap Depth-fold.
func buildC20(c *C20Case) ([]byte, *wl.Workload, error) {
	w := &wl.Workload{}
	w.Ops = append(w.Ops, wl.Op{C: &wl.Channel{ID: 0, Topic: "/a"}}, wl.Op{C: &wl.Channel{ID: 1, Topic: "/b"}})
	var cuts []int
	seq := uint32(0)
	for i := 0; i < c.NChunks; i++ {
		lo := uint64(i) * 10
		hi := lo + uint64(10*c.Depth) - 5
		for m := 0; m < c.PerChunk; m++ {
			t := lo
			switch {
			case m == c.PerChunk-1:
				t = hi
			case m > 0:
				t = lo + (c.Seed>>uint(m))%(hi-lo+1)
			}
			size := c.Payload
			switch c.SizeMode {
			case 1:
				size = c.Payload + 24*i
			case 2:
				size = c.Payload + 24*(c.NChunks-i)
			case 3:
				size = c.Payload + int((c.Seed>>uint(i%40))%97)*8
			}
			w.Ops = append(w.Ops, wl.Op{M: &wl.Message{ChannelID: uint16((seq + uint32(c.Seed)) % 2), Sequence: seq, LogTime: t, PublishTime: t, Data: wl.Fill(size, c.Seed+uint64(seq))}})
			seq++
		}
		cuts = append(cuts, len(w.Ops)-1)
	}
	if c.UseWriter {
		// the Go writer flushes when the chunk exceeds ChunkSize: give the last message of each chunk an oversize payload
		size := int64(c.PerChunk*(31+c.Payload+24*c.NChunks+97*8) + 200)
		for _, cut := range cuts {
			w.Ops[cut].M.Data = wl.Fill(int(size)+50+len(w.Ops[cut].M.Data), c.Seed)
		}
		comp := c.Comp[0]
		file, _, err := mc.WriteBytes(w, wl.Config{Chunked: true, ChunkSize: size, Compression: comp, IncludeCRC: true})
		return file, w, err
	}
	file, _, err := specenc.Encode(w, specenc.Layout{Chunked: true, CutAfter: cuts, Compression: c.Comp, MessageIndex: true, ChunkIndex: true, RepeatSchemas: true, RepeatChannels: true,
		Statistics: true, SummaryOffsets: true, CRC: true, SortedMaps: true})
	return file, w, err
}

// overlapDepth = max over t of the number of chunks whose header range contains t.
func overlapDepth(d *specdec.File) (depth int, maxUncompressed uint64) {
	type ev struct {
		t     uint64
		delta int
	}
	var starts, ends []uint64
	for _, r := range d.Data(specdec.OpChunk) {
		starts = append(starts, r.MessageStartTime)
		ends = append(ends, r.MessageEndTime)
		if r.UncompressedSize > maxUncompressed {
			maxUncompressed = r.UncompressedSize
		}
	}
	for i := range starts {
		n := 0
		for j := range starts {
			if starts[j] <= starts[i] && starts[i] <= ends[j] {
				n++
			}
		}
		if n > depth {
			depth = n
		}
	}
	return depth, maxUncompressed
}

func checkC20(c C20Case, st *stats.Collector) error {
	file, w, err := buildC20(&c)
	if err != nil {
		return pk.Failf("harness", "cannot build file: %v", err)
	}
	d, err := specdec.Decode(file, specdec.Options{})
	if err != nil {
		return pk.Failf("harness", "reference decoder rejects the file: %v", err)
	}
	depth, maxChunk := overlapDepth(d)
	nChunks := len(d.Data(specdec.OpChunk))
	all := w.Messages()
	evals := 0
	for _, order := range []mcap.ReadOrder{mcap.FileOrder, mcap.LogTimeOrder, mcap.ReverseLogTimeOrder} {
		opts := []mcap.ReadOpt{mcap.InOrder(order)}
		var topics []string
		if c.Topics {
			topics = []string{"/a"}
			opts = append(opts, mcap.WithTopics(topics))
		}
		s, e := uint64(0), uint64(0)
		if c.Window {
			s, e = uint64(c.NChunks)*3, uint64(c.NChunks)*8
			opts = append(opts, mcap.AfterNanos(s), mcap.BeforeNanos(e))
		}
		rd, err := mcap.NewReader(bytesReader(file))
		if err != nil {
			return pk.Failf("open", "NewReader: %v", err)
		}
		it, err := rd.Messages(opts...)
		if err != nil {
			return pk.Failf("open", "Messages: %v", err)
		}
		bound := depth
		if order == mcap.FileOrder {
			bound = 1
		}
		n := 0
		maxSlots, maxQueue := 0, 0
		msg := &mcap.Message{}
		for {
			_, _, _, err := it.NextInto(msg)
			if err != nil {
				if !errors.Is(err, io.EOF) {
					return pk.Failf("read-error", "order %d: %v", order, err)
				}
				break
			}
			n++
			slots, _, bufBytes, ok := mcap.VerifIteratorMemory(it)
			if !ok {
				return pk.Failf("harness", "iterator is not index-based")
			}
			if slots > maxSlots {
				maxSlots = slots
			}
			if q, _, _ := mcap.VerifIteratorQueueLen(it); q > maxQueue {
				maxQueue = q
			}
			if slots > bound {
				return pk.Failf("slots", "order %d after %d messages: %d chunk slots held, the chunks' time ranges overlap at most %d-fold (file order: 1); %d chunks in the file", order, n, slots, bound, nChunks)
			}
			if uint64(bufBytes) > uint64(slots)*2*maxChunk+4096 {
				return pk.Failf("buffer-bytes", "order %d: %d bytes of chunk buffers in %d slots, largest uncompressed chunk %d", order, bufBytes, slots, maxChunk)
			}
		}
		evals++
		_, live, _, _ := mcap.VerifIteratorMemory(it)
		if live != 0 {
			return pk.Failf("live-at-eof", "order %d: %d slots still marked as holding unread messages at end of iteration", order, live)
		}
		want := wl.Select(all, topics, s, e, !c.Window)
		if n != len(want) {
			return pk.Failf("count", "order %d: %d messages, expected %d", order, n, len(want))
		}
		// the pending queue never needs more than the messages of the live chunks
		perChunk := 0
		for _, r := range d.Data(specdec.OpChunk) {
			k := 0
			for _, in := range r.Inner {
				if in.Op == specdec.OpMessage {
					k++
				}
			}
			if k > perChunk {
				perChunk = k
			}
		}
		if maxQueue > bound*perChunk {
			return pk.Failf("queue", "order %d: %d pending message indexes, more than %d live chunks x %d messages", order, maxQueue, bound, perChunk)
		}
		st.Class(fmt.Sprintf("max-slots-seen=%d", maxSlots), 1)
	}
	// sequential read: the lexer's decompression buffer stays within 2x the largest chunk
	for _, validate := range []bool{true, false} {
		lx, err := mcap.NewLexer(bytes.NewReader(file), &mcap.LexerOptions{ValidateChunkCRCs: validate})
		if err != nil {
			return pk.Failf("open", "NewLexer: %v", err)
		}
		var buf []byte
		for {
			_, rec, err := lx.Next(buf)
			if err != nil {
				if !errors.Is(err, io.EOF) {
					return pk.Failf("read-error", "lexer: %v", err)
				}
				break
			}
			if cap(rec) > cap(buf) {
				buf = rec
			}
			if bc := mcap.VerifLexerBufferCap(lx); uint64(bc) > 2*maxChunk {
				return pk.Failf("lexer-buffer", "lexer chunk buffer capacity %d, largest uncompressed chunk %d", bc, maxChunk)
			}
		}
		lx.Close()
		evals++
	}
	nontrivial := depth >= 2 && nChunks >= 20
	classes := []string{fmt.Sprintf("depth=%d", depth), fmt.Sprintf("chunk-sizes=%s", []string{"uniform", "growing", "shrinking", "irregular"}[c.SizeMode])}
	switch {
	case nChunks >= 500:
		classes = append(classes, "chunks>=500")
	case nChunks >= 100:
		classes = append(classes, "chunks=100-499")
	case nChunks >= 20:
		classes = append(classes, "chunks=20-99")
	default:
		classes = append(classes, "chunks<20")
	}
	if c.UseWriter {
		classes = append(classes, "producer=go-writer")
	} else {
		classes = append(classes, "producer=specenc")
	}
	st.Case(wl.Hash(c), nontrivial, evals, classes...)
	if nontrivial && st.WantSample() {
		st.Sample(c)
	}
	return nil
}

// ---- one long-lived Reader serving many reads: what stays allocated may not grow with the number of reads
type C20Reuse struct {
	Comp    string
	NChunks int
	Payload int // bytes per message (8 messages per chunk)
	Reads   int
	Seed    uint64
}

func genC20Reuse(t *rapid.T) C20Reuse {
	return C20Reuse{Comp: rapid.SampledFrom([]string{"", "zstd", "lz4"}).Draw(t, "comp"), NChunks: rapid.IntRange(12, 40).Draw(t, "n-chunks"),
		Payload: rapid.SampledFrom([]int{2000, 16000, 60000}).Draw(t, "payload"), Reads: rapid.IntRange(24, 60).Draw(t, "reads"), Seed: rapid.Uint64().Draw(t, "seed")}
}

func liveHeap() uint64 {
	runtime.GC()
	runtime.GC()
	var ms runtime.MemStats
	runtime.ReadMemStats(&ms)
	return ms.HeapAlloc
}

func checkC20Reuse(c C20Reuse, st *stats.Collector) error {
	cc := C20Case{NChunks: c.NChunks, Depth: 1, PerChunk: 8, Comp: []string{c.Comp}, Payload: c.Payload, Seed: c.Seed | 1}
	file, w, err := buildC20(&cc)
	if err != nil {
		return pk.Failf("harness", "cannot build the file: %v", err)
	}
	chunkBytes := uint64(8 * (c.Payload + 40))
	rd, err := mcap.NewReader(bytesReader(file))
	if err != nil {
		return pk.Failf("open", "NewReader: %v", err)
	}
	defer rd.Close()
	total := len(w.Messages())
	var base uint64
	for i := 0; i < c.Reads; i++ {
		order := []mcap.ReadOrder{mcap.FileOrder, mcap.LogTimeOrder, mcap.ReverseLogTimeOrder}[(i+int(c.Seed%3))%3]
		opts := []mcap.ReadOpt{mcap.InOrder(order)}
		if i%4 == 1 {
			opts = append(opts, mcap.AfterNanos(uint64(i%c.NChunks)*10))
		}
		it, err := rd.Messages(opts...)
		if err != nil {
			return pk.Failf("session-open", "read #%d on one Reader: %v", i, err)
		}
		limit := 3 + i%7 // a short look, then the iterator is dropped
		if i%5 == 0 {
			limit = total + 1 // or a complete read
		}
		msg := &mcap.Message{}
		for k := 0; k < limit; k++ {
			if _, _, _, err := it.NextInto(msg); err != nil {
				break
			}
		}
		it = nil
		if i == 7 {
			base = liveHeap()
		}
	}
	end := liveHeap()
	// after the first few reads the Reader's own state (Info, one lexer) is complete; nothing a dropped iterator
	// held may stay reachable through the Reader. Allow four chunks and 1 MiB of noise.
	allowance := 4*chunkBytes + 1<<20
	if end > base+allowance {
		return pk.Failf("reader-retains-iterators", "one Reader, %d reads (%q chunks of about %d bytes): live heap grew by %d bytes between read #8 and the last read; allowance %d", c.Reads, c.Comp, chunkBytes, end-base, allowance)
	}
	st.Case(wl.Hash(c), true, c.Reads, "reader-reuse", "compression="+c.Comp)
	if st.WantSample() {
		st.Sample(map[string]any{"case": c, "live_heap_growth": int64(end) - int64(base), "allowance": allowance})
	}
	return nil
}

// ---- writer memory: what a Writer keeps may grow with the chunks it has written (their index entries go into
// the summary), not with the messages

type C20Writer struct {
	Messages  int
	ChunkSize int64
	Channels  int
	Payload   int
	Comp      string
	SkipMI    bool // SkipMessageIndexing
	SkipCI    bool // SkipChunkIndex
	SkipStats bool
	Unchunked bool
	Seed      uint64
}

func genC20Writer(t *rapid.T) C20Writer {
	return C20Writer{Messages: rapid.IntRange(300_000, 800_000).Draw(t, "messages"), ChunkSize: rapid.SampledFrom([]int64{64 << 10, 256 << 10, 1 << 20}).Draw(t, "chunk-size"),
		Channels: rapid.IntRange(1, 8).Draw(t, "channels"), Payload: rapid.SampledFrom([]int{0, 4, 16}).Draw(t, "payload"), Comp: rapid.SampledFrom([]string{"", "zstd", "lz4"}).Draw(t, "comp"),
		SkipMI: rapid.Bool().Draw(t, "skip-message-indexing"), SkipCI: rapid.IntRange(0, 3).Draw(t, "skip-chunk-index") == 0, SkipStats: rapid.IntRange(0, 3).Draw(t, "skip-statistics") == 0,
		Unchunked: rapid.IntRange(0, 5).Draw(t, "unchunked") == 0, Seed: rapid.Uint64().Draw(t, "seed")}
}

type countSink struct{ n int64 }

func (s *countSink) Write(p []byte) (int, error) { s.n += int64(len(p)); return len(p), nil }

func checkC20Writer(c C20Writer, st *stats.Collector) error {
	sink := &countSink{}
	w, err := mcap.NewWriter(sink, &mcap.WriterOptions{Chunked: !c.Unchunked, ChunkSize: c.ChunkSize, Compression: mcap.CompressionFormat(c.Comp),
		SkipMessageIndexing: c.SkipMI, SkipChunkIndex: c.SkipCI, SkipStatistics: c.SkipStats, IncludeCRC: c.Seed&1 == 0})
	if err != nil {
		return pk.Failf("writer-open", "NewWriter: %v", err)
	}
	if err := w.WriteHeader(&mcap.Header{}); err != nil {
		return pk.Failf("writer-open", "WriteHeader: %v", err)
	}
	for ch := 0; ch < c.Channels; ch++ {
		if err := w.WriteChannel(&mcap.Channel{ID: uint16(ch), Topic: fmt.Sprintf("/t%d", ch)}); err != nil {
			return pk.Failf("writer-open", "WriteChannel: %v", err)
		}
	}
	payload := make([]byte, c.Payload)
	msg := &mcap.Message{Data: payload}
	var base uint64
	var baseBytes int64
	x := c.Seed | 1
	for i := 0; i < c.Messages; i++ {
		x = x*6364136223846793005 + 1442695040888963407
		msg.ChannelID = uint16((x >> 33) % uint64(c.Channels))
		msg.Sequence = uint32(i)
		msg.LogTime = uint64(i)
		msg.PublishTime = uint64(i)
		if err := w.WriteMessage(msg); err != nil {
			return pk.Failf("writer-error", "WriteMessage #%d: %v", i, err)
		}
		if i == c.Messages/2 {
			base, baseBytes = liveHeap(), sink.n
		}
	}
	end := liveHeap()
	written := sink.n - baseBytes
	runtime.KeepAlive(w)
	// between the two measurements the writer may have added one chunk index entry per chunk (a struct and a map
	// of channel offsets), nothing per message; the number of chunks is bounded through the bytes that went out
	// (a chunk of tiny messages compresses well, so count by uncompressed content instead)
	chunks := uint64(0)
	if !c.Unchunked {
		chunks = uint64(c.Messages/2)*uint64(31+c.Payload)/uint64(c.ChunkSize) + 2
	}
	allowance := chunks*(1024+96*uint64(c.Channels)) + 1<<20
	if end > base+allowance {
		return pk.Failf("writer-grows-per-message", "Writer %+v: live heap grew by %d bytes over the second half of %d messages (%d bytes written, at most %d chunks); allowance %d", c, end-base, c.Messages, written, chunks, allowance)
	}
	if err := w.Close(); err != nil {
		return pk.Failf("writer-error", "Close: %v", err)
	}
	cl := "indexing=on"
	if c.SkipMI {
		cl = "indexing=skipped"
	}
	st.Case(wl.Hash(c), true, 1, "writer-memory", cl, "compression="+c.Comp)
	if st.WantSample() {
		st.Sample(map[string]any{"case": c, "live_heap_growth": int64(end) - int64(base), "allowance": allowance})
	}
	return nil
}

func TestC20WriterMemory(t *testing.T) {
	pk.Run(t, "C20w", genC20Writer, checkC20Writer)
}

func TestC20ReaderReuse(t *testing.T) {
	pk.Run(t, "C20r", genC20Reuse, checkC20Reuse)
}

func TestC20(t *testing.T) {
	pk.Run(t, "C20", genC20, checkC20)
}

// ---- streaming attachments in constant memory

// patternReader produces n deterministic bytes without holding them.
type patternReader struct {
	n, pos int64
}

func (p *patternReader) Read(b []byte) (int, error) {
	if p.pos >= p.n {
		return 0, io.EOF
	}
	k := int64(len(b))
	if k > p.n-p.pos {
		k = p.n - p.pos
	}
	for i := int64(0); i < k; i++ {
		b[i] = byte((p.pos + i) * 131 >> 3)
	}
	p.pos += k
	return int(k), nil
}

type hashSink struct {
	h hash.Hash
	n int64
}

func (s *hashSink) Write(p []byte) (int, error) { s.n += int64(len(p)); return s.h.Write(p) }

// attachmentFile streams a file holding one attachment of n bytes without materialising it.
type attachmentFile struct {
	pre  []byte
	body patternReader
	post []byte
	pos  int
	st   int
}

func newAttachmentFile(n int64) *attachmentFile {
	b := &specenc.Builder{}
	b.Magic()
	b.Header("", "stream")
	pre := b.Buf
	// attachment record header
	var h []byte
	h = append(h, 0x09)
	fields := binary.LittleEndian.AppendUint64(nil, 7)
	fields = binary.LittleEndian.AppendUint64(fields, 9)
	fields = binary.LittleEndian.AppendUint32(fields, 3)
	fields = append(fields, "big"...)
	fields = binary.LittleEndian.AppendUint32(fields, 0)
	fields = binary.LittleEndian.AppendUint64(fields, uint64(n))
	h = binary.LittleEndian.AppendUint64(h, uint64(len(fields))+uint64(n)+4)
	h = append(h, fields...)
	pre = append(pre, h...)
	post := []byte{0, 0, 0, 0} // crc 0 = not available
	e := &specenc.Builder{}
	e.DataEnd(0)
	e.Footer(0, 0, 0)
	e.Magic()
	post = append(post, e.Buf...)
	return &attachmentFile{pre: pre, body: patternReader{n: n}, post: post}
}

func (a *attachmentFile) Read(p []byte) (int, error) {
	switch a.st {
	case 0:
		n := copy(p, a.pre[a.pos:])
		a.pos += n
		if a.pos == len(a.pre) {
			a.st, a.pos = 1, 0
		}
		return n, nil
	case 1:
		n, err := a.body.Read(p)
		if err == io.EOF {
			a.st = 2
			return a.Read(p)
		}
		return n, err
	default:
		if a.pos >= len(a.post) {
			return 0, io.EOF
		}
		n := copy(p, a.post[a.pos:])
		a.pos += n
		return n, nil
	}
}

func allocated() uint64 {
	s := []metrics.Sample{{Name: "/gc/heap/allocs:bytes"}}
	metrics.Read(s)
	return s[0].Value.Uint64()
}

type C20Att struct {
	Size    int64
	Chunked bool
	CRC     bool
}

func enumC20Att(yield func(C20Att) bool) {
	sizes := []int64{1 << 10, 64 << 10, 1 << 20, 4 << 20, 16 << 20}
	if pk.Thorough() {
		sizes = append(sizes, 64<<20, 256<<20)
	}
	sh, n := shardInfo()
	i := 0
	for _, s := range sizes {
		for _, chunked := range []bool{false, true} {
			for _, crc := range []bool{false, true} {
				i++
				if i%n != sh {
					continue
				}
				if !yield(C20Att{s, chunked, crc}) {
					return
				}
			}
		}
	}
}

const streamBudget = 1 << 20

// checkC20Att judges one attachment size. The allocation counter is process-wide and the runtime books small
// allocations when a span is refilled, not when they happen, so one measurement can include bytes that other
// goroutines (or earlier calls) requested: such noise only ever adds. A measurement over budget is therefore taken
// again, up to three times in all; code that buffers the attachment exceeds the budget every time.
func checkC20Att(c C20Att, st *stats.Collector) error {
	var err error
	for attempt := 0; attempt < 3; attempt++ {
		err = checkC20AttOnce(c, st)
		if k := kindOfFailure(err); k != "writer-memory" && k != "reader-memory" {
			return err
		}
		st.Note("allocation-measurement-repeated")
		runtime.GC()
	}
	return err
}

func kindOfFailure(err error) string {
	if f, ok := err.(*pk.Failure); ok {
		return f.Kind
	}
	return ""
}

func checkC20AttOnce(c C20Att, st *stats.Collector) error {
	// writer side
	sink := &hashSink{h: sha256.New()}
	mw, err := mcap.NewWriter(sink, &mcap.WriterOptions{Chunked: c.Chunked, ChunkSize: 1 << 20, IncludeCRC: c.CRC})
	if err != nil {
		return pk.Failf("write-error", "NewWriter on a plain sink: %v", err)
	}
	if err := mw.WriteHeader(&mcap.Header{}); err != nil {
		return pk.Failf("write-error", "WriteHeader on a plain sink: %v", err)
	}
	before := allocated()
	err = mw.WriteAttachment(&mcap.Attachment{LogTime: 1, Name: "big", DataSize: uint64(c.Size), Data: &patternReader{n: c.Size}})
	used := allocated() - before
	if err != nil {
		return pk.Failf("write-error", "WriteAttachment(%d bytes): %v", c.Size, err)
	}
	if used > streamBudget {
		return pk.Failf("writer-memory", "WriteAttachment allocated %d bytes to stream a %d-byte attachment (budget %d, independent of size)", used, c.Size, streamBudget)
	}
	if err := mw.Close(); err != nil {
		return pk.Failf("write-error", "Close: %v", err)
	}
	if sink.n < c.Size {
		return pk.Failf("write-error", "sink received %d bytes for a %d-byte attachment", sink.n, c.Size)
	}
	// reader side
	var got int64
	var usedCB uint64
	lx, err := mcap.NewLexer(newAttachmentFile(c.Size), &mcap.LexerOptions{ComputeAttachmentCRCs: c.CRC, AttachmentCallback: func(ar *mcap.AttachmentReader) error {
		b := allocated()
		n, err := io.Copy(io.Discard, ar.Data())
		got = n
		_, _ = ar.ComputedCRC()
		_, _ = ar.ParsedCRC()
		usedCB = allocated() - b
		return err
	}})
	if err != nil {
		return pk.Failf("read-error", "NewLexer on the streamed file: %v", err)
	}
	before = allocated()
	for {
		_, _, err := lx.Next(nil)
		if err != nil {
			if !errors.Is(err, io.EOF) {
				return pk.Failf("read-error", "lexer over a streamed %d-byte attachment: %v", c.Size, err)
			}
			break
		}
	}
	used = allocated() - before
	if got != c.Size {
		return pk.Failf("read-error", "callback received %d of %d attachment bytes", got, c.Size)
	}
	if used > streamBudget || usedCB > streamBudget {
		return pk.Failf("reader-memory", "reading a %d-byte attachment allocated %d bytes (%d inside the callback), budget %d", c.Size, used, usedCB, streamBudget)
	}
	// and skipped without a callback
	lx2, _ := mcap.NewLexer(newAttachmentFile(c.Size))
	before = allocated()
	for {
		if _, _, err := lx2.Next(nil); err != nil {
			break
		}
	}
	if used := allocated() - before; used > streamBudget {
		return pk.Failf("reader-memory", "skipping a %d-byte attachment allocated %d bytes", c.Size, used)
	}
	st.Case(wl.Hash(c), c.Size >= 16<<20, 3, fmt.Sprintf("attachment-size=%dKiB", c.Size>>10))
	if st.WantSample() {
		st.Sample(c)
	}
	return nil
}

func TestC20Attachments(t *testing.T) {
	pk.RunEnum(t, "C20a", enumC20Att, checkC20Att)
}
