package props

import (
	"errors"
	"fmt"
	"io"
	"testing"

	"github.com/foxglove/mcap/go/mcap"
	"pgregory.net/rapid"
	"verifharness/mc"
	"verifharness/pk"
	"verifharness/specdec"
	"verifharness/specenc"
	"verifharness/stats"
	"verifharness/wl"
)

type C12Case struct {
	W       wl.Workload
	L1, L2  specenc.Layout
	K       wl.Config // the Go writer's own layout of the same content (third producer)
	Indexed bool
}

func genC12(t *rapid.T) C12Case {
	w := wl.GenWorkload(t, wl.GenParams{ChunkHint: 100, NoLong: true, MaxMsgs: 40, UniqueSeq: true, MaxPayload: 300, NoMaxTime: true})
	indexed := rapid.IntRange(0, 3).Draw(t, "indexed") != 0
	c := C12Case{W: w, Indexed: indexed}
	c.L1 = genLayout(t, &w, indexed, "L1-")
	c.L2 = genLayout(t, &w, indexed, "L2-")
	c.K = wl.GenConfig(t, wl.CfgParams{Indexed: indexed, NoCustom: true, NoSkipMagic: true, SmallChunks: true})
	c.K.OverrideLibrary = true
	// keep the third file spec-valid too: chunk indexes need summary schemas+channels, per-channel statistics need summary channels
	if c.K.Chunked && !c.K.SkipChunkIndex && (c.K.SkipRepeatedChannelInfos || c.K.SkipRepeatedSchemas) {
		c.K.SkipChunkIndex = true
	}
	if !c.K.SkipStatistics && c.K.SkipRepeatedChannelInfos {
		c.K.SkipStatistics = true
	}
	return c
}

// checkOneLayout compares everything the Go readers report for one file with the model.
func checkOneLayout(name string, file []byte, w *wl.Workload, indexed bool) (int, error) {
	d, err := validateRef(file, name)
	if err != nil {
		return 0, err
	}
	reads := 0
	for _, validate := range []bool{false, true} {
		lr := mc.LexAll(bytesReader(file), mc.LexParams{AttCRC: true, ValidateCRC: validate, MaxEvents: 200000}, false)
		reads++
		if err := checkSequentialContent(w, &lr, fmt.Sprintf("%s, lexer(validate=%v)", name, validate)); err != nil {
			return reads, err
		}
	}
	all := w.Messages()
	pl := placementOf(d)
	r := mc.ReadMessages(bytesReader(file), true, false, 0, mcap.UsingIndex(false))
	reads++
	if !r.Clean() {
		return reads, pk.Failf("read-error", "%s, non-indexed: panic=%q open=%v err=%v", name, r.Panic, r.OpenErr, r.Err)
	}
	if err := compareTriples(name+", non-indexed", r.Items, all); err != nil {
		return reads, err
	}
	if !eqMetaList(r.Meta, w.Metadatas()) {
		return reads, pk.Failf("metadata-callback", "%s: sequential read delivered %d metadata records, content has %d", name, len(r.Meta), len(w.Metadatas()))
	}
	usable := len(d.Summary(specdec.OpChunkIndex)) > 0 && len(d.Summary(specdec.OpChannel)) > 0
	for _, order := range []mcap.ReadOrder{mcap.FileOrder, mcap.LogTimeOrder, mcap.ReverseLogTimeOrder} {
		label := fmt.Sprintf("%s, indexed order=%d", name, order)
		ir := mc.ReadMessages(bytesReader(file), false, false, 0, mcap.InOrder(order))
		reads++
		if ir.Panic != "" {
			return reads, pk.Failf("panic", "%s: %s", label, ir.Panic)
		}
		if ir.OpenErr != nil || !errors.Is(ir.Err, io.EOF) {
			if indexed && usable {
				return reads, pk.Failf("indexed-error", "%s fails on a file whose summary has chunk indexes, schemas and channels: open=%v err=%v", label, ir.OpenErr, ir.Err)
			}
			continue
		}
		if indexed || order == mcap.FileOrder {
			// every message is in a chunk (indexed layouts) or the read fell back to a scan
			if !indexed && usable {
				continue // messages outside chunks are legitimately invisible to an index-based read
			}
			if err := checkSelection(label, ir.Items, all, pl, order); err != nil {
				return reads, err
			}
		}
	}
	// the same reads asked of ONE Reader, restricted ones first: the answers may not depend on the layout any
	// more than those of fresh Readers do
	if indexed && usable {
		one, err := mcap.NewReader(bytesReader(file))
		if err != nil {
			return reads, pk.Failf("open", "%s: NewReader: %v", name, err)
		}
		var topics []string
		if cs := w.Channels(); len(cs) > 0 {
			topics = []string{cs[len(cs)/2].Topic}
		}
		var s0, e0 uint64
		if len(all) > 0 {
			s0, e0 = all[len(all)/2].M.LogTime, all[len(all)/2].M.LogTime+1
		}
		steps := []struct {
			topics []string
			window bool
			order  mcap.ReadOrder
		}{{topics, false, mcap.LogTimeOrder}, {nil, true, mcap.FileOrder}, {nil, false, mcap.FileOrder}, {nil, false, mcap.ReverseLogTimeOrder}, {topics, false, mcap.FileOrder}}
		for si, stp := range steps {
			opts := []mcap.ReadOpt{mcap.InOrder(stp.order)}
			if stp.topics != nil {
				opts = append(opts, mc.Topics(stp.topics))
			}
			var ws, we uint64
			if stp.window {
				ws, we = s0, e0
				opts = append(opts, mcap.AfterNanos(ws), mcap.BeforeNanos(we))
			}
			label := fmt.Sprintf("%s, read #%d on one Reader (topics=%v window=%v order=%d)", name, si, stp.topics, stp.window, stp.order)
			ir := readOn(one, opts...)
			reads++
			if ir.Panic != "" || ir.OpenErr != nil || !errors.Is(ir.Err, io.EOF) {
				one.Close()
				return reads, pk.Failf("indexed-error", "%s fails: panic=%q open=%v err=%v", label, ir.Panic, ir.OpenErr, ir.Err)
			}
			if err := checkSelection(label, ir.Items, wl.Select(all, stp.topics, ws, we, !stp.window), pl, stp.order); err != nil {
				one.Close()
				return reads, err
			}
		}
		// two iterators of that Reader advanced in lockstep, a metadata lookup between every two steps (a
		// two-stream merge that also consults metadata): both must return their full selections
		infoL, _ := one.Info()
		itA, errA := one.Messages(mcap.InOrder(mcap.FileOrder))
		itB, errB := one.Messages(mcap.InOrder(mcap.LogTimeOrder))
		if errA != nil || errB != nil {
			one.Close()
			return reads, pk.Failf("indexed-error", "%s: Messages on one Reader: %v / %v", name, errA, errB)
		}
		var gotA, gotB []mc.Triple
		doneA, doneB := false, false
		for step := 0; !(doneA && doneB); step++ {
			if step > 4*len(all)+8 {
				one.Close()
				return reads, pk.Failf("extra", "%s: lockstep iterators do not end", name)
			}
			if !doneA {
				s, c, m, err := itA.NextInto(nil)
				if err != nil {
					doneA = true
					if !errors.Is(err, io.EOF) {
						one.Close()
						return reads, pk.Failf("indexed-error", "%s: file-order iterator advanced in lockstep with a log-time iterator of the same Reader: %v after %d items", name, err, len(gotA))
					}
				} else {
					gotA = append(gotA, mc.Triple{S: mc.FromSchema(s), C: mc.FromChannel(c), M: mc.FromMessage(m)})
				}
			}
			if infoL != nil && len(infoL.MetadataIndexes) > 0 && step%2 == 0 {
				_, _ = one.GetMetadata(infoL.MetadataIndexes[step/2%len(infoL.MetadataIndexes)].Offset)
			}
			if !doneB {
				s, c, m, err := itB.NextInto(nil)
				if err != nil {
					doneB = true
					if !errors.Is(err, io.EOF) {
						one.Close()
						return reads, pk.Failf("indexed-error", "%s: log-time iterator advanced in lockstep with a file-order iterator of the same Reader: %v after %d items", name, err, len(gotB))
					}
				} else {
					gotB = append(gotB, mc.Triple{S: mc.FromSchema(s), C: mc.FromChannel(c), M: mc.FromMessage(m)})
				}
			}
		}
		reads += 2
		if err := checkSelection(name+", file-order iterator in lockstep with another on one Reader", gotA, all, pl, mcap.FileOrder); err != nil {
			one.Close()
			return reads, err
		}
		if err := checkSelection(name+", log-time iterator in lockstep with another on one Reader", gotB, all, pl, mcap.LogTimeOrder); err != nil {
			one.Close()
			return reads, err
		}
		one.Close()
	}
	// Info
	rd, err := mcap.NewReader(bytesReader(file))
	if err != nil {
		return reads, pk.Failf("open", "%s: NewReader: %v", name, err)
	}
	info, err := rd.Info()
	reads++
	if err != nil {
		return reads, pk.Failf("info", "%s: Info: %v", name, err)
	}
	if srec := d.Summary(specdec.OpStatistics); len(srec) == 1 {
		ms := w.Stats()
		if info.Statistics == nil {
			return reads, pk.Failf("info", "%s: Info.Statistics is nil although the file has a statistics record", name)
		}
		got := aggrOfStats(info.Statistics)
		want := aggr{ms.MessageCount, got.SchemaCount, got.ChannelCount, uint64(ms.AttachmentCount), uint64(ms.MetadataCount), uint64(len(d.Data(specdec.OpChunk))), ms.MinTime, ms.MaxTime, countsString(ms.ChannelCounts)}
		if got != want {
			return reads, pk.Failf("info-statistics", "%s: Info.Statistics = %+v, content aggregates %+v", name, got, want)
		}
	} else if info.Statistics != nil {
		return reads, pk.Failf("info", "%s: Info.Statistics invented", name)
	}
	if n := len(d.Summary(specdec.OpChannel)); n > 0 {
		for _, c := range w.Channels() {
			if !pk.EqChannel(mc.FromChannel(info.Channels[c.ID]), c) {
				return reads, pk.Failf("info-listing", "%s: Info.Channels[%d] = %s, content has %s", name, c.ID, pk.Short(info.Channels[c.ID]), pk.Short(c))
			}
		}
		if len(info.Channels) != len(w.Channels()) {
			return reads, pk.Failf("info-listing", "%s: Info lists %d channels, content has %d", name, len(info.Channels), len(w.Channels()))
		}
	}
	if n := len(d.Summary(specdec.OpSchema)); n > 0 {
		for _, s := range w.Schemas() {
			if !pk.EqSchema(mc.FromSchema(info.Schemas[s.ID]), s) {
				return reads, pk.Failf("info-listing", "%s: Info.Schemas[%d] differs from the content", name, s.ID)
			}
		}
	}
	if len(info.ChunkIndexes) != len(d.Summary(specdec.OpChunkIndex)) || len(info.AttachmentIndexes) != len(d.Summary(specdec.OpAttachmentIndex)) || len(info.MetadataIndexes) != len(d.Summary(specdec.OpMetadataIndex)) {
		return reads, pk.Failf("info-listing", "%s: Info lists %d/%d/%d chunk/attachment/metadata indexes, the summary has %d/%d/%d", name, len(info.ChunkIndexes), len(info.AttachmentIndexes), len(info.MetadataIndexes),
			len(d.Summary(specdec.OpChunkIndex)), len(d.Summary(specdec.OpAttachmentIndex)), len(d.Summary(specdec.OpMetadataIndex)))
	}
	return reads, nil
}

func checkC12(c C12Case, st *stats.Collector) error {
	f1, n1, err := specenc.Encode(&c.W, c.L1)
	if err != nil {
		return pk.Failf("harness", "encode L1: %v", err)
	}
	f2, n2, err := specenc.Encode(&c.W, c.L2)
	if err != nil {
		return pk.Failf("harness", "encode L2: %v", err)
	}
	f3, _, err := mc.WriteBytes(&c.W, c.K)
	if err != nil {
		return pk.Failf("write-error", "Go writer: %v", err)
	}
	reads := 0
	for _, f := range []struct {
		name string
		b    []byte
	}{{"layout 1", f1}, {"layout 2", f2}, {"go writer layout", f3}} {
		n, err := checkOneLayout(f.name, f.b, &c.W, c.Indexed)
		reads += n
		if err != nil {
			return err
		}
	}
	orderDiffers := fmt.Sprint(c.L1.SummaryOrder) != fmt.Sprint(c.L2.SummaryOrder)
	compDiffers := fmt.Sprint(c.L1.Compression) != fmt.Sprint(c.L2.Compression)
	nontrivial := n1 != n2 && (orderDiffers || compDiffers)
	classes := []string{fmt.Sprintf("indexed=%v", c.Indexed)}
	if n1 != n2 {
		classes = append(classes, "partition-differs")
	}
	if orderDiffers {
		classes = append(classes, "summary-order-differs")
	}
	// chunk indexes ahead of channels in at least one layout
	for _, l := range []specenc.Layout{c.L1, c.L2} {
		ci, ch := -1, -1
		for i, g := range l.SummaryOrder {
			if g == "chx" {
				ci = i
			}
			if g == "channel" {
				ch = i
			}
		}
		if l.ChunkIndex && ci < ch {
			classes = append(classes, "chunk-index-before-channels")
			break
		}
	}
	st.Case(wl.Hash(c), nontrivial, reads, classes...)
	if nontrivial && st.WantSample() {
		st.Sample(map[string]any{"W": c.W.Trunc(8), "L1": c.L1, "L2": c.L2, "K": c.K})
	}
	return nil
}

func TestC12(t *testing.T) {
	pk.Run(t, "C12", genC12, checkC12)
}
