package props

import (
	"errors"
	"fmt"
	"io"
	"math"
	"testing"

	"github.com/foxglove/mcap/go/mcap"
	"pgregory.net/rapid"
	"verifharness/mc"
	"verifharness/pk"
	"verifharness/specdec"
	"verifharness/stats"
	"verifharness/wl"
)

type C04Case struct {
	W      wl.Workload
	K      wl.Config
	Topics []string
	S, E   uint64
	// Expr: 0 none; 1 AfterNanos+BeforeNanos; 2 BeforeNanos+AfterNanos; 3 AfterNanos alone; 4 BeforeNanos alone;
	// 5 After+Before; 6 Before+After; 7 After alone; 8 Before alone (deprecated int64 options)
	Expr int
}

var exprNames = []string{"none", "AfterNanos+BeforeNanos", "BeforeNanos+AfterNanos", "AfterNanos", "BeforeNanos", "After+Before", "Before+After", "After", "Before"}

func genC04(t *rapid.T) C04Case {
	var k wl.Config
	if rapid.IntRange(0, 4).Draw(t, "unchunked?") == 0 {
		k = wl.GenConfig(t, wl.CfgParams{NoCustom: true, NoSkipMagic: true})
		k.Chunked = false
	} else {
		k = wl.GenConfig(t, wl.CfgParams{Indexed: true, SmallChunks: rapid.Bool().Draw(t, "small")})
	}
	mode := rapid.SampledFrom([]int{0, 1, 2, 3, 4, 5}).Draw(t, "c04-time-mode")
	w := wl.GenWorkload(t, wl.GenParams{ChunkHint: k.ChunkSize, TimeMode: mode, NoLong: true, UniqueSeq: true, MaxMsgs: 60, MinMsgs: 3, NoAttach: true, NoMeta: true, MaxPayload: 400})
	c := C04Case{W: w, K: k, Topics: genTopics(t, &w)}
	c.S, c.E = genWindow(t, &w)
	c.Expr = rapid.IntRange(0, 8).Draw(t, "expr")
	if c.Expr >= 5 && (c.S > math.MaxInt64 || c.E > math.MaxInt64) {
		c.Expr -= 4 // the int64 options cannot express it; use the nanosecond form of the same shape
	}
	return c
}

func windowOpts(c C04Case) (opts []mcap.ReadOpt, s, e uint64, endOpen bool) {
	switch c.Expr {
	case 0:
		return nil, 0, 0, true
	case 1:
		return []mcap.ReadOpt{mcap.AfterNanos(c.S), mcap.BeforeNanos(c.E)}, c.S, c.E, false
	case 2:
		return []mcap.ReadOpt{mcap.BeforeNanos(c.E), mcap.AfterNanos(c.S)}, c.S, c.E, false
	case 3:
		return []mcap.ReadOpt{mcap.AfterNanos(c.S)}, c.S, 0, true
	case 4:
		return []mcap.ReadOpt{mcap.BeforeNanos(c.E)}, 0, c.E, false
	case 5:
		return []mcap.ReadOpt{mcap.After(int64(c.S)), mcap.Before(int64(c.E))}, c.S, c.E, false
	case 6:
		return []mcap.ReadOpt{mcap.Before(int64(c.E)), mcap.After(int64(c.S))}, c.S, c.E, false
	case 7:
		return []mcap.ReadOpt{mcap.After(int64(c.S))}, c.S, 0, true
	default:
		return []mcap.ReadOpt{mcap.Before(int64(c.E))}, 0, c.E, false
	}
}

func checkC04(c C04Case, st *stats.Collector) error {
	w, k := &c.W, c.K
	file, _, err := mc.WriteBytes(w, k)
	if err != nil {
		return pk.Failf("write-error", "writer rejected a well-formed call sequence: %v", err)
	}
	d, err := specdec.Decode(file, specOpts(k))
	if err != nil {
		return pk.Failf("specdec", "reference decoder rejects the file: %v", err)
	}
	pl := placementOf(d)
	all := w.Messages()
	indexed := len(d.Summary(specdec.OpChunkIndex)) > 0 && len(d.Summary(specdec.OpChannel)) > 0
	wopts, s, e, endOpen := windowOpts(c)
	modes := []struct {
		name  string
		opts  []mcap.ReadOpt
		order mcap.ReadOrder
		idx   bool
	}{
		{"non-indexed", []mcap.ReadOpt{mcap.UsingIndex(false)}, mcap.FileOrder, false},
		{"indexed file order", []mcap.ReadOpt{mcap.UsingIndex(true), mcap.InOrder(mcap.FileOrder)}, mcap.FileOrder, true},
		{"log-time order", []mcap.ReadOpt{mcap.InOrder(mcap.LogTimeOrder)}, mcap.LogTimeOrder, true},
		{"reverse log-time order", []mcap.ReadOpt{mcap.InOrder(mcap.ReverseLogTimeOrder)}, mcap.ReverseLogTimeOrder, true},
	}
	reads := 0
	for _, m := range modes {
		opts := append([]mcap.ReadOpt{}, m.opts...)
		if c.Topics != nil {
			opts = append(opts, mc.Topics(c.Topics))
		}
		opts = append(opts, wopts...)
		label := fmt.Sprintf("%s, topics=%v, %s [%d,%d)", m.name, c.Topics, exprNames[c.Expr], c.S, c.E)
		r := mc.ReadMessagesMode(bytesReader(file), (reads+int(wl.Hash(c)%4))%4, false, false, 0, opts...)
		reads++
		if r.Panic != "" {
			return pk.Failf("panic", "%s: %s", label, r.Panic)
		}
		if r.OpenErr != nil {
			if m.order != mcap.FileOrder && !indexed {
				continue // time-ordered read of a file without a usable index: an error is the contract
			}
			return pk.Failf("option-error", "%s: Messages rejected a legal window/selection: %v", label, r.OpenErr)
		}
		if !errors.Is(r.Err, io.EOF) {
			return pk.Failf("read-error", "%s: %v after %d items", label, r.Err, len(r.Items))
		}
		if err := checkSelectionKF(st, "C04", label, r.Items, all, c.Topics, s, e, endOpen, pl, m.order); err != nil {
			return err
		}
	}
	want := wl.Select(all, c.Topics, s, e, endOpen)
	boundaryHit := false
	for _, m := range all {
		if m.M.LogTime == c.S || m.M.LogTime == c.E {
			boundaryHit = true
		}
	}
	nontrivial := (len(want) > 0 && len(want) < len(all) && (boundaryHit || c.Expr == 0)) || (endOpen && hasMaxTime(all))
	classes := []string{"expr=" + exprNames[c.Expr], fmt.Sprintf("indexed=%v", indexed)}
	switch {
	case c.Topics == nil:
		classes = append(classes, "topics=nil")
	case len(c.Topics) == 0:
		classes = append(classes, "topics=empty")
	default:
		classes = append(classes, "topics=some")
	}
	if len(want) == 0 {
		classes = append(classes, "selection=empty")
	} else if len(want) == len(all) {
		classes = append(classes, "selection=all")
	} else {
		classes = append(classes, "selection=proper-subset")
	}
	if boundaryHit {
		classes = append(classes, "boundary=message-time")
	}
	if c.S == c.E {
		classes = append(classes, "start=end")
	}
	st.Case(wl.Hash(c), nontrivial, reads, classes...)
	if nontrivial && st.WantSample() {
		st.Sample(C04Case{W: w.Trunc(8), K: k, Topics: c.Topics, S: c.S, E: c.E, Expr: c.Expr})
	}
	return nil
}

func TestC04(t *testing.T) {
	pk.Run(t, "C04", genC04, checkC04)
}

func TestC04Exhaustive(t *testing.T) {
	pk.RunEnum(t, "C04x2", enumArr2(), checkArr2("C04"))
}
