#!/usr/bin/env python3
"""Persistent worker around the repository's Python MCAP implementation (line-delimited JSON on stdin/stdout).

  {"cmd": "read", "path": p}                      -> what StreamReader(validate_crcs=True) and SeekingReader see
  {"cmd": "write", "path": p, "ops": [...], "options": {...}, "profile": s, "library": s}
                                                  -> writes a file with mcap.writer.Writer
"""
import io
import json
import os
import sys
import traceback

repo = os.environ.get("VERIF_REPO", "/repo")
sys.path.insert(0, os.path.join(repo, "python", "mcap"))

from mcap.reader import SeekingReader  # noqa: E402
from mcap.records import (Attachment, Channel, DataEnd, Header, Message, Metadata, Schema, Statistics)  # noqa: E402
from mcap.stream_reader import StreamReader  # noqa: E402
from mcap.writer import CompressionType, IndexType, Writer  # noqa: E402


def hx(b):
    return bytes(b).hex()


def rec(r):
    if isinstance(r, Header):
        return {"t": "header", "profile": r.profile, "library": r.library}
    if isinstance(r, Schema):
        return {"t": "schema", "id": r.id, "name": r.name, "encoding": r.encoding, "data": hx(r.data)}
    if isinstance(r, Channel):
        return {"t": "channel", "id": r.id, "schema_id": r.schema_id, "topic": r.topic, "message_encoding": r.message_encoding,
                "metadata": dict(r.metadata)}
    if isinstance(r, Message):
        return {"t": "message", "channel_id": r.channel_id, "sequence": r.sequence, "log_time": r.log_time, "publish_time": r.publish_time,
                "data": hx(r.data)}
    if isinstance(r, Attachment):
        return {"t": "attachment", "log_time": r.log_time, "create_time": r.create_time, "name": r.name, "media_type": r.media_type, "data": hx(r.data)}
    if isinstance(r, Metadata):
        return {"t": "metadata", "name": r.name, "metadata": dict(r.metadata)}
    if isinstance(r, Statistics):
        return stats(r)
    return {"t": type(r).__name__}


def stats(s):
    if s is None:
        return None
    return {"t": "statistics", "message_count": s.message_count, "schema_count": s.schema_count, "channel_count": s.channel_count,
            "attachment_count": s.attachment_count, "metadata_count": s.metadata_count, "chunk_count": s.chunk_count,
            "message_start_time": s.message_start_time, "message_end_time": s.message_end_time,
            "channel_message_counts": {str(k): v for k, v in s.channel_message_counts.items()}}


def triple(schema, channel, message):
    d = rec(message)
    d["channel"] = rec(channel)
    d["schema"] = rec(schema) if schema is not None else None
    return d


def do_read(path):
    out = {}
    # streaming, with CRC validation
    st = {"records": [], "statistics": None, "error": None}
    try:
        with open(path, "rb") as f:
            data_done = False
            for r in StreamReader(f, validate_crcs=True).records:
                if isinstance(r, DataEnd):
                    data_done = True
                    continue
                if not data_done:
                    st["records"].append(rec(r))
                elif isinstance(r, Statistics):
                    st["statistics"] = stats(r)
    except Exception as e:  # noqa: BLE001
        st["error"] = "%s: %s" % (type(e).__name__, e)
    out["stream"] = st
    # seeking
    sk = {"error": None}
    try:
        with open(path, "rb") as f:
            rd = SeekingReader(f, validate_crcs=True)
            sk["header"] = rec(rd.get_header())
            summ = rd.get_summary()
            if summ is None:
                sk["summary"] = None
            else:
                sk["summary"] = {"statistics": stats(summ.statistics), "channels": {str(k): rec(v) for k, v in summ.channels.items()},
                                 "schemas": {str(k): rec(v) for k, v in summ.schemas.items()}, "n_chunk_indexes": len(summ.chunk_indexes),
                                 "n_attachment_indexes": len(summ.attachment_indexes), "n_metadata_indexes": len(summ.metadata_indexes)}
            sk["file_order"] = [triple(*t) for t in rd.iter_messages(log_time_order=False)]
            sk["log_time"] = [triple(*t) for t in rd.iter_messages(log_time_order=True)]
            sk["reverse"] = [triple(*t) for t in rd.iter_messages(log_time_order=True, reverse=True)]
            sk["attachments"] = [rec(a) for a in rd.iter_attachments()]
            sk["metadata"] = [rec(m) for m in rd.iter_metadata()]
    except Exception as e:  # noqa: BLE001
        sk["error"] = "%s: %s\n%s" % (type(e).__name__, e, traceback.format_exc()[-600:])
    out["seeking"] = sk
    return out


def do_write(req):
    o = req.get("options", {})
    it = IndexType.NONE
    for name in (o.get("index_types") or []):
        it |= getattr(IndexType, name)
    kind = o.get("output") or "file"
    mem = None
    if kind == "path":
        f, target = None, req["path"]
    elif kind == "raw":
        f = open(req["path"], "wb", buffering=0)
        target = f
    elif kind == "bytesio":
        import io
        f, mem = None, io.BytesIO()
        target = mem
    else:
        f = open(req["path"], "wb")
        target = f
    try:
        w = Writer(target, chunk_size=o.get("chunk_size", 1024 * 1024), compression=CompressionType.NONE, index_types=it,
                   repeat_channels=o.get("repeat_channels", True), repeat_schemas=o.get("repeat_schemas", True),
                   use_chunking=o.get("use_chunking", True), use_statistics=o.get("use_statistics", True),
                   use_summary_offsets=o.get("use_summary_offsets", True), enable_crcs=o.get("enable_crcs", True),
                   enable_data_crcs=o.get("enable_data_crcs", False))
        w.start(profile=req.get("profile", ""), library=req.get("library", ""))
        ids = {"schema": [], "channel": []}
        for op in (req.get("ops") or []):
            k = op["k"]
            if k == "schema":
                ids["schema"].append(w.register_schema(op["name"], op["encoding"], bytes.fromhex(op["data"])))
            elif k == "channel":
                ids["channel"].append(w.register_channel(op["topic"], op["message_encoding"], op["schema_id"], dict(op["metadata"])))
            elif k == "message":
                w.add_message(op["channel_id"], op["log_time"], bytes.fromhex(op["data"]), op["publish_time"], op["sequence"])
            elif k == "attachment":
                w.add_attachment(op["create_time"], op["log_time"], op["name"], op["media_type"], bytes.fromhex(op["data"]))
            elif k == "metadata":
                w.add_metadata(op["name"], dict(op["metadata"]))
        w.finish()
    finally:
        # the caller closes what the caller opened, as the Writer's documentation says
        if f is not None:
            f.close()
    if mem is not None:
        with open(req["path"], "wb") as out:
            out.write(mem.getvalue())
    return {"ids": ids}


def main():
    for line in sys.stdin:
        line = line.strip()
        if not line:
            continue
        try:
            req = json.loads(line)
            if req["cmd"] == "read":
                resp = do_read(req["path"])
            elif req["cmd"] == "write":
                resp = do_write(req)
            else:
                resp = {"fatal": "unknown command"}
        except Exception as e:  # noqa: BLE001
            resp = {"fatal": "%s: %s\n%s" % (type(e).__name__, e, traceback.format_exc()[-800:])}
        sys.stdout.write(json.dumps(resp) + "\n")
        sys.stdout.flush()


if __name__ == "__main__":
    main()
