#!/usr/bin/env python3
"""Driver for the /verif checks (python3 stdlib only).

  run.py check <ID> --tier quick|thorough     build the harness against $VERIF_REPO (default /repo), run the
                                              property's shards, merge evidence, print KNOWN-FINDING / VIOLATION lines
  run.py replay <ID> <file>                   re-run the oracle of <ID> on a saved case, without rapid
  run.py setup                                warm the Go build cache (offline) and run the pins

Exit codes: 0 property held on everything explored; 1 unlisted violation (VIOLATION line printed);
2 harness/infrastructure problem (never reported as a violation).
"""
import argparse, glob, hashlib, json, os, re, shutil, subprocess, sys, tempfile, time

VERIF = os.path.dirname(os.path.abspath(__file__))
HARNESS = os.path.join(VERIF, "harness")
sys.path.insert(0, VERIF)
from checks import CHECKS, NOT_YET  # noqa: E402

GOENV = {"GOFLAGS": "-mod=mod", "GOPROXY": "off", "GOSUMDB": "off", "GOTOOLCHAIN": "local"}
M64 = (1 << 64) - 1


def splitmix(*xs):
    z = 0x9E3779B97F4A7C15
    for x in xs:
        z = (z + (int(x) & M64) * 0xBF58476D1CE4E5B9 + 0x9E3779B97F4A7C15) & M64
        z ^= z >> 30
        z = (z * 0xBF58476D1CE4E5B9) & M64
        z ^= z >> 27
        z = (z * 0x94D049BB133111EB) & M64
        z ^= z >> 31
    return (z | 1) & ((1 << 63) - 1)


def env_base():
    e = dict(os.environ)
    e.update(GOENV)
    return e


def repo():
    return os.environ.get("VERIF_REPO", "/repo")


def make_scratch():
    base = os.environ.get("VERIF_SCRATCH", tempfile.gettempdir())
    return tempfile.mkdtemp(prefix="verif-", dir=base)


def render_modfile(scratch):
    src = open(os.path.join(HARNESS, "go.mod")).read()
    src = src.replace("=> /repo/", "=> " + repo().rstrip("/") + "/")
    open(os.path.join(scratch, "go.mod"), "w").write(src)
    shutil.copy(os.path.join(HARNESS, "go.sum"), os.path.join(scratch, "go.sum"))
    return os.path.join(scratch, "go.mod")


def build(scratch, pkg, race=False, extra_tags="", fuzz=False):
    modfile = render_modfile(scratch)
    out = os.path.join(scratch, pkg.replace("/", "_") + (".race" if race else "") + (".fuzz" if fuzz else "") + ".test")
    if os.path.exists(out):
        return out
    cmd = ["go", "test", "-c", "-tags", "verif" + extra_tags, "-modfile=" + modfile, "-o", out]
    if race:
        cmd.append("-race")
    if fuzz:
        cmd.append("-fuzz=Fuzz")  # coverage instrumentation for native fuzzing
    cmd.append("./" + pkg)
    t0 = time.time()
    p = subprocess.run(cmd, cwd=HARNESS, env=env_base(), stdout=subprocess.PIPE, stderr=subprocess.STDOUT, text=True)
    if p.returncode != 0 or not os.path.exists(out):
        print("HARNESS-ERROR: build failed (%s)" % " ".join(cmd))
        print(p.stdout[-6000:])
        return None
    sys.stderr.write("[run.py] built %s in %.1fs\n" % (pkg, time.time() - t0))
    return out


def build_conformance_tools(scratch, repo_dir, env):
    """Build the two Go conformance tools from the working tree into <scratch>/tools (workspace mode, no -mod flag)."""
    out = os.path.join(scratch, "tools")
    os.makedirs(out, exist_ok=True)
    e = dict(env)
    e.pop("GOFLAGS", None)
    for tool in ("test-read-conformance", "test-write-conformance"):
        p = subprocess.run(["go", "build", "-o", os.path.join(out, tool), "."], cwd=os.path.join(repo_dir, "go", "conformance", tool),
                           env=e, stdout=subprocess.PIPE, stderr=subprocess.STDOUT, text=True)
        if p.returncode != 0:
            print("HARNESS-ERROR: cannot build %s:\n%s" % (tool, p.stdout[-3000:]))
            return False
    return True


PREBUILD = {"conformance_tools": build_conformance_tools}


def load_findings():
    p = os.path.join(VERIF, "known_findings.json")
    try:
        return json.load(open(p)).get("findings", [])
    except Exception:
        return []


def tier_of(spec, tier):
    """Tier parameters; "smoke" (used by the mutation sweeps only, never registered) is a quarter of the quick tier."""
    if tier != "smoke":
        return spec["tiers"][tier]
    t = dict(spec["tiers"]["quick"])
    if "checks" in t:
        t["checks"] = max(1, t["checks"] // 4)
    return t


def run_shards(binary, spec, pid, tier, seed, scratch, replay=None, part_index=0):
    t = tier_of(spec, tier)
    shards = 1 if replay else t.get("shards", 16)
    outdir = os.path.join(scratch, "out")
    os.makedirs(outdir, exist_ok=True)
    procs = []
    prop_no = int(re.sub(r"\D", "", pid) or 0)
    for sh in range(shards):
        e = env_base()
        e.update({"VERIF_OUT": outdir, "VERIF_SHARD": str(sh + 100 * part_index), "VERIF_SHARD_INDEX": str(sh), "VERIF_SHARDS": str(shards), "VERIF_TIER": "quick" if tier == "smoke" else tier,
                  "VERIF_SEED": str(seed), "VERIF_KF": os.path.join(VERIF, "known_findings.json"),
                  "VERIF_REPO": repo(), "VERIF_DIR": VERIF, "VERIF_SCRATCH_DIR": scratch, "VERIF_TOOLS_DIR": os.path.join(scratch, "tools"),
                  "GOMAXPROCS": str(t.get("gomaxprocs", 2)), "GOGC": str(t.get("gogc", 400)), "GOMEMLIMIT": t.get("gomemlimit", "1500MiB"), "VERIF_N": str(t.get("n", 0))})
        e.update({k: str(v) for k, v in t.get("env", {}).items()})
        if replay:
            e["VERIF_REPLAY"] = os.path.abspath(replay)
        sseed = splitmix(seed, prop_no, sh + 100 * part_index)
        cmd = [binary, "-test.run", spec["run"], "-test.v", "-test.timeout", "%ds" % t.get("timeout", 3000),
               "-rapid.checks=%d" % t.get("checks", 100), "-rapid.seed=%d" % sseed, "-rapid.nofailfile",
               "-rapid.shrinktime=%s" % t.get("shrinktime", "20s")]
        if t.get("steps"):
            cmd.append("-rapid.steps=%d" % t["steps"])
        cmd += t.get("args", [])
        logf = open(os.path.join(outdir, "log-%d.%d.txt" % (part_index, sh)), "w")
        procs.append((sh, subprocess.Popen(cmd, cwd=os.path.join(HARNESS, spec["pkg"]), env=e, stdout=logf, stderr=subprocess.STDOUT), logf))
    return procs, outdir, time.time() + t.get("timeout", 3000) + 60


def wait_shards(procs, deadline, outdir=None):
    results = {}
    if os.environ.get("VERIF_FIRST_ONLY") and outdir:
        # sweeps over seeded changes and mutants only ask "caught or not": once one shard has finished with a
        # violation on file, the others are stopped (never used by the registered commands)
        while time.time() < deadline and any(p.poll() is None for _, p, _ in procs):
            if any(p.poll() not in (None, 0) for _, p, _ in procs) and glob.glob(os.path.join(outdir, "violation-*.json")):
                for _, p, _ in procs:
                    if p.poll() is None:
                        p.kill()
                break
            time.sleep(1)
    for sh, p, logf in procs:
        try:
            rc = p.wait(timeout=max(1, deadline - time.time()))
        except subprocess.TimeoutExpired:
            p.kill()
            rc = -9
        logf.close()
        results[sh] = rc
    return results


def run_fuzz_target(binary, target, budget, parallel, pid, scratch, outdir):
    """Native go fuzzing of one target for `budget` seconds. The engine stops at the first crasher; a crasher is
    re-run alone and only counts when it fails again (a worker killed for slowness under load is inconclusive)."""
    work = os.path.join(scratch, "fuzz-" + target)
    os.makedirs(os.path.join(work, "errs"), exist_ok=True)
    e = env_base()
    e.update({"VERIF_FUZZ_STDERR": os.path.join(work, "errs"), "VERIF_REPO": repo(), "VERIF_DIR": VERIF, "VERIF_SCRATCH_DIR": scratch})
    deadline = time.time() + budget
    execs, inconclusive, rounds = 0, 0, 0
    cdir = os.path.join(work, "testdata", "fuzz", target)
    while time.time() < deadline - 10 and rounds < 50:
        rounds += 1
        remaining = int(deadline - time.time())
        cmd = [binary, "-test.run=^$", "-test.fuzz=^%s$" % target, "-test.fuzztime=%ds" % remaining, "-test.fuzzcachedir=" + os.path.join(work, "cache"),
               "-test.parallel=%d" % parallel, "-test.timeout=%ds" % (remaining + 120)]
        p = subprocess.run(cmd, cwd=work, env=e, stdout=subprocess.PIPE, stderr=subprocess.STDOUT, text=True)
        m = re.findall(r"execs: (\d+)", p.stdout)
        if m:
            execs += int(m[-1])
        if p.returncode == 0:
            break
        crashers = sorted(glob.glob(os.path.join(cdir, "*"))) if os.path.isdir(cdir) else []
        if not crashers:
            return execs, inconclusive, "fuzz engine failed without a crasher: " + p.stdout[-400:]
        for c in crashers:
            name = os.path.basename(c)
            fails = 0
            last = ""
            for _ in range(2):
                try:
                    r = subprocess.run([binary, "-test.run=^%s/%s$" % (target, name), "-test.timeout=180s"], cwd=work, env=e, stdout=subprocess.PIPE, stderr=subprocess.STDOUT, text=True, timeout=240)
                    rc, last = r.returncode, r.stdout
                except subprocess.TimeoutExpired:
                    rc, last = 1, "timed out after 240 s when re-run alone"
                if rc != 0:
                    fails += 1
            if fails == 2:
                v = {"property": pid, "kind": "fuzz-crasher-" + target, "message": "native fuzzing of %s: input fails when re-run alone: %s" % (target, last[-1500:]),
                     "case": {"fuzz_target": target, "corpus_file": open(c, errors="replace").read()[:200000]}}
                json.dump(v, open(os.path.join(outdir, "violation-%s-fuzz-%s-%s.json" % (pid, target, name)), "w"))
                return execs, inconclusive, None
            inconclusive += 1
            os.makedirs(os.path.join(work, "inconclusive"), exist_ok=True)
            shutil.move(c, os.path.join(work, "inconclusive", name))
    return execs, inconclusive, None


def merge(pid, spec, tier, seed, outdir, results, wall):
    tot = {"evaluations": 0, "cases": 0, "classes": {}, "known": {}, "known_what": {}, "notes": {}, "excluded": {}, "samples": [],
           "exhaustive": False}
    nt = set()
    nstats = 0
    for f in sorted(glob.glob(os.path.join(outdir, "stats-*.json"))):
        try:
            d = json.load(open(f))
        except Exception:
            continue
        nstats += 1
        tot["evaluations"] += d.get("evaluations", 0)
        tot["cases"] += d.get("cases", 0)
        nt.update(d.get("nontrivial_hashes") or [])
        for k, v in (d.get("classes") or {}).items():
            tot["classes"][k] = tot["classes"].get(k, 0) + v
        for k, v in (d.get("known_findings_seen") or {}).items():
            tot["known"][k] = tot["known"].get(k, 0) + v
        tot["known_what"].update(d.get("known_findings_what") or {})
        for k, v in (d.get("notes") or {}).items():
            tot["notes"][k] = tot["notes"].get(k, 0) + v
        for k, v in (d.get("excluded") or {}).items():
            tot["excluded"][k] = tot["excluded"].get(k, 0) + v
        if len(tot["samples"]) < 5:
            tot["samples"] += (d.get("samples") or [])[: 5 - len(tot["samples"])]
        tot["exhaustive"] = tot["exhaustive"] or bool(d.get("exhaustive"))
        tot.setdefault("extra", {}).update(d.get("extra") or {})
    # rapid's own count of passed tests, to detect truncated runs
    passed = 0
    for f in glob.glob(os.path.join(outdir, "log-*.txt")):
        for m in re.finditer(r"\[rapid\] OK, passed (\d+) tests", open(f, errors="replace").read()):
            passed += int(m.group(1))
    tot["rapid_passed"] = passed
    tot["distinct_nontrivial"] = len(nt)
    tot["stat_files"] = nstats
    return tot


def write_evidence(pid, spec, tier, seed, tot, wall, nviol, extra_notes):
    cov = {
        "evaluations": int(tot["evaluations"]),
        "distinct_nontrivial": int(tot["distinct_nontrivial"]),
        "rule": spec["rule"],
        "samples": tot["samples"] if tot["samples"] else ["(no non-trivial sample captured in this run)"],
        "cases_generated": int(tot["cases"]),
        "classes": dict(sorted(tot["classes"].items())),
        "known_findings_observed": tot["known"],
        "notes": tot["notes"],
        "excluded_by_construction": tot["excluded"],
        "rapid_tests_passed": tot["rapid_passed"],
        "exhaustive": bool(tot["exhaustive"]) or bool(spec.get("exhaustive", {}).get(tier) if isinstance(spec.get("exhaustive"), dict) else spec.get("exhaustive", False)),
    }
    cov.update(tot.get("extra", {}))
    cov.update(extra_notes)
    ev = {"property_id": pid, "tier": tier, "seed": int(seed), "level": spec["level"], "coverage": cov,
          "assumptions": spec.get("assumptions", []), "wall_s": round(wall, 2), "violations": nviol,
          "technique": spec.get("technique", ""), "repo": repo()}
    os.makedirs(os.path.join(VERIF, "evidence"), exist_ok=True)
    p = os.path.join(VERIF, "evidence", pid + ".json")
    tmp = p + ".tmp"
    json.dump(ev, open(tmp, "w"), indent=1, ensure_ascii=False)
    os.replace(tmp, p)
    return p


def collect_violations(pid, outdir):
    out = []
    for f in sorted(glob.glob(os.path.join(outdir, "violation-*.json"))):
        try:
            v = json.load(open(f))
        except Exception:
            v = {"kind": "unreadable", "message": "", "case": None}
        h = hashlib.sha256(json.dumps(v.get("case"), sort_keys=True).encode()).hexdigest()[:12]
        d = os.path.join(VERIF, "replays", pid)
        if os.environ.get("VERIF_NO_EVIDENCE") == "1":
            d = os.path.join(tempfile.gettempdir(), "verif-mutant-replays", pid)
        os.makedirs(d, exist_ok=True)
        dst = os.path.join(d, "%s-%s.json" % (re.sub(r"[^A-Za-z0-9_.-]", "_", v.get("kind", "v"))[:40], h))
        shutil.copy(f, dst)
        out.append((dst, v.get("kind", ""), v.get("message", "")))
    return out


def tail(path, n=40):
    try:
        lines = open(path, errors="replace").read().splitlines()
    except Exception:
        return ""
    lines = [l for l in lines if "[rapid] draw" not in l]
    return "\n".join(lines[-n:])


def cmd_check(pid, tier, replay=None):
    if pid not in CHECKS:
        print("HARNESS-ERROR: unknown property %s" % pid)
        return 2
    spec = CHECKS[pid]
    seed = int(os.environ.get("VERIF_SEED", "1") or 1)
    if os.environ.get("VERIF_TIER") in ("quick", "thorough") and tier is None:
        tier = os.environ["VERIF_TIER"]
    tier = tier or "quick"
    t0 = time.time()
    scratch = make_scratch()
    try:
        parts = spec.get("parts") or [spec]
        results = {}
        started = []
        outdir = os.path.join(scratch, "out")
        want = 0
        for pi, part in enumerate(parts):
            ps = dict(spec)
            ps.update(part)
            binary = build(scratch, ps["pkg"], race=ps.get("race", False))
            if binary is None:
                return 2
            for pre in ps.get("prebuild", []):
                if not PREBUILD[pre](scratch, repo(), env_base()):
                    print("HARNESS-ERROR: prebuild step failed")
                    return 2
            procs, outdir, deadline = run_shards(binary, ps, pid, tier, seed, scratch, replay, part_index=pi)
            started.append((pi, procs, deadline))
            if ps.get("rapid", True) and not replay:
                want += tier_of(ps, tier).get("checks", 0) * tier_of(ps, tier).get("shards", 16)
        if os.environ.get("VERIF_FIRST_ONLY") and len(started) > 1:
            allp = [x for _, procs, _ in started for x in procs]
            wait_shards(allp, max(d for _, _, d in started), outdir)
        for pi, procs, deadline in started:
            for sh, rc in wait_shards(procs, deadline, outdir).items():
                results["%d.%d" % (pi, sh)] = rc
        fuzz_info = {}
        fz = spec.get("fuzz", {}).get(tier)
        if fz and not replay:
            fbin = build(scratch, spec["fuzz"]["pkg"], fuzz=True)
            if fbin is None:
                return 2
            for target in fz["targets"]:
                ex, inc, err = run_fuzz_target(fbin, target, fz["seconds"], fz.get("parallel", 12), pid, scratch, outdir)
                fuzz_info[target] = {"execs": ex, "crashers_not_reproducible_alone": inc, "seconds": fz["seconds"]}
                if err:
                    print("HARNESS-ERROR: " + err)
                    return 2
        wall = time.time() - t0
        # a race-detector report fails the binary without the property noticing: surface it as the violation
        for lf in sorted(glob.glob(os.path.join(outdir, "log-*.txt"))):
            txt = open(lf, errors="replace").read()
            if "WARNING: DATA RACE" in txt:
                i = txt.index("WARNING: DATA RACE")
                json.dump({"property": pid, "kind": "data-race", "message": "the race detector reported a data race", "case": {"race_report": txt[i:i + 6000]}},
                          open(os.path.join(outdir, "violation-%s-race-%s.json" % (pid, os.path.basename(lf)[4:-4])), "w"))
        viols = collect_violations(pid, outdir)
        tot = merge(pid, spec, tier, seed, outdir, results, wall)
        bad = {sh: rc for sh, rc in results.items() if rc != 0}
        infra = []
        if not viols:
            for sh, rc in bad.items():
                infra.append("shard %s exited %s without leaving a violation file:\n%s" % (sh, rc, tail(os.path.join(outdir, "log-%s.txt" % sh))))
        extra = {}
        if fuzz_info:
            extra["native_fuzz"] = fuzz_info
        if spec.get("rapid", True) and not replay and not viols and not infra and tot["rapid_passed"] < want:
            infra.append("rapid reported %d passed tests, %d requested (truncated run)" % (tot["rapid_passed"], want))
        if not replay and os.environ.get("VERIF_NO_EVIDENCE") != "1":
            write_evidence(pid, spec, tier, seed, tot, wall, len(viols), extra)
        for f in load_findings():
            if f.get("property") == pid and f.get("status") == "open":
                n = tot["known"].get(f["key"], 0)
                print("KNOWN-FINDING: property=%s %s [key=%s observed=%d]" % (pid, f.get("what", ""), f["key"], n))
        harness_v = [v for v in viols if v[1] == "harness"]
        real_v = [v for v in viols if v[1] != "harness"]
        if harness_v and real_v:
            # a shard that could not do its job does not silence the shards that found something
            for dst, kind, msg in harness_v:
                print("HARNESS-NOTE: %s (%s)" % (msg.replace("\n", " ")[:400], dst))
            viols = real_v
            harness_v = []
        if harness_v:
            for dst, kind, msg in harness_v:
                print("HARNESS-ERROR: %s (%s)" % (msg.replace("\n", " ")[:800], dst))
            return 2
        if viols:
            for dst, kind, msg in viols:
                print("VIOLATION property=%s replay=%s" % (pid, dst))
                print("  kind=%s %s" % (kind, msg.replace("\n", " ")[:600]))
            return 1
        if infra:
            for m in infra:
                print("HARNESS-ERROR: " + m)
            return 2
        print("OK property=%s tier=%s seed=%d evaluations=%d distinct_nontrivial=%d wall=%.1fs" % (
            pid, tier, seed, tot["evaluations"], tot["distinct_nontrivial"], wall))
        return 0
    finally:
        if os.environ.get("VERIF_KEEP") != "1":
            shutil.rmtree(scratch, ignore_errors=True)
        else:
            sys.stderr.write("[run.py] kept scratch %s\n" % scratch)


def cmd_setup():
    scratch = make_scratch()
    try:
        ok = True
        for pkg, race in sorted({(c["pkg"], c.get("race", False)) for c in CHECKS.values()}):
            if build(scratch, pkg, race=race) is None:
                ok = False
        return 0 if ok else 2
    finally:
        shutil.rmtree(scratch, ignore_errors=True)


def cmd_baseline(tags=""):
    """Run the repository's own test suite (guard off unless tags given) and compare with BASELINE stable_pass."""
    base = json.load(open("/root/.vp/BASELINE.json"))
    want = set(base["stable_pass"])
    e = dict(os.environ)
    e.update({"GOPROXY": "off", "GOSUMDB": "off", "GOTOOLCHAIN": "local"})
    e.pop("GOFLAGS", None)
    passed = set()
    for m in MODS.split():
        cmd = ["go", "test", "-json", "-vet=off", "-count=1", "-timeout", "25m"] + (["-tags", tags] if tags else []) + ["./..."]
        p = subprocess.run(cmd, cwd=os.path.join(repo(), m), env=e, stdout=subprocess.PIPE, stderr=subprocess.DEVNULL, text=True)
        for line in p.stdout.splitlines():
            try:
                ev = json.loads(line)
            except Exception:
                continue
            if ev.get("Action") == "pass" and ev.get("Test"):
                passed.add("%s::%s" % (ev["Package"], ev["Test"]))
    missing = sorted(want - passed)
    print("baseline: %d/%d stable tests pass (tags=%r)" % (len(want) - len(missing), len(want), tags))
    for m in missing[:20]:
        print("  MISSING " + m)
    return 0 if not missing else 1



MODS = "go/conformance/test-read-conformance go/conformance/test-write-conformance go/mcap go/ros"


def cmd_manifest():
    props = [json.loads(l) for l in open(os.path.join(VERIF, "properties.jsonl")) if l.strip()]
    try:
        hooks = json.load(open(os.path.join(VERIF, "hooks.json")))
    except Exception:
        hooks = {"source_commits": []}
    man = {
        "version": 1,
        "setup_cmd": "python3 /verif/run.py setup",
        "hooks": {
            "guard": "verif",
            "enable": "go build tag: the harness test binaries are built with `go test -c -tags verif` against the working tree of /repo (module replace)",
            "baseline_off_cmd": "export GOPROXY=off GOSUMDB=off GOTOOLCHAIN=local; unset GOFLAGS; for m in %s; do (cd /repo/$m && go test -json -vet=off -count=1 -timeout 25m ./...); done" % MODS,
            "source_commits": hooks.get("source_commits", []),
            "add_only": True,
        },
        "engines": [{"name": "verifharness", "path": "/verif/harness", "serves_properties": sorted(CHECKS.keys()),
                     "kind_free_text": "Go module: rapid property tests, enumerated fault injection, spec decoder/encoder oracles, isolated child-process workers, native fuzz targets; driven by /verif/run.py"}],
        "checks": [],
        "notes": "All checks: python3 /verif/run.py check <ID> --tier quick|thorough; exit 0 held, 1 VIOLATION, 2 harness problem. VERIF_SEED selects the seed. See DESIGN.md.",
        "not_applicable": [],
    }
    for p in props:
        pid = p["id"]
        if pid in CHECKS:
            c = CHECKS[pid]
            man["checks"].append({
                "property_id": pid,
                "quick_cmd": "python3 /verif/run.py check %s --tier quick" % pid,
                "thorough_cmd": "python3 /verif/run.py check %s --tier thorough" % pid,
                "evidence_file": "/verif/evidence/%s.json" % pid,
                "replay_cmd_template": "python3 /verif/run.py replay %s {path}" % pid,
                "engine": "verifharness",
                "level_claimed": {"category": c["level"], "text": c.get("level_text", c["technique"]), "design_ref": "DESIGN.md section 3, " + pid},
                "level_note": c.get("level_note", "; ".join(c.get("assumptions", []))),
                "technique": c["technique"],
            })
        else:
            man["not_applicable"].append({"property_id": pid, "reason": NOT_YET.get(pid, "check not built yet in this round; no claim made")})
    json.dump(man, open(os.path.join(VERIF, "MANIFEST.json"), "w"), indent=1)
    print("wrote MANIFEST.json: %d checks, %d not claimed" % (len(man["checks"]), len(man["not_applicable"])))
    return 0


def copy_repo(dst):
    """Copy the parts of the repository the checks use into dst (never touches /repo)."""
    src = repo()
    for rel in ("go", os.path.join("python", "mcap"), os.path.join("tests", "conformance", "data")):
        shutil.copytree(os.path.join(src, rel), os.path.join(dst, rel), symlinks=True,
                        ignore=shutil.ignore_patterns("test-read-conformance/test-read-conformance", "test-write-performance", "*.test"))


def cmd_mutants(only, out_path, emit):
    sys.path.insert(0, os.path.join(VERIF, "mutants"))
    from mutants import MUTANTS
    import difflib
    results = []
    for mid, prop, rel, old, new in MUTANTS:
        if only and not any(mid.startswith(o) or prop == o for o in only):
            continue
        base = make_scratch()
        try:
            if emit:
                srcp = os.path.join(repo(), rel)
                text = open(srcp).read()
                if text.count(old) < 1:
                    print("MUTANT %s: old text not found in %s" % (mid, rel))
                    continue
                mut = text.replace(old, new, 1)
                diff = "".join(difflib.unified_diff(text.splitlines(True), mut.splitlines(True), "a/" + rel, "b/" + rel))
                open(os.path.join(VERIF, "mutants", mid + ".patch"), "w").write(diff)
                continue
            copy_repo(base)
            p = os.path.join(base, rel)
            text = open(p).read()
            if text.count(old) < 1:
                results.append({"id": mid, "property": prop, "result": "STALE (old text not found)"})
                print("MUTANT %-45s %s STALE" % (mid, prop), flush=True)
                continue
            open(p, "w").write(text.replace(old, new, 1))
            e = dict(os.environ)
            e.update({"GOPROXY": "off", "GOSUMDB": "off", "GOTOOLCHAIN": "local"})
            e.pop("GOFLAGS", None)
            moddir = os.path.join(base, os.path.dirname(rel))
            b = subprocess.run(["go", "build", "./..."], cwd=moddir, env=e, stdout=subprocess.PIPE, stderr=subprocess.STDOUT, text=True)
            if b.returncode != 0:
                results.append({"id": mid, "property": prop, "result": "DOES-NOT-COMPILE", "detail": b.stdout[-500:]})
                print("MUTANT %-45s %s DOES-NOT-COMPILE\n%s" % (mid, prop, b.stdout[-500:]), flush=True)
                continue
            e2 = dict(os.environ)
            e2.update({"VERIF_REPO": base, "VERIF_NO_EVIDENCE": "1"})
            t0 = time.time()
            c = subprocess.run([sys.executable, os.path.join(VERIF, "run.py"), "check", prop, "--tier", "quick"], env=e2, stdout=subprocess.PIPE, stderr=subprocess.STDOUT, text=True)
            first = [l for l in c.stdout.splitlines() if l.startswith(("VIOLATION", "  kind=", "HARNESS-ERROR", "OK "))][:3]
            verdict = {0: "MISSED", 1: "CAUGHT", 2: "HARNESS-ERROR"}.get(c.returncode, "EXIT-%d" % c.returncode)
            results.append({"id": mid, "property": prop, "result": verdict, "wall_s": round(time.time() - t0, 1), "detail": first})
            print("MUTANT %-45s %s %-8s %5.1fs %s" % (mid, prop, verdict, time.time() - t0, (first[1] if len(first) > 1 else (first[0] if first else ""))[:160]), flush=True)
        finally:
            shutil.rmtree(base, ignore_errors=True)
    if out_path and not emit:
        json.dump(results, open(out_path, "w"), indent=1)
    missed = [r for r in results if r["result"] != "CAUGHT"]
    print("mutants: %d run, %d caught, %d not caught" % (len(results), len(results) - len(missed), len(missed)))
    return 0 if not missed else 1


def cmd_seeded(ids, confirm):
    """Run the owning check against each seeded change in /verif/seeded/<id>/ (applied to a scratch copy)."""
    rc_all = 0
    root = os.path.join(VERIF, "seeded")
    for sid in sorted(os.listdir(root)):
        if ids and sid not in ids:
            continue
        d = os.path.join(root, sid)
        if not os.path.exists(os.path.join(d, "patch.diff")):
            continue
        meta = json.load(open(os.path.join(d, "meta.json")))
        base = make_scratch()
        try:
            copy_repo(base)
            p = subprocess.run(["patch", "-p1", "-s", "-i", os.path.join(d, "patch.diff")], cwd=base, stdout=subprocess.PIPE, stderr=subprocess.STDOUT, text=True)
            if p.returncode != 0:
                print("SEEDED %s: patch does not apply: %s" % (sid, p.stdout[-300:]))
                rc_all = 1
                continue
            line = "SEEDED %-28s %s" % (sid, meta["property"])
            if confirm:
                e = dict(os.environ)
                e.update({"GOPROXY": "off", "GOSUMDB": "off", "GOTOOLCHAIN": "local", "VERIF_REPO": base})
                e.pop("GOFLAGS", None)
                b = subprocess.run([sys.executable, os.path.join(VERIF, "run.py"), "baseline"], env=e, stdout=subprocess.PIPE, stderr=subprocess.STDOUT, text=True)
                line += " suite=%s" % ("pass" if b.returncode == 0 else "FAIL(" + b.stdout.strip().splitlines()[-1][:80] + ")")
                demo = meta.get("demo", "demo_test.go") or ""
                ddir = os.path.join(base, meta.get("demo_dir") or "go/mcap")
                if not demo.endswith("_test.go"):
                    print(line + " demo=(script, confirmed in the agent's worktree: %s)" % meta.get("confirmed_demo_sh", "?"), end=" ")
                    line = ""
                    demo = ""
                if demo:
                    shutil.copy(os.path.join(d, demo), os.path.join(ddir, "zz_seed_demo_test.go"))
                    tags = ["-tags", meta["demo_tags"]] if meta.get("demo_tags") else []
                    gt = ["go", "test", "-count=1", "-vet=off"] + tags + ["-run", meta.get("demo_run") or "Seed", "."]
                    r1 = subprocess.run(gt, cwd=ddir, env=e, stdout=subprocess.PIPE, stderr=subprocess.STDOUT, text=True)
                    subprocess.run(["patch", "-p1", "-s", "-R", "-i", os.path.join(d, "patch.diff")], cwd=base)
                    r2 = subprocess.run(gt, cwd=ddir, env=e, stdout=subprocess.PIPE, stderr=subprocess.STDOUT, text=True)
                    subprocess.run(["patch", "-p1", "-s", "-i", os.path.join(d, "patch.diff")], cwd=base)
                    os.remove(os.path.join(ddir, "zz_seed_demo_test.go"))
                    line += " demo(with)=%s demo(without)=%s" % ("fails" if r1.returncode != 0 else "PASSES?!", "passes" if r2.returncode == 0 else "FAILS?!")
            e2 = dict(os.environ)
            e2.update({"VERIF_REPO": base, "VERIF_NO_EVIDENCE": "1", "VERIF_FIRST_ONLY": "1"})
            verdicts = []
            for prop in [meta["property"]] + meta.get("also_check", []):
                t0 = time.time()
                c = subprocess.run([sys.executable, os.path.join(VERIF, "run.py"), "check", prop, "--tier", "quick"], env=e2, stdout=subprocess.PIPE, stderr=subprocess.STDOUT, text=True)
                v = {0: "MISSED", 1: "CAUGHT", 2: "HARNESS-ERROR"}.get(c.returncode, "EXIT-%d" % c.returncode)
                kind = [l.strip()[:140] for l in c.stdout.splitlines() if l.startswith("  kind=")][:1]
                verdicts.append("%s:%s(%.0fs)%s" % (prop, v, time.time() - t0, " " + kind[0] if kind else ""))
                if v != "CAUGHT" and prop == meta["property"]:
                    rc_all = 1
            print(line + " " + " ".join(verdicts), flush=True)
        finally:
            shutil.rmtree(base, ignore_errors=True)
    return rc_all


def main():
    ap = argparse.ArgumentParser()
    sub = ap.add_subparsers(dest="cmd", required=True)
    c = sub.add_parser("check")
    c.add_argument("id")
    c.add_argument("--tier", choices=["quick", "thorough", "smoke"], default=None)
    r = sub.add_parser("replay")
    r.add_argument("id")
    r.add_argument("file")
    sub.add_parser("setup")
    sub.add_parser("manifest")
    mu = sub.add_parser("mutants")
    mu.add_argument("--only", default="")
    mu.add_argument("--out", default="")
    mu.add_argument("--emit-patches", action="store_true")
    se = sub.add_parser("seeded")
    se.add_argument("ids", nargs="*")
    se.add_argument("--confirm", action="store_true")
    b = sub.add_parser("baseline")
    b.add_argument("--tags", default="")
    a = ap.parse_args()
    if a.cmd == "mutants":
        sys.exit(cmd_mutants([x for x in a.only.split(",") if x], a.out, a.emit_patches))
    if a.cmd == "seeded":
        sys.exit(cmd_seeded(a.ids, a.confirm))
    if a.cmd == "baseline":
        sys.exit(cmd_baseline(a.tags))
    if a.cmd == "manifest":
        sys.exit(cmd_manifest())
    if a.cmd == "check":
        sys.exit(cmd_check(a.id, a.tier))
    if a.cmd == "replay":
        sys.exit(cmd_check(a.id, "quick", replay=a.file))
    if a.cmd == "setup":
        sys.exit(cmd_setup())


if __name__ == "__main__":
    main()
