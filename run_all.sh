#!/bin/bash
# usage: run_all.sh quick|thorough [ids...]  - runs the checks one after another, prints one line each
tier=${1:-quick}; shift
ids=${@:-C01 C02 C03 C04 C05 C06 C07 C08 C09 C10 C11 C12 C13 C14 C15 C16 C17 C18 C19 C20}
cd "$(dirname "$0")"
for p in $ids; do
  s=$(date +%s)
  out=$(python3 run.py check $p --tier $tier 2>&1 | grep -v "^KNOWN-FINDING" | tail -4 | tr '\n' ' ' | cut -c1-400)
  echo "$p rc=$? $(( $(date +%s) - s ))s $out"
done
