package mcap

// C11 ("unknown-opcode records ... any length"): an unknown record is skipped by reading its whole
// content into memory, so a private record of 2 GiB or more - legal, and irrelevant to the reader -
// makes the lexer (and with it Reader.Messages without index) fail instead of skipping it. The
// record is streamed from a generator here; the lexer fails before reading any of it.

import (
	"bytes"
	"encoding/binary"
	"errors"
	"io"
	"testing"
)

type f4Zeros struct{}

func (f4Zeros) Read(p []byte) (int, error) {
	for i := range p {
		p[i] = 0
	}
	return len(p), nil
}

func f4Tokens(src io.Reader) ([]TokenType, error) {
	l, err := NewLexer(src)
	if err != nil {
		return nil, err
	}
	defer l.Close()
	var out []TokenType
	for {
		tok, _, err := l.Next(nil)
		if errors.Is(err, io.EOF) {
			return out, nil
		}
		if err != nil {
			return out, err
		}
		out = append(out, tok)
	}
}

func TestFindingHugeUnknownRecordNotSkipped(t *testing.T) {
	buf := &bytes.Buffer{}
	w, err := NewWriter(buf, &WriterOptions{})
	if err != nil {
		t.Fatal(err)
	}
	must := func(err error) {
		if err != nil {
			t.Fatal(err)
		}
	}
	must(w.WriteHeader(&Header{}))
	must(w.WriteSchema(&Schema{ID: 1, Name: "s"}))
	must(w.WriteChannel(&Channel{ID: 1, SchemaID: 1, Topic: "/a"}))
	must(w.WriteMessage(&Message{ChannelID: 1, Data: []byte("x")}))
	must(w.Close())
	file := buf.Bytes()
	want, err := f4Tokens(bytes.NewReader(file))
	if err != nil {
		t.Fatal(err)
	}
	headerEnd := 8 + 9 + int(binary.LittleEndian.Uint64(file[9:]))
	for _, n := range []uint64{1 << 20, 1 << 31} {
		unknown := make([]byte, 9)
		unknown[0] = 0x80 // private record
		binary.LittleEndian.PutUint64(unknown[1:], n)
		src := io.MultiReader(bytes.NewReader(file[:headerEnd]), bytes.NewReader(unknown),
			io.LimitReader(f4Zeros{}, int64(n)), bytes.NewReader(file[headerEnd:]))
		got, err := f4Tokens(src)
		if err != nil {
			t.Errorf("private record of %d bytes after the header: error after %d of %d tokens: %v", n, len(got), len(want), err)
			continue
		}
		if len(got) != len(want) {
			t.Errorf("private record of %d bytes: %d tokens, want %d", n, len(got), len(want))
		}
	}
}
