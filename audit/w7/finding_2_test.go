package mcap

// C12 (optional parts clause: "attachment/metadata indexes"): with the index in use, the metadata
// records Reader.Messages hands to WithMetadataCallback depend on whether the producer wrote the
// optional Metadata Index records. Both files below are written by the Go writer itself and stay
// indexed (chunk indexes + summary channels); they differ only in WriterOptions.SkipMetadataIndex.

import (
	"bytes"
	"errors"
	"fmt"
	"io"
	"testing"
)

func f2Write(t *testing.T, skipMetadataIndex bool) []byte {
	buf := &bytes.Buffer{}
	w, err := NewWriter(buf, &WriterOptions{Chunked: true, ChunkSize: 300, SkipMetadataIndex: skipMetadataIndex})
	if err != nil {
		t.Fatal(err)
	}
	must := func(err error) {
		if err != nil {
			t.Fatal(err)
		}
	}
	must(w.WriteHeader(&Header{}))
	must(w.WriteMetadata(&Metadata{Name: "first", Metadata: map[string]string{"k": "v"}}))
	must(w.WriteSchema(&Schema{ID: 1, Name: "s", Encoding: "e", Data: []byte("d")}))
	must(w.WriteChannel(&Channel{ID: 1, SchemaID: 1, Topic: "/a", MessageEncoding: "m"}))
	for i := 0; i < 10; i++ {
		must(w.WriteMessage(&Message{ChannelID: 1, Sequence: uint32(i), LogTime: uint64(i), Data: make([]byte, 100)}))
	}
	must(w.WriteMetadata(&Metadata{Name: "second", Metadata: map[string]string{}}))
	must(w.Close())
	return buf.Bytes()
}

func f2Read(t *testing.T, file []byte, opts ...ReadOpt) (messages int, metadata []string) {
	r, err := NewReader(bytes.NewReader(file))
	if err != nil {
		t.Fatal(err)
	}
	defer r.Close()
	opts = append(opts, WithMetadataCallback(func(m *Metadata) error {
		metadata = append(metadata, fmt.Sprintf("%s%v", m.Name, m.Metadata))
		return nil
	}))
	it, err := r.Messages(opts...)
	if err != nil {
		t.Fatal(err)
	}
	for {
		_, _, _, err := it.NextInto(nil)
		if errors.Is(err, io.EOF) {
			return messages, metadata
		}
		if err != nil {
			t.Fatal(err)
		}
		messages++
	}
}

func TestFindingMetadataCallbackNeedsMetadataIndex(t *testing.T) {
	with, without := f2Write(t, false), f2Write(t, true)
	for _, c := range []struct {
		name string
		opts []ReadOpt
	}{
		{"UsingIndex(false)", []ReadOpt{UsingIndex(false)}},
		{"default (index)", nil},
		{"LogTimeOrder", []ReadOpt{InOrder(LogTimeOrder)}},
	} {
		n1, m1 := f2Read(t, with, c.opts...)
		n2, m2 := f2Read(t, without, c.opts...)
		if n1 != 10 || n2 != 10 {
			t.Fatalf("%s: %d / %d messages", c.name, n1, n2)
		}
		if fmt.Sprint(m1) != fmt.Sprint(m2) {
			t.Errorf("%s: metadata delivered with metadata index records %v, without them %v", c.name, m1, m2)
		}
	}
}
