package mcap

// C12 (compression clause): an lz4 chunk whose `records` field is a legal LZ4 frame *sequence*
// (data frame followed by a skippable frame, by an empty frame, or by a second data frame) is
// misread by the lexers (and, for a second data frame, by every reader), although the same
// sequences are read correctly when the codec is zstd, and the reference lz4 decoder accepts
// all of them. Only the public API is used: the files are written by the Go writer with a
// caller-supplied compressor that emits standard LZ4 frames.

import (
	"bytes"
	"errors"
	"fmt"
	"io"
	"testing"

	"github.com/klauspost/compress/zstd"
	"github.com/pierrec/lz4/v4"
)

// f1Skippable is an LZ4/zstd skippable frame (magic 0x184D2A50, 3 bytes of user data).
var f1Skippable = []byte{0x50, 0x2A, 0x4D, 0x18, 3, 0, 0, 0, 'a', 'b', 'c'}

type f1Frames struct {
	newFrame func(dst io.Writer) io.WriteCloser
	mode     string // "plain", "skippable-last", "empty-last", "frame-per-write"
	dst      io.Writer
	cur      io.WriteCloser
}

func (c *f1Frames) Reset(dst io.Writer) { c.dst = dst; c.cur = nil }
func (c *f1Frames) Write(p []byte) (int, error) {
	if c.cur == nil {
		c.cur = c.newFrame(c.dst)
	}
	n, err := c.cur.Write(p)
	if err == nil && c.mode == "frame-per-write" {
		err = c.cur.Close()
		c.cur = nil
	}
	return n, err
}
func (c *f1Frames) Close() error {
	if c.cur != nil {
		if err := c.cur.Close(); err != nil {
			return err
		}
		c.cur = nil
	}
	switch c.mode {
	case "skippable-last":
		_, err := c.dst.Write(f1Skippable)
		return err
	case "empty-last":
		return c.newFrame(c.dst).Close()
	}
	return nil
}

func f1Write(t *testing.T, format CompressionFormat, mode string) []byte {
	newFrame := func(dst io.Writer) io.WriteCloser { return lz4.NewWriter(dst) }
	if format == CompressionZSTD {
		newFrame = func(dst io.Writer) io.WriteCloser {
			w, err := zstd.NewWriter(dst)
			if err != nil {
				t.Fatal(err)
			}
			return w
		}
	}
	buf := &bytes.Buffer{}
	w, err := NewWriter(buf, &WriterOptions{
		Chunked:    true,
		ChunkSize:  600,
		Compressor: NewCustomCompressor(format, &f1Frames{newFrame: newFrame, mode: mode}),
	})
	if err != nil {
		t.Fatal(err)
	}
	must := func(err error) {
		if err != nil {
			t.Fatal(err)
		}
	}
	must(w.WriteHeader(&Header{}))
	must(w.WriteSchema(&Schema{ID: 1, Name: "s", Encoding: "e", Data: []byte("d")}))
	must(w.WriteChannel(&Channel{ID: 1, SchemaID: 1, Topic: "/a", MessageEncoding: "m"}))
	for i := 0; i < 20; i++ {
		must(w.WriteMessage(&Message{ChannelID: 1, Sequence: uint32(i), LogTime: uint64(100 + i), PublishTime: uint64(i),
			Data: bytes.Repeat([]byte{byte(i)}, 100)}))
	}
	must(w.Close())
	return buf.Bytes()
}

func f1Messages(file []byte, opts ...ReadOpt) ([]string, error) {
	r, err := NewReader(bytes.NewReader(file))
	if err != nil {
		return nil, err
	}
	defer r.Close()
	it, err := r.Messages(opts...)
	if err != nil {
		return nil, err
	}
	var out []string
	for {
		s, c, m, err := it.NextInto(nil)
		if errors.Is(err, io.EOF) {
			return out, nil
		}
		if err != nil {
			return out, err
		}
		out = append(out, fmt.Sprintf("%s %s %d %d %d %x", s.Name, c.Topic, m.Sequence, m.LogTime, m.PublishTime, m.Data))
	}
}

func f1Lex(file []byte, validate bool) ([]string, error) {
	l, err := NewLexer(bytes.NewReader(file), &LexerOptions{ValidateChunkCRCs: validate})
	if err != nil {
		return nil, err
	}
	defer l.Close()
	var out []string
	for {
		tok, data, err := l.Next(nil)
		if errors.Is(err, io.EOF) {
			return out, nil
		}
		if err != nil {
			return out, err
		}
		switch tok {
		case TokenSchema, TokenChannel, TokenMessage: // the logical content; index records differ in offsets
			out = append(out, fmt.Sprintf("%s %x", tok, data))
		}
	}
}

func TestFindingLZ4FrameSequences(t *testing.T) {
	reads := []struct {
		name string
		f    func([]byte) ([]string, error)
	}{
		{"lexer", func(b []byte) ([]string, error) { return f1Lex(b, false) }},
		{"lexer with ValidateChunkCRCs", func(b []byte) ([]string, error) { return f1Lex(b, true) }},
		{"Messages(UsingIndex(false))", func(b []byte) ([]string, error) { return f1Messages(b, UsingIndex(false)) }},
		{"Messages() file order", func(b []byte) ([]string, error) { return f1Messages(b) }},
		{"Messages() log time order", func(b []byte) ([]string, error) { return f1Messages(b, InOrder(LogTimeOrder)) }},
	}
	for _, format := range []CompressionFormat{CompressionZSTD, CompressionLZ4} {
		plain := f1Write(t, format, "plain")
		for _, mode := range []string{"skippable-last", "empty-last", "frame-per-write"} {
			file := f1Write(t, format, mode)
			for _, rd := range reads {
				want, err := rd.f(plain)
				if err != nil || len(want) < 20 {
					t.Fatalf("%s plain, %s: %d items, %v", format, rd.name, len(want), err)
				}
				got, err := rd.f(file)
				switch {
				case err != nil:
					t.Errorf("%s chunks laid out as %s, %s: error after %d of %d items: %v", format, mode, rd.name, len(got), len(want), err)
				case fmt.Sprint(got) != fmt.Sprint(want):
					t.Errorf("%s chunks laid out as %s, %s: ends without error after %d items, the single-frame layout gives %d", format, mode, rd.name, len(got), len(want))
				}
			}
		}
	}
}
