package mcap

// C12 (chunk split clause: "every partition of the message sequence into chunks, including none
// and empty chunks"): as soon as the summary has one chunk index (and channels), Reader.Messages()
// returns only the messages that sit inside chunks; messages the producer wrote directly into the
// data section vanish without an error, although Statistics.message_count tells how many there are.
// The spec allows such files ("all Message records SHOULD be written into Chunk records" when chunk
// indexes exist) but warns that index readers may miss them - see FINDINGS.md for both readings.
// The files are hand-built from website/docs/spec/index.md.

import (
	"bytes"
	"encoding/binary"
	"errors"
	"fmt"
	"hash/crc32"
	"io"
	"testing"
)

func f3Rec(op byte, parts ...[]byte) []byte {
	body := bytes.Join(parts, nil)
	out := make([]byte, 9, 9+len(body))
	out[0] = op
	binary.LittleEndian.PutUint64(out[1:], uint64(len(body)))
	return append(out, body...)
}
func f3U16(x uint16) []byte { return binary.LittleEndian.AppendUint16(nil, x) }
func f3U32(x uint32) []byte { return binary.LittleEndian.AppendUint32(nil, x) }
func f3U64(x uint64) []byte { return binary.LittleEndian.AppendUint64(nil, x) }
func f3Str(s string) []byte { return append(f3U32(uint32(len(s))), s...) }

type f3Msg struct {
	seq     uint32
	logTime uint64
}

func f3Message(m f3Msg) []byte {
	return f3Rec(0x05, f3U16(1), f3U32(m.seq), f3U64(m.logTime), f3U64(m.logTime), []byte(fmt.Sprintf("payload-%d", m.seq)))
}

// f3File lays the messages out group by group: a group with inChunk=true becomes one uncompressed
// chunk (with chunk index), a group with inChunk=false is written directly into the data section.
func f3File(groups []struct {
	inChunk bool
	msgs    []f3Msg
}) []byte {
	schema := f3Rec(0x03, f3U16(1), f3Str("s"), f3Str("e"), f3U32(1), []byte("d"))
	channel := f3Rec(0x04, f3U16(1), f3U16(1), f3Str("/a"), f3Str("m"), f3U32(0))
	f := append([]byte{}, Magic...)
	f = append(f, f3Rec(0x01, f3Str(""), f3Str("other producer"))...)
	f = append(f, schema...)
	f = append(f, channel...)
	var chunkIndexes []byte
	var count, chunks uint64
	var first, last uint64
	for _, g := range groups {
		var records []byte
		var start, end uint64
		for i, m := range g.msgs {
			records = append(records, f3Message(m)...)
			if i == 0 || m.logTime < start {
				start = m.logTime
			}
			if i == 0 || m.logTime > end {
				end = m.logTime
			}
			if count == 0 || m.logTime < first {
				first = m.logTime
			}
			if count == 0 || m.logTime > last {
				last = m.logTime
			}
			count++
		}
		if !g.inChunk {
			f = append(f, records...)
			continue
		}
		chunks++
		chunk := f3Rec(0x06, f3U64(start), f3U64(end), f3U64(uint64(len(records))), f3U32(crc32.ChecksumIEEE(records)),
			f3Str(""), f3U64(uint64(len(records))), records)
		// no message index records: an empty message_index_offsets map "indicates no message indexing is available"
		chunkIndexes = append(chunkIndexes, f3Rec(0x08, f3U64(start), f3U64(end), f3U64(uint64(len(f))), f3U64(uint64(len(chunk))),
			f3U32(0), f3U64(0), f3Str(""), f3U64(uint64(len(records))), f3U64(uint64(len(records))))...)
		f = append(f, chunk...)
	}
	f = append(f, f3Rec(0x0F, f3U32(0))...)
	summaryStart := uint64(len(f))
	f = append(f, schema...)
	f = append(f, channel...)
	f = append(f, chunkIndexes...)
	f = append(f, f3Rec(0x0B, f3U64(count), f3U16(1), f3U32(1), f3U32(0), f3U32(0), f3U32(uint32(chunks)), f3U64(first), f3U64(last),
		f3U32(10), f3U16(1), f3U64(count))...)
	f = append(f, f3Rec(0x02, f3U64(summaryStart), f3U64(0), f3U32(0))...)
	return append(f, Magic...)
}

func f3Read(file []byte, opts ...ReadOpt) ([]string, error) {
	r, err := NewReader(bytes.NewReader(file))
	if err != nil {
		return nil, err
	}
	defer r.Close()
	it, err := r.Messages(opts...)
	if err != nil {
		return nil, err
	}
	var out []string
	for {
		_, c, m, err := it.NextInto(nil)
		if errors.Is(err, io.EOF) {
			return out, nil
		}
		if err != nil {
			return out, err
		}
		out = append(out, fmt.Sprintf("%s %d %d %s", c.Topic, m.Sequence, m.LogTime, m.Data))
	}
}

func TestFindingUnchunkedMessagesDroppedByIndexedRead(t *testing.T) {
	var msgs []f3Msg
	for i := 0; i < 12; i++ {
		msgs = append(msgs, f3Msg{uint32(i), uint64(100 + i)})
	}
	type group = struct {
		inChunk bool
		msgs    []f3Msg
	}
	layouts := map[string][]group{
		"one chunk":                          {{true, msgs}},
		"no chunk":                           {{false, msgs}},
		"chunk, unchunked, chunk":            {{true, msgs[:4]}, {false, msgs[4:8]}, {true, msgs[8:]}},
		"all unchunked, plus an empty chunk": {{false, msgs}, {true, nil}},
	}
	want, err := f3Read(f3File(layouts["one chunk"]), UsingIndex(false))
	if err != nil || len(want) != 12 {
		t.Fatal(len(want), err)
	}
	for name, groups := range layouts {
		file := f3File(groups)
		for _, c := range []struct {
			name string
			opts []ReadOpt
		}{{"Messages(UsingIndex(false))", []ReadOpt{UsingIndex(false)}}, {"Messages()", nil}} {
			got, err := f3Read(file, c.opts...)
			if err != nil {
				t.Errorf("layout %q, %s: %v", name, c.name, err)
			} else if fmt.Sprint(got) != fmt.Sprint(want) {
				t.Errorf("layout %q, %s: %d of %d messages returned, no error", name, c.name, len(got), len(want))
			}
		}
	}
}
