package mcap

// C05, footer clause: "... and the footer designates exactly the bytes and values of the record
// it describes". Spec, Footer.summary_offset_start: "Byte offset from the start of the first
// record in the summary offset section. If there are no Summary Offset records this value
// should be 0."
//
// When the summary section turns out empty (so no Summary Offset record is emitted) and
// SkipSummaryOffsets is false, the writer stores the footer's own offset in
// summary_offset_start: the field designates a record that is not a Summary Offset record.

import (
	"bytes"
	"encoding/binary"
	"testing"
)

// f1Walk walks the top-level records of F (independent of go/mcap's parser) and returns the
// offset of the footer, the number of summary offset records and the footer's two offsets.
func f1Walk(t *testing.T, f []byte) (footerOff uint64, nSummaryOffsets int, summaryStart, summaryOffsetStart uint64) {
	t.Helper()
	magic := []byte{0x89, 'M', 'C', 'A', 'P', 0x30, '\r', '\n'}
	if !bytes.HasPrefix(f, magic) || !bytes.HasSuffix(f, magic) {
		t.Fatal("magic missing")
	}
	pos := uint64(8)
	end := uint64(len(f) - 8)
	for pos < end {
		op := f[pos]
		n := binary.LittleEndian.Uint64(f[pos+1:])
		if pos+9+n > end {
			t.Fatalf("record at %d overruns the file", pos)
		}
		switch op {
		case 0x0e:
			nSummaryOffsets++
		case 0x02:
			footerOff = pos
			summaryStart = binary.LittleEndian.Uint64(f[pos+9:])
			summaryOffsetStart = binary.LittleEndian.Uint64(f[pos+17:])
			if pos+9+n != end {
				t.Fatalf("footer at %d is not the last record", pos)
			}
		}
		pos += 9 + n
	}
	return
}

func TestFinding1SummaryOffsetStartWithoutSummaryOffsets(t *testing.T) {
	cases := map[string]*WriterOptions{
		"unchunked, statistics skipped, nothing but a header": {SkipStatistics: true},
		"chunked with messages, every summary group skipped": {
			Chunked: true, IncludeCRC: true, SkipStatistics: true, SkipRepeatedSchemas: true,
			SkipRepeatedChannelInfos: true, SkipChunkIndex: true, SkipAttachmentIndex: true,
			SkipMetadataIndex: true,
		},
	}
	for name, opts := range cases {
		buf := &bytes.Buffer{}
		w, err := NewWriter(buf, opts)
		if err != nil {
			t.Fatal(err)
		}
		if err := w.WriteHeader(&Header{}); err != nil {
			t.Fatal(err)
		}
		if opts.Chunked {
			if err := w.WriteSchema(&Schema{ID: 1, Name: "s", Encoding: "e"}); err != nil {
				t.Fatal(err)
			}
			if err := w.WriteChannel(&Channel{ID: 1, SchemaID: 1, Topic: "t"}); err != nil {
				t.Fatal(err)
			}
			if err := w.WriteMessage(&Message{ChannelID: 1, LogTime: 7}); err != nil {
				t.Fatal(err)
			}
			if err := w.WriteMetadata(&Metadata{Name: "m"}); err != nil {
				t.Fatal(err)
			}
		}
		if err := w.Close(); err != nil {
			t.Fatal(err)
		}
		footerOff, nSO, summaryStart, soStart := f1Walk(t, buf.Bytes())
		if nSO != 0 {
			t.Fatalf("%s: test premise broken, %d summary offset records", name, nSO)
		}
		if summaryStart != 0 {
			t.Errorf("%s: summary_start = %d for an empty summary section", name, summaryStart)
		}
		if soStart != 0 {
			t.Errorf("%s: the file holds no Summary Offset record, yet footer.summary_offset_start = %d "+
				"(the footer's own offset is %d); the spec value for this case is 0", name, soStart, footerOff)
		}
	}
}
