package mcap

// C05 "Every file the Go writer closes follows the MCAP grammar (magic, header, data section
// ending in DataEnd, summary ..., footer, magic)"; C06 for the CRC fields of what follows.
//
// Close is not idempotent: a second call (the usual `defer w.Close()` next to an explicit,
// error-checked `w.Close()`) returns nil and appends a second DataEnd, summary section, footer
// and magic after the closing magic. The result no longer ends "footer, magic" at the position
// the first footer describes and cannot be walked as a record sequence.

import (
	"bytes"
	"encoding/binary"
	"testing"
)

func TestFinding3SecondCloseAppendsToAClosedFile(t *testing.T) {
	for _, chunked := range []bool{false, true} {
		buf := &bytes.Buffer{}
		w, err := NewWriter(buf, &WriterOptions{Chunked: chunked, IncludeCRC: true})
		if err != nil {
			t.Fatal(err)
		}
		defer w.Close() // the idiom
		if err := w.WriteHeader(&Header{}); err != nil {
			t.Fatal(err)
		}
		if err := w.WriteSchema(&Schema{ID: 1, Name: "s"}); err != nil {
			t.Fatal(err)
		}
		if err := w.WriteChannel(&Channel{ID: 1, SchemaID: 1, Topic: "t"}); err != nil {
			t.Fatal(err)
		}
		if err := w.WriteMessage(&Message{ChannelID: 1, LogTime: 5}); err != nil {
			t.Fatal(err)
		}
		if err := w.Close(); err != nil {
			t.Fatal(err)
		}
		closedLen := buf.Len()
		err = w.Close()
		if buf.Len() != closedLen {
			t.Errorf("chunked=%v: second Close returned %v and grew the closed file from %d to %d bytes", chunked, err, closedLen, buf.Len())
		}
		// grammar walk: magic, records..., footer, magic, EOF
		f := buf.Bytes()
		magic := []byte{0x89, 'M', 'C', 'A', 'P', 0x30, '\r', '\n'}
		pos := 8
		for {
			if pos+9 > len(f) {
				t.Errorf("chunked=%v: ran off the file at %d without meeting a footer", chunked, pos)
				break
			}
			op := f[pos]
			n := int(binary.LittleEndian.Uint64(f[pos+1:]))
			pos += 9 + n
			if op == 0x02 {
				if !bytes.Equal(f[pos:], magic) {
					t.Errorf("chunked=%v: footer is followed by %d bytes, not by the closing magic and end of file", chunked, len(f)-pos)
				}
				break
			}
		}
	}
}
