package mcap

// C05, grammar / spec-validity: "Channel records in the summary are duplicates of Channel records
// throughout the Data section", "A Schema and Channel record MUST exist in the summary section
// for all messages in chunks that are indexed by Chunk Index records."
//
// WriteSchema/WriteChannel serialise the struct immediately but keep the caller's *pointer* in
// w.schemas / w.channels and serialise it a second time at Close. A caller that reuses one
// Schema/Channel value for successive calls (or a scratch buffer for Schema.Data) gets a summary
// that repeats the last value and lacks all the others.

import (
	"bytes"
	"encoding/binary"
	"testing"
)

type f2rec struct {
	op      byte
	content []byte
}

func f2Records(t *testing.T, b []byte) []f2rec {
	t.Helper()
	var out []f2rec
	for pos := 0; pos < len(b); {
		n := int(binary.LittleEndian.Uint64(b[pos+1:]))
		if pos+9+n > len(b) {
			t.Fatalf("record at %d overruns", pos)
		}
		out = append(out, f2rec{b[pos], b[pos+9 : pos+9+n]})
		pos += 9 + n
	}
	return out
}

func TestFinding2SummaryRepeatsReusedSchemaAndChannelStructs(t *testing.T) {
	buf := &bytes.Buffer{}
	// uncompressed chunks so that the test can look inside without a codec
	w, err := NewWriter(buf, &WriterOptions{Chunked: true, IncludeCRC: true})
	if err != nil {
		t.Fatal(err)
	}
	if err := w.WriteHeader(&Header{}); err != nil {
		t.Fatal(err)
	}
	schema := &Schema{Encoding: "enc"}
	channel := &Channel{MessageEncoding: "enc"}
	scratch := make([]byte, 4)
	for id := uint16(1); id <= 3; id++ {
		schema.ID = id
		schema.Name = "schema" + string(rune('0'+id))
		copy(scratch, "def"+string(rune('0'+id)))
		schema.Data = scratch
		if err := w.WriteSchema(schema); err != nil {
			t.Fatal(err)
		}
		channel.ID = id
		channel.SchemaID = id
		channel.Topic = "/topic" + string(rune('0'+id))
		if err := w.WriteChannel(channel); err != nil {
			t.Fatal(err)
		}
		if err := w.WriteMessage(&Message{ChannelID: id, LogTime: uint64(id)}); err != nil {
			t.Fatal(err)
		}
	}
	if err := w.Close(); err != nil {
		t.Fatal(err)
	}
	f := buf.Bytes()
	top := f2Records(t, f[8:len(f)-8])
	dataSchemas := map[uint16][]byte{}
	dataChannels := map[uint16][]byte{}
	msgChannels := map[uint16]bool{}
	inSummary := false
	sumSchemas := map[uint16]int{}
	sumChannels := map[uint16]int{}
	chunkIndexes := 0
	for _, r := range top {
		switch {
		case r.op == 0x0f:
			inSummary = true
		case r.op == 0x06 && !inSummary:
			// start(8) end(8) usize(8) crc(4) compression(4+0) records(8+N)
			c := r.content
			if binary.LittleEndian.Uint32(c[28:]) != 0 {
				t.Fatal("expected uncompressed chunk")
			}
			n := binary.LittleEndian.Uint64(c[32:])
			for _, ir := range f2Records(t, c[40:40+n]) {
				id := binary.LittleEndian.Uint16(ir.content)
				switch ir.op {
				case 0x03:
					dataSchemas[id] = ir.content
				case 0x04:
					dataChannels[id] = ir.content
				case 0x05:
					msgChannels[id] = true
				}
			}
		case r.op == 0x08:
			chunkIndexes++
		case r.op == 0x03 && inSummary:
			id := binary.LittleEndian.Uint16(r.content)
			sumSchemas[id]++
			if !bytes.Equal(dataSchemas[id], r.content) {
				t.Errorf("summary schema %d is not a duplicate of the data-section schema record %d", id, id)
			}
		case r.op == 0x04 && inSummary:
			id := binary.LittleEndian.Uint16(r.content)
			sumChannels[id]++
			if !bytes.Equal(dataChannels[id], r.content) {
				t.Errorf("summary channel %d is not a duplicate of the data-section channel record %d", id, id)
			}
		}
	}
	if chunkIndexes == 0 || len(msgChannels) != 3 {
		t.Fatalf("test premise broken: %d chunk indexes, messages on %d channels", chunkIndexes, len(msgChannels))
	}
	for id := range msgChannels {
		if sumChannels[id] == 0 {
			t.Errorf("messages on channel %d lie in a chunk indexed by a Chunk Index record, but the summary has no Channel record %d (summary channels: %v)", id, id, sumChannels)
		}
		if sumSchemas[id] == 0 {
			t.Errorf("schema %d of channel %d is missing from the summary (summary schemas: %v)", id, id, sumSchemas)
		}
	}
}
