package mcap

import (
	"bytes"
	"encoding/binary"
	"runtime"
	"testing"
)

// Property C10: "... never requests memory beyond its documented ceilings - 2 GiB for any single
// buffer, and the caller-configured record and chunk size limits where those are set - merely
// because a length, size or offset field in the input says so."
//
// The lexer is given MaxRecordSize = MaxDecompressedChunkSize = 1 MiB. The 250-byte input holds
// one zstd chunk of 34 uncompressed bytes whose frame header carries a Window_Descriptor of
// 512 MiB. The streaming zstd decoder the lexer uses allocates its history buffer from that field
// (window + 1 MiB = 513 MiB) before decoding the first block. Neither limit is consulted for it.
func TestFindingLexerChunkLimitDoesNotBoundZstdWindow(t *testing.T) {
	msg := f2rec(OpMessage, f2cat(f2u16(1), f2u32(0), f2u64(1), f2u64(1), []byte("abc")))
	blockHdr := uint32(1) | 0<<1 | uint32(len(msg))<<3 // last block, raw
	frame := f2cat(
		[]byte{0x28, 0xB5, 0x2F, 0xFD},
		[]byte{0x00},    // no Frame_Content_Size, not single-segment
		[]byte{19 << 3}, // Window_Descriptor: 2^(10+19) = 512 MiB
		[]byte{byte(blockHdr), byte(blockHdr >> 8), byte(blockHdr >> 16)},
		msg,
	)
	input := f2file("zstd", uint64(len(msg)), frame)
	const limit = 1 << 20
	for _, validate := range []bool{true, false} {
		var before, after runtime.MemStats
		runtime.GC()
		runtime.ReadMemStats(&before)
		lexer, err := NewLexer(bytes.NewReader(input), &LexerOptions{
			ValidateChunkCRCs:        validate,
			MaxDecompressedChunkSize: limit,
			MaxRecordSize:            limit,
		})
		if err != nil {
			t.Fatal(err)
		}
		tokens := 0
		for {
			_, _, err := lexer.Next(nil)
			if err != nil {
				break
			}
			tokens++
		}
		lexer.Close()
		runtime.ReadMemStats(&after)
		allocated := after.TotalAlloc - before.TotalAlloc
		t.Logf("ValidateChunkCRCs=%v: %d tokens, %d bytes allocated for a %d-byte input", validate, tokens, allocated, len(input))
		if allocated > 64*limit {
			t.Errorf("ValidateChunkCRCs=%v: with record and chunk limits of %d bytes the lexer allocated %d bytes because the zstd window descriptor says 512 MiB",
				validate, limit, allocated)
		}
	}
}

func f2u16(x uint16) []byte { b := make([]byte, 2); binary.LittleEndian.PutUint16(b, x); return b }
func f2u32(x uint32) []byte { b := make([]byte, 4); binary.LittleEndian.PutUint32(b, x); return b }
func f2u64(x uint64) []byte { b := make([]byte, 8); binary.LittleEndian.PutUint64(b, x); return b }
func f2str(s string) []byte { return append(f2u32(uint32(len(s))), s...) }
func f2cat(parts ...[]byte) []byte {
	var out []byte
	for _, p := range parts {
		out = append(out, p...)
	}
	return out
}
func f2rec(op OpCode, body []byte) []byte {
	return f2cat([]byte{byte(op)}, f2u64(uint64(len(body))), body)
}

// f2file builds: magic, header, one chunk (given compression, declared size and data), data end,
// summary (channel 1 on topic "t", chunk index), footer, magic.
func f2file(compression string, declaredUncompressed uint64, chunkData []byte) []byte {
	out := f2cat(Magic, f2rec(OpHeader, f2cat(f2str(""), f2str(""))))
	chunkStart := uint64(len(out))
	chunk := f2rec(OpChunk, f2cat(
		f2u64(0), f2u64(10), // message start and end time
		f2u64(declaredUncompressed),
		f2u32(0), // crc: not checked
		f2str(compression),
		f2u64(uint64(len(chunkData))),
		chunkData,
	))
	out = append(out, chunk...)
	out = append(out, f2rec(OpDataEnd, f2u32(0))...)
	summaryStart := uint64(len(out))
	out = append(out, f2rec(OpChannel, f2cat(f2u16(1), f2u16(0), f2str("t"), f2str(""), f2u32(0)))...)
	out = append(out, f2rec(OpChunkIndex, f2cat(
		f2u64(0), f2u64(10),
		f2u64(chunkStart), f2u64(uint64(len(chunk))),
		f2u32(0), // no message index offsets
		f2u64(0), // message index length
		f2str(compression),
		f2u64(uint64(len(chunkData))),
		f2u64(declaredUncompressed),
	))...)
	out = append(out, f2rec(OpFooter, f2cat(f2u64(summaryStart), f2u64(0), f2u32(0)))...)
	return append(out, Magic...)
}
