package mcap

import (
	"bytes"
	"encoding/binary"
	"io"
	"os"
	"runtime"
	"testing"
)

// Property C10: "the library ... never requests memory beyond its documented ceilings - 2 GiB for
// any single buffer ... merely because a length, size or offset field in the input says so."
//
// A 200-byte indexed file whose only chunk is "zstd" compressed and whose zstd frame header
// declares a Frame_Content_Size of 3 GiB (the field may say up to 64 GiB) makes the indexed
// reader allocate that many bytes in one buffer before a single byte has been decoded.

func f1u16(x uint16) []byte { b := make([]byte, 2); binary.LittleEndian.PutUint16(b, x); return b }
func f1u32(x uint32) []byte { b := make([]byte, 4); binary.LittleEndian.PutUint32(b, x); return b }
func f1u64(x uint64) []byte { b := make([]byte, 8); binary.LittleEndian.PutUint64(b, x); return b }
func f1str(s string) []byte { return append(f1u32(uint32(len(s))), s...) }
func f1cat(parts ...[]byte) []byte {
	var out []byte
	for _, p := range parts {
		out = append(out, p...)
	}
	return out
}
func f1rec(op OpCode, body []byte) []byte {
	return f1cat([]byte{byte(op)}, f1u64(uint64(len(body))), body)
}

// f1file builds: magic, header, one chunk (given compression, declared size and data), data end,
// summary (channel 1 on topic "t", chunk index), footer, magic.
func f1file(compression string, declaredUncompressed uint64, chunkData []byte) []byte {
	out := f1cat(Magic, f1rec(OpHeader, f1cat(f1str(""), f1str(""))))
	chunkStart := uint64(len(out))
	chunk := f1rec(OpChunk, f1cat(
		f1u64(0), f1u64(10), // message start and end time
		f1u64(declaredUncompressed),
		f1u32(0), // crc: not checked
		f1str(compression),
		f1u64(uint64(len(chunkData))),
		chunkData,
	))
	out = append(out, chunk...)
	out = append(out, f1rec(OpDataEnd, f1u32(0))...)
	summaryStart := uint64(len(out))
	out = append(out, f1rec(OpChannel, f1cat(f1u16(1), f1u16(0), f1str("t"), f1str(""), f1u32(0)))...)
	out = append(out, f1rec(OpChunkIndex, f1cat(
		f1u64(0), f1u64(10),
		f1u64(chunkStart), f1u64(uint64(len(chunk))),
		f1u32(0), // no message index offsets
		f1u64(0), // message index length
		f1str(compression),
		f1u64(uint64(len(chunkData))),
		f1u64(declaredUncompressed),
	))...)
	out = append(out, f1rec(OpFooter, f1cat(f1u64(summaryStart), f1u64(0), f1u32(0)))...)
	return append(out, Magic...)
}

func TestFindingZstdFrameContentSizeDrivesAllocation(t *testing.T) {
	const claimed = uint64(3) << 30 // 3 GiB; the same happens for any value up to 64 GiB
	frame := f1cat(
		[]byte{0x28, 0xB5, 0x2F, 0xFD}, // zstd magic
		[]byte{0xC0},                   // frame header descriptor: 8-byte Frame_Content_Size, not single-segment
		[]byte{0x00},                   // window descriptor: 1 KiB
		f1u64(claimed),                 // Frame_Content_Size
		[]byte{0x01, 0x00, 0x00},       // last block, raw, 0 bytes
	)
	input := f1file("zstd", 0, frame)
	if len(input) > 300 {
		t.Fatalf("input unexpectedly large: %d", len(input))
	}

	var before, after runtime.MemStats
	runtime.GC()
	runtime.ReadMemStats(&before)

	reader, err := NewReader(bytes.NewReader(input))
	if err != nil {
		t.Fatalf("open: %v", err)
	}
	defer reader.Close()
	it, err := reader.Messages(UsingIndex(true))
	if err != nil {
		t.Fatalf("messages: %v", err)
	}
	_, _, _, err = it.NextInto(nil)

	runtime.ReadMemStats(&after)
	allocated := after.TotalAlloc - before.TotalAlloc
	t.Logf("input of %d bytes; result: %v; bytes allocated while reading: %d", len(input), err, allocated)
	if err == nil || err == io.EOF {
		t.Errorf("a chunk whose zstd frame is inconsistent must yield an error, got %v", err)
	}
	if allocated >= 2<<30 {
		t.Errorf("reading a %d-byte file allocated %d bytes (> 2 GiB ceiling) because the zstd frame header claims %d",
			len(input), allocated, claimed)
	}
}

// Same cause, second shape: the frame carries no Frame_Content_Size at all, the chunk record
// declares 100 uncompressed bytes, and the frame is a run of RLE blocks (4 bytes each, 128 KiB
// of output each). DecodeAll keeps growing the chunk buffer far past the declared size (up to
// the decoder's default 64 GiB); the comparison with the declared size happens afterwards.
// With FINDING1_FULL=1 the test uses 17000 blocks (a 68 KB file that yields a 2.07 GiB buffer;
// this takes minutes); by default it uses 1024 blocks (128 MiB out of a 4 KB file).
func TestFindingZstdChunkDecodedPastDeclaredSize(t *testing.T) {
	blocks := 1024
	limit := uint64(16 << 20) // generous: the chunk declares 100 bytes
	if os.Getenv("FINDING1_FULL") != "" {
		blocks = 17000
		limit = 2 << 30
	}
	frame := f1cat([]byte{0x28, 0xB5, 0x2F, 0xFD}, []byte{0x00}, []byte{7 << 3}) // no FCS, window 128 KiB
	for i := 0; i < blocks; i++ {
		last := uint32(0)
		if i == blocks-1 {
			last = 1
		}
		h := last | 1<<1 | uint32(128<<10)<<3 // RLE block, regenerated size 128 KiB
		frame = append(frame, byte(h), byte(h>>8), byte(h>>16), 0)
	}
	input := f1file("zstd", 100, frame)

	var before, after runtime.MemStats
	runtime.GC()
	runtime.ReadMemStats(&before)
	reader, err := NewReader(bytes.NewReader(input))
	if err != nil {
		t.Fatalf("open: %v", err)
	}
	defer reader.Close()
	it, err := reader.Messages(UsingIndex(true))
	if err != nil {
		t.Fatalf("messages: %v", err)
	}
	_, _, _, err = it.NextInto(nil)
	runtime.ReadMemStats(&after)
	allocated := after.TotalAlloc - before.TotalAlloc
	t.Logf("input of %d bytes declaring a 100-byte chunk; result: %v; bytes allocated: %d", len(input), err, allocated)
	if err == nil || err == io.EOF {
		t.Errorf("expected an error, got %v", err)
	}
	if allocated >= limit {
		t.Errorf("a chunk declaring 100 uncompressed bytes made the reader allocate %d bytes (%d KiB of output per 4 input bytes, no ceiling below 64 GiB)",
			allocated, 128)
	}
}
