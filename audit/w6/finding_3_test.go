package mcap

import (
	"bytes"
	"encoding/binary"
	"runtime"
	"testing"
)

// Property C10 (title: "No input can crash or exhaust the process"; statement: "... never
// terminates the process ... never requests memory beyond its documented ceilings ...").
//
// The summary of this 1.2 MB file lists the same 1 MiB chunk 2100 times (75 bytes per chunk
// index record), each time with message start time 0. The chunk's only message has log time 5.
// In LogTimeOrder the indexed reader loads every chunk whose start time is below the time of the
// next pending message before it yields anything, and each load takes a fresh chunk slot because
// the earlier ones still hold an unread message: 2100 live 1 MiB buffers (2.2 GiB) before the
// first message comes out. Every single buffer is small; their number is whatever the count of
// chunk index records in the input says, so any address-space cap is exceeded by a file about
// 1/13000 of its size.
func TestFindingDuplicateChunkIndexesMultiplyLiveChunkBuffers(t *testing.T) {
	const payload = 1 << 20
	const copies = 2100
	msg := f3rec(OpMessage, f3cat(f3u16(1), f3u32(0), f3u64(5), f3u64(5), make([]byte, payload)))
	out := f3cat(Magic, f3rec(OpHeader, f3cat(f3str(""), f3str(""))))
	chunkStart := uint64(len(out))
	chunk := f3rec(OpChunk, f3cat(f3u64(0), f3u64(10), f3u64(uint64(len(msg))), f3u32(0), f3str(""), f3u64(uint64(len(msg))), msg))
	out = append(out, chunk...)
	out = append(out, f3rec(OpDataEnd, f3u32(0))...)
	summaryStart := uint64(len(out))
	out = append(out, f3rec(OpChannel, f3cat(f3u16(1), f3u16(0), f3str("t"), f3str(""), f3u32(0)))...)
	chunkIndex := f3rec(OpChunkIndex, f3cat(f3u64(0), f3u64(10), f3u64(chunkStart), f3u64(uint64(len(chunk))),
		f3u32(0), f3u64(0), f3str(""), f3u64(uint64(len(msg))), f3u64(uint64(len(msg)))))
	for i := 0; i < copies; i++ {
		out = append(out, chunkIndex...)
	}
	out = append(out, f3rec(OpFooter, f3cat(f3u64(summaryStart), f3u64(0), f3u32(0)))...)
	out = append(out, Magic...)

	var before, after runtime.MemStats
	runtime.GC()
	runtime.ReadMemStats(&before)
	reader, err := NewReader(bytes.NewReader(out))
	if err != nil {
		t.Fatal(err)
	}
	defer reader.Close()
	it, err := reader.Messages(UsingIndex(true), InOrder(LogTimeOrder))
	if err != nil {
		t.Fatal(err)
	}
	_, _, _, err = it.NextInto(nil)
	runtime.GC()
	runtime.ReadMemStats(&after)
	live := int64(after.HeapAlloc) - int64(before.HeapAlloc)
	t.Logf("input %d bytes; first NextInto: err=%v; live heap grew by %d bytes, %d allocated in total",
		len(out), err, live, after.TotalAlloc-before.TotalAlloc)
	if live > 2<<30 {
		t.Errorf("a %d-byte file made the reader hold %d bytes of chunk buffers (over 2 GiB) before yielding its first message",
			len(out), live)
	}
	runtime.KeepAlive(it)
}

func f3u16(x uint16) []byte { b := make([]byte, 2); binary.LittleEndian.PutUint16(b, x); return b }
func f3u32(x uint32) []byte { b := make([]byte, 4); binary.LittleEndian.PutUint32(b, x); return b }
func f3u64(x uint64) []byte { b := make([]byte, 8); binary.LittleEndian.PutUint64(b, x); return b }
func f3str(s string) []byte { return append(f3u32(uint32(len(s))), s...) }
func f3cat(parts ...[]byte) []byte {
	var out []byte
	for _, p := range parts {
		out = append(out, p...)
	}
	return out
}
func f3rec(op OpCode, body []byte) []byte {
	return f3cat([]byte{byte(op)}, f3u64(uint64(len(body))), body)
}

// f3file builds: magic, header, one chunk (given compression, declared size and data), data end,
// summary (channel 1 on topic "t", chunk index), footer, magic.
func f3file(compression string, declaredUncompressed uint64, chunkData []byte) []byte {
	out := f3cat(Magic, f3rec(OpHeader, f3cat(f3str(""), f3str(""))))
	chunkStart := uint64(len(out))
	chunk := f3rec(OpChunk, f3cat(
		f3u64(0), f3u64(10), // message start and end time
		f3u64(declaredUncompressed),
		f3u32(0), // crc: not checked
		f3str(compression),
		f3u64(uint64(len(chunkData))),
		chunkData,
	))
	out = append(out, chunk...)
	out = append(out, f3rec(OpDataEnd, f3u32(0))...)
	summaryStart := uint64(len(out))
	out = append(out, f3rec(OpChannel, f3cat(f3u16(1), f3u16(0), f3str("t"), f3str(""), f3u32(0)))...)
	out = append(out, f3rec(OpChunkIndex, f3cat(
		f3u64(0), f3u64(10),
		f3u64(chunkStart), f3u64(uint64(len(chunk))),
		f3u32(0), // no message index offsets
		f3u64(0), // message index length
		f3str(compression),
		f3u64(uint64(len(chunkData))),
		f3u64(declaredUncompressed),
	))...)
	out = append(out, f3rec(OpFooter, f3cat(f3u64(summaryStart), f3u64(0), f3u32(0)))...)
	return append(out, Magic...)
}
