package mcap

import (
	"bytes"
	"encoding/binary"
	"io"
	"testing"
)

// Property C10: "... through every public decode entry point ... the library never panics".
//
// A Reader over a source that is not seekable is a supported configuration (NewReader accepts any
// io.Reader; Info and Messages(UsingIndex(true)) answer it with an error). GetMetadata and
// GetAttachmentReader instead dereference the nil ReadSeeker.

type f4NonSeeker struct{ r io.Reader }

func (n f4NonSeeker) Read(p []byte) (int, error) { return n.r.Read(p) }

func TestFindingGetMetadataOnNonSeekableSourcePanics(t *testing.T) {
	input := f4file("", 0, nil)
	calls := map[string]func(r *Reader) error{
		"GetMetadata":         func(r *Reader) error { _, err := r.GetMetadata(8); return err },
		"GetAttachmentReader": func(r *Reader) error { _, err := r.GetAttachmentReader(8); return err },
	}
	for name, call := range calls {
		func() {
			defer func() {
				if p := recover(); p != nil {
					t.Errorf("%s on a non-seekable source panicked instead of returning an error: %v", name, p)
				}
			}()
			reader, err := NewReader(f4NonSeeker{bytes.NewReader(input)})
			if err != nil {
				t.Fatal(err)
			}
			defer reader.Close()
			if _, err := reader.Info(); err == nil {
				t.Fatal("Info on a non-seekable source is expected to return an error")
			}
			if err := call(reader); err == nil {
				t.Errorf("%s on a non-seekable source returned no error", name)
			}
		}()
	}
}

func f4u16(x uint16) []byte { b := make([]byte, 2); binary.LittleEndian.PutUint16(b, x); return b }
func f4u32(x uint32) []byte { b := make([]byte, 4); binary.LittleEndian.PutUint32(b, x); return b }
func f4u64(x uint64) []byte { b := make([]byte, 8); binary.LittleEndian.PutUint64(b, x); return b }
func f4str(s string) []byte { return append(f4u32(uint32(len(s))), s...) }
func f4cat(parts ...[]byte) []byte {
	var out []byte
	for _, p := range parts {
		out = append(out, p...)
	}
	return out
}
func f4rec(op OpCode, body []byte) []byte {
	return f4cat([]byte{byte(op)}, f4u64(uint64(len(body))), body)
}

// f4file builds: magic, header, one chunk (given compression, declared size and data), data end,
// summary (channel 1 on topic "t", chunk index), footer, magic.
func f4file(compression string, declaredUncompressed uint64, chunkData []byte) []byte {
	out := f4cat(Magic, f4rec(OpHeader, f4cat(f4str(""), f4str(""))))
	chunkStart := uint64(len(out))
	chunk := f4rec(OpChunk, f4cat(
		f4u64(0), f4u64(10), // message start and end time
		f4u64(declaredUncompressed),
		f4u32(0), // crc: not checked
		f4str(compression),
		f4u64(uint64(len(chunkData))),
		chunkData,
	))
	out = append(out, chunk...)
	out = append(out, f4rec(OpDataEnd, f4u32(0))...)
	summaryStart := uint64(len(out))
	out = append(out, f4rec(OpChannel, f4cat(f4u16(1), f4u16(0), f4str("t"), f4str(""), f4u32(0)))...)
	out = append(out, f4rec(OpChunkIndex, f4cat(
		f4u64(0), f4u64(10),
		f4u64(chunkStart), f4u64(uint64(len(chunk))),
		f4u32(0), // no message index offsets
		f4u64(0), // message index length
		f4str(compression),
		f4u64(uint64(len(chunkData))),
		f4u64(declaredUncompressed),
	))...)
	out = append(out, f4rec(OpFooter, f4cat(f4u64(summaryStart), f4u64(0), f4u32(0)))...)
	return append(out, Magic...)
}
