package mcap

import (
	"bytes"
	"fmt"
	"testing"
)

// C14: "If the destination stops accepting bytes (an error or a short write) at any point, the
// writer call during which that happens returns a non-nil error".
//
// Here the destination reports a short write the way a short count is reported by Write's return
// value alone: write number k accepts only the first half of the bytes it is handed and returns
// (n < len(p), nil). Every other write is accepted in full. No writer call notices: all of them,
// Close included, return nil, and the destination holds a file with bytes missing in the middle.
// (The attachment *data* is the one exception: it goes through io.Copy, which turns a short count
// into io.ErrShortWrite.)

type finding1ShortSink struct {
	buf   bytes.Buffer
	k     int
	calls int
	short bool // set once write k has been cut short
}

func (s *finding1ShortSink) Write(p []byte) (int, error) {
	idx := s.calls
	s.calls++
	if idx == s.k && len(p) > 0 {
		n := len(p) / 2
		s.buf.Write(p[:n])
		s.short = true
		return n, nil // short count
	}
	s.buf.Write(p)
	return len(p), nil
}

type finding1Step struct {
	name string
	run  func(w *Writer) error
}

func finding1Workload() []finding1Step {
	var steps []finding1Step
	add := func(name string, f func(w *Writer) error) { steps = append(steps, finding1Step{name, f}) }
	add("WriteHeader", func(w *Writer) error { return w.WriteHeader(&Header{Profile: "p"}) })
	add("WriteSchema", func(w *Writer) error {
		return w.WriteSchema(&Schema{ID: 1, Name: "s", Encoding: "e", Data: []byte("data")})
	})
	add("WriteChannel", func(w *Writer) error {
		return w.WriteChannel(&Channel{ID: 0, SchemaID: 1, Topic: "/a", MessageEncoding: "m"})
	})
	add("WriteMetadata", func(w *Writer) error {
		return w.WriteMetadata(&Metadata{Name: "m", Metadata: map[string]string{"x": "y"}})
	})
	for i := 0; i < 6; i++ {
		i := i
		add(fmt.Sprintf("WriteMessage#%d", i), func(w *Writer) error {
			return w.WriteMessage(&Message{ChannelID: 0, Sequence: uint32(i), LogTime: uint64(10 + i), Data: bytes.Repeat([]byte{byte(i)}, 40)})
		})
		if i == 2 {
			add("WriteAttachment", func(w *Writer) error {
				return w.WriteAttachment(&Attachment{Name: "a", MediaType: "t", DataSize: 64, Data: bytes.NewReader(make([]byte, 64))})
			})
		}
	}
	add("Close", func(w *Writer) error { return w.Close() })
	return steps
}

func TestFinding1ShortWriteWithoutErrorIsNotReported(t *testing.T) {
	configs := map[string]*WriterOptions{
		"unchunked":      {IncludeCRC: true},
		"chunked-none":   {Chunked: true, ChunkSize: 100, Compression: CompressionNone, IncludeCRC: true},
		"chunked-zstd":   {Chunked: true, ChunkSize: 100, Compression: CompressionZSTD, IncludeCRC: true},
		"chunked-lz4":    {Chunked: true, ChunkSize: 100, Compression: CompressionLZ4},
		"chunked-1chunk": {Chunked: true, Compression: CompressionZSTD},
	}
	for name, opts := range configs {
		// fault-free run: number of destination writes and reference output
		ref := &finding1ShortSink{k: -1}
		w, err := NewWriter(ref, opts)
		if err != nil {
			t.Fatal(err)
		}
		for _, st := range finding1Workload() {
			if err := st.run(w); err != nil {
				t.Fatalf("%s: fault-free %s: %v", name, st.name, err)
			}
		}
		total, want := ref.calls, ref.buf.Bytes()

		unreported := 0
		var first string
		for k := 0; k < total; k++ {
			sink := &finding1ShortSink{k: k}
			reported := false
			hitIn := "NewWriter"
			w, err := NewWriter(sink, opts)
			if err != nil {
				reported = true
			} else {
				for _, st := range finding1Workload() {
					before := sink.short
					err := st.run(w)
					if !before && sink.short {
						hitIn = st.name
					}
					if err != nil {
						// the property allows only the call that hit the short write to be the
						// one that reports it
						reported = !before && sink.short
						break
					}
				}
			}
			if !sink.short {
				t.Fatalf("%s: k=%d: short write never injected", name, k)
			}
			if !reported {
				unreported++
				if first == "" {
					first = fmt.Sprintf("k=%d (during %s): every call returned nil; destination holds %d bytes, prefix of the fault-free output: %v",
						k, hitIn, sink.buf.Len(), bytes.HasPrefix(want, sink.buf.Bytes()))
				}
			}
		}
		if unreported > 0 {
			t.Errorf("%s: %d of %d destination writes can be cut short without any writer call returning an error; first: %s",
				name, unreported, total, first)
		}
	}
}
