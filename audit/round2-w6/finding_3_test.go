package mcap

import (
	"bytes"
	"encoding/binary"
	"errors"
	"io"
	"testing"
)

// C12: the same logical content is returned for every legal layout.
//
// The spec (Schema): "A Schema record with an id of zero is invalid and should be ignored by
// readers." Schema id 0 on a channel means "no schema". The Go readers store a Schema record with
// id 0 like any other and then hand it out as the schema of every schemaless channel: the same
// messages come back with schema == nil from one file and with a bogus non-nil schema from a file
// that differs only by the record readers are told to ignore. (Debatable: the record itself is
// invalid, so one may call the whole file invalid.)
func f3u16(x uint16) []byte { b := make([]byte, 2); binary.LittleEndian.PutUint16(b, x); return b }
func f3u32(x uint32) []byte { b := make([]byte, 4); binary.LittleEndian.PutUint32(b, x); return b }
func f3u64(x uint64) []byte { b := make([]byte, 8); binary.LittleEndian.PutUint64(b, x); return b }
func f3str(s string) []byte { return append(f3u32(uint32(len(s))), s...) }
func f3cat(p ...[]byte) []byte {
	var o []byte
	for _, x := range p {
		o = append(o, x...)
	}
	return o
}
func f3rec(op byte, body []byte) []byte { return f3cat([]byte{op}, f3u64(uint64(len(body))), body) }

func f3file(withZeroSchema bool) []byte {
	zero := f3rec(0x03, f3cat(f3u16(0), f3str("Zero"), f3str("zenc"), f3u32(4), []byte("zero")))
	schema := f3rec(0x03, f3cat(f3u16(1), f3str("S"), f3str("enc"), f3u32(1), []byte{7}))
	chanWith := f3rec(0x04, f3cat(f3u16(1), f3u16(1), f3str("with"), f3str("m"), f3u32(0)))
	chanWithout := f3rec(0x04, f3cat(f3u16(2), f3u16(0), f3str("without"), f3str("m"), f3u32(0)))
	msg := func(ch uint16, seq uint32, t uint64, d string) []byte {
		return f3rec(0x05, f3cat(f3u16(ch), f3u32(seq), f3u64(t), f3u64(t), []byte(d)))
	}
	var raw []byte
	if withZeroSchema {
		raw = append(raw, zero...)
	}
	raw = f3cat(raw, schema, chanWith, chanWithout, msg(2, 1, 1, "schemaless"), msg(1, 2, 2, "typed"))
	buf := &bytes.Buffer{}
	buf.Write(Magic)
	buf.Write(f3rec(0x01, f3cat(f3str(""), f3str("other producer"))))
	off := buf.Len()
	c := f3rec(0x06, f3cat(f3u64(1), f3u64(2), f3u64(uint64(len(raw))), f3u32(0), f3str(""), f3u64(uint64(len(raw))), raw))
	buf.Write(c)
	buf.Write(f3rec(0x0F, f3u32(0)))
	summaryStart := buf.Len()
	if withZeroSchema {
		buf.Write(zero)
	}
	buf.Write(schema)
	buf.Write(chanWith)
	buf.Write(chanWithout)
	buf.Write(f3rec(0x08, f3cat(f3u64(1), f3u64(2), f3u64(uint64(off)), f3u64(uint64(len(c))), f3u32(0), f3u64(0), f3str(""), f3u64(uint64(len(raw))), f3u64(uint64(len(raw))))))
	buf.Write(f3rec(0x02, f3cat(f3u64(uint64(summaryStart)), f3u64(0), f3u32(0))))
	buf.Write(Magic)
	return buf.Bytes()
}

func TestFinding3SchemaRecordWithIDZeroIsNotIgnored(t *testing.T) {
	for _, useIndex := range []bool{false, true} {
		for _, withZero := range []bool{false, true} {
			r, err := NewReader(bytes.NewReader(f3file(withZero)))
			if err != nil {
				t.Fatal(err)
			}
			it, err := r.Messages(UsingIndex(useIndex))
			if err != nil {
				t.Fatal(err)
			}
			n := 0
			for {
				s, c, m, err := it.NextInto(nil)
				if errors.Is(err, io.EOF) {
					break
				}
				if err != nil {
					t.Fatal(err)
				}
				n++
				if c.SchemaID == 0 && s != nil {
					t.Errorf("useIndex=%v, file with schema-id-0 record=%v: message %q on schemaless channel %q is returned with schema %+v; "+
						"the same content without that (to be ignored) record is returned with a nil schema", useIndex, withZero, m.Data, c.Topic, *s)
				}
			}
			if n != 2 {
				t.Errorf("got %d messages", n)
			}
			r.Close()
		}
	}
}
