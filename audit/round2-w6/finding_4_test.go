package mcap

import (
	"bytes"
	"errors"
	"io"
	"testing"
)

// C04: "every way the API offers to express a window means the same window".
//
// ReadOptions still carries the deprecated int64 fields Start and End ("Deprecated: use
// StartNanos/EndNanos instead") and ReadOptions.Finalize() exists to fold them into the nanosecond
// fields. Reader.Messages pre-sets EndNanos to MaxUint64 before the options run, and Finalize only
// folds End in when EndNanos == 0, so a window end given through the deprecated field is silently
// ignored; Start is honoured. The same stale-field logic makes a later nanosecond option lose
// against an earlier deprecated one: After(5) followed by AfterNanos(0) reads from 5, and
// Before(10) followed by BeforeNanos(0) reads [0,10) instead of the empty window [0,0).
// (Debatable: After/Before/AfterNanos/BeforeNanos used once each, in either order, are all correct.)
func TestFinding4DeprecatedWindowFieldsDisagree(t *testing.T) {
	buf := &bytes.Buffer{}
	w, err := NewWriter(buf, &WriterOptions{Chunked: true, ChunkSize: 64})
	if err != nil {
		t.Fatal(err)
	}
	if err := w.WriteHeader(&Header{}); err != nil {
		t.Fatal(err)
	}
	if err := w.WriteSchema(&Schema{ID: 1, Name: "s", Encoding: "e"}); err != nil {
		t.Fatal(err)
	}
	if err := w.WriteChannel(&Channel{ID: 1, SchemaID: 1, Topic: "a"}); err != nil {
		t.Fatal(err)
	}
	for i := 0; i < 20; i++ {
		if err := w.WriteMessage(&Message{ChannelID: 1, Sequence: uint32(i), LogTime: uint64(i), Data: []byte{byte(i)}}); err != nil {
			t.Fatal(err)
		}
	}
	if err := w.Close(); err != nil {
		t.Fatal(err)
	}
	read := func(opts ...ReadOpt) []uint64 {
		r, err := NewReader(bytes.NewReader(buf.Bytes()))
		if err != nil {
			t.Fatal(err)
		}
		defer r.Close()
		it, err := r.Messages(opts...)
		if err != nil {
			t.Fatal(err)
		}
		var out []uint64
		for {
			_, _, m, err := it.NextInto(nil)
			if errors.Is(err, io.EOF) {
				return out
			}
			if err != nil {
				t.Fatal(err)
			}
			out = append(out, m.LogTime)
		}
	}
	count := func(start, end uint64) int {
		n := 0
		for i := uint64(0); i < 20; i++ {
			if i >= start && i < end {
				n++
			}
		}
		return n
	}
	for _, useIndex := range []bool{true, false} {
		// the reference: the window [5,10) through the nanosecond options
		ref := read(UsingIndex(useIndex), AfterNanos(5), BeforeNanos(10))
		if len(ref) != count(5, 10) {
			t.Fatalf("reference window returned %v", ref)
		}
		// the same window through the deprecated fields of the options struct
		got := read(UsingIndex(useIndex), func(ro *ReadOptions) error { ro.Start = 5; ro.End = 10; return nil })
		if len(got) != len(ref) {
			t.Errorf("useIndex=%v: ReadOptions{Start: 5, End: 10} returned %d messages %v, the window [5,10) holds %d", useIndex, len(got), got, len(ref))
		}
		// a nanosecond option given after a deprecated one
		got = read(UsingIndex(useIndex), After(5), AfterNanos(0))
		if len(got) != count(0, ^uint64(0)) {
			t.Errorf("useIndex=%v: After(5) then AfterNanos(0) returned %d messages, the window [0,max) holds %d", useIndex, len(got), count(0, ^uint64(0)))
		}
		got = read(UsingIndex(useIndex), Before(10), BeforeNanos(0))
		if len(got) != 0 {
			t.Errorf("useIndex=%v: Before(10) then BeforeNanos(0) returned %d messages, the window [0,0) is empty", useIndex, len(got))
		}
	}
}
