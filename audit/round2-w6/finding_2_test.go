package mcap

import (
	"bytes"
	"encoding/binary"
	"errors"
	"io"
	"testing"
)

// C12: "Two spec-valid files that carry the same logical content return the same content from the
// Go readers, however the producer chose to lay it out" / C02: index-based and sequential reads of
// one file agree.
//
// The spec (Records): "Records may be extended by adding new fields at the end of existing fields.
// Readers should ignore any unknown fields." A producer that appends a field to its Chunk records
// (after `records`) is read correctly through the index (ParseChunk ignores the tail), but the
// de-chunking Lexer (and so every sequential read: Reader.Messages(UsingIndex(false)), the fall-back
// scan, Lexer with EmitChunks=false) only consumes `records` and then lexes the extra bytes as if
// they were the next record header.
func f2u16(x uint16) []byte { b := make([]byte, 2); binary.LittleEndian.PutUint16(b, x); return b }
func f2u32(x uint32) []byte { b := make([]byte, 4); binary.LittleEndian.PutUint32(b, x); return b }
func f2u64(x uint64) []byte { b := make([]byte, 8); binary.LittleEndian.PutUint64(b, x); return b }
func f2str(s string) []byte { return append(f2u32(uint32(len(s))), s...) }
func f2cat(p ...[]byte) []byte {
	var o []byte
	for _, x := range p {
		o = append(o, x...)
	}
	return o
}
func f2rec(op byte, body []byte) []byte { return f2cat([]byte{op}, f2u64(uint64(len(body))), body) }

func f2file(extra []byte) []byte {
	schema := f2rec(0x03, f2cat(f2u16(1), f2str("S"), f2str("enc"), f2u32(1), []byte{7}))
	channel := f2rec(0x04, f2cat(f2u16(1), f2u16(1), f2str("a"), f2str("m"), f2u32(0)))
	msg := func(seq uint32, t uint64, d string) []byte {
		return f2rec(0x05, f2cat(f2u16(1), f2u32(seq), f2u64(t), f2u64(t), []byte(d)))
	}
	chunk := func(raw []byte, start, end uint64) []byte {
		return f2rec(0x06, f2cat(f2u64(start), f2u64(end), f2u64(uint64(len(raw))), f2u32(0), f2str(""), f2u64(uint64(len(raw))), raw, extra))
	}
	chunkIndex := func(start, end uint64, off, ln, usize int) []byte {
		return f2rec(0x08, f2cat(f2u64(start), f2u64(end), f2u64(uint64(off)), f2u64(uint64(ln)), f2u32(0), f2u64(0), f2str(""), f2u64(uint64(usize)), f2u64(uint64(usize))))
	}
	raw1 := f2cat(schema, channel, msg(1, 5, "first"))
	raw2 := msg(2, 6, "second")
	buf := &bytes.Buffer{}
	buf.Write(Magic)
	buf.Write(f2rec(0x01, f2cat(f2str(""), f2str("other producer"))))
	off1 := buf.Len()
	c1 := chunk(raw1, 5, 5)
	buf.Write(c1)
	off2 := buf.Len()
	c2 := chunk(raw2, 6, 6)
	buf.Write(c2)
	buf.Write(f2rec(0x0F, f2u32(0)))
	summaryStart := buf.Len()
	buf.Write(schema)
	buf.Write(channel)
	buf.Write(chunkIndex(5, 5, off1, len(c1), len(raw1)))
	buf.Write(chunkIndex(6, 6, off2, len(c2), len(raw2)))
	buf.Write(f2rec(0x02, f2cat(f2u64(uint64(summaryStart)), f2u64(0), f2u32(0))))
	buf.Write(Magic)
	return buf.Bytes()
}

func f2read(data []byte, opts ...ReadOpt) ([]string, error) {
	r, err := NewReader(bytes.NewReader(data))
	if err != nil {
		return nil, err
	}
	defer r.Close()
	it, err := r.Messages(opts...)
	if err != nil {
		return nil, err
	}
	var out []string
	for {
		_, _, m, err := it.NextInto(nil)
		if errors.Is(err, io.EOF) {
			return out, nil
		}
		if err != nil {
			return out, err
		}
		out = append(out, string(m.Data))
	}
}

func TestFinding2ChunkRecordWithAppendedFieldBreaksSequentialRead(t *testing.T) {
	plain := f2file(nil)
	extended := f2file([]byte{1, 2, 3, 4}) // one extra uint32 field at the end of every Chunk record

	want := []string{"first", "second"}
	for name, data := range map[string][]byte{"plain": plain, "extended": extended} {
		idx, err := f2read(data)
		if err != nil || len(idx) != 2 || idx[0] != want[0] || idx[1] != want[1] {
			t.Errorf("%s: indexed read: %v, err %v", name, idx, err)
		}
		seq, err := f2read(data, UsingIndex(false))
		if err != nil || len(seq) != 2 || seq[0] != want[0] || seq[1] != want[1] {
			t.Errorf("%s: sequential read returned %v, err %v; the indexed read of the same file returned %v", name, seq, err, idx)
		}
		lx, err := NewLexer(bytes.NewReader(data))
		if err != nil {
			t.Fatal(err)
		}
		n := 0
		for {
			tok, _, err := lx.Next(nil)
			if errors.Is(err, io.EOF) {
				break
			}
			if err != nil {
				t.Errorf("%s: Lexer: %v after %d messages", name, err, n)
				break
			}
			if tok == TokenMessage {
				n++
			}
		}
		if n != 2 {
			t.Errorf("%s: Lexer saw %d messages, want 2", name, n)
		}
	}
}
