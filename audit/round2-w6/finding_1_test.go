package mcap

import (
	"bytes"
	"errors"
	"io"
	"math/rand"
	"runtime"
	"testing"
)

// C02 (and the reader-reuse history of C01..C04): "reading messages through the index in file order
// yields the same sequence of (schema, channel, message) triples as a sequential scan of the same
// file" - for a file written by the Go writer with its defaults (zstd chunks, full index).
//
// History: on one Reader, a sequential scan is started and abandoned inside a zstd chunk (the
// caller found what it wanted), then Messages() is called again. Reader.seekLexer is there to
// support exactly this ("detaches the reader's lexer from whatever chunk an earlier, unfinished
// sequential read left it in"), but the zstd stream decoder of the abandoned chunk is still
// attached to the shared source: its read-ahead goroutine consumes bytes from the source after
// the seek, so the second scan starts decoding the chunk in the wrong place.
func TestFinding1AbandonedZstdScanBreaksNextRead(t *testing.T) {
	if runtime.GOMAXPROCS(0) < 2 {
		t.Skip("the zstd stream decoder is synchronous with GOMAXPROCS=1")
	}
	buf := &bytes.Buffer{}
	w, err := NewWriter(buf, &WriterOptions{Chunked: true, ChunkSize: 8 << 20, Compression: CompressionZSTD})
	if err != nil {
		t.Fatal(err)
	}
	if err := w.WriteHeader(&Header{}); err != nil {
		t.Fatal(err)
	}
	if err := w.WriteSchema(&Schema{ID: 1, Name: "s", Encoding: "e", Data: []byte{1}}); err != nil {
		t.Fatal(err)
	}
	if err := w.WriteChannel(&Channel{ID: 1, SchemaID: 1, Topic: "a", MessageEncoding: "m"}); err != nil {
		t.Fatal(err)
	}
	rng := rand.New(rand.NewSource(1))
	const total = 192
	for i := 0; i < total; i++ {
		d := make([]byte, 128<<10)
		rng.Read(d) // incompressible: the chunk is many zstd blocks long
		if err := w.WriteMessage(&Message{ChannelID: 1, Sequence: uint32(i), LogTime: uint64(i), PublishTime: uint64(i), Data: d}); err != nil {
			t.Fatal(err)
		}
	}
	if err := w.Close(); err != nil {
		t.Fatal(err)
	}
	data := buf.Bytes()

	collect := func(it MessageIterator) ([]uint32, error) {
		var seqs []uint32
		for {
			_, _, m, err := it.NextInto(nil)
			if errors.Is(err, io.EOF) {
				return seqs, nil
			}
			if err != nil {
				return seqs, err
			}
			seqs = append(seqs, m.Sequence)
		}
	}

	// reference: a fresh reader, sequential scan
	r0, err := NewReader(bytes.NewReader(data))
	if err != nil {
		t.Fatal(err)
	}
	it0, err := r0.Messages(UsingIndex(false))
	if err != nil {
		t.Fatal(err)
	}
	ref, err := collect(it0)
	r0.Close()
	if err != nil || len(ref) != total {
		t.Fatalf("reference scan: %d messages, err %v", len(ref), err)
	}

	for trial := 0; trial < 5; trial++ {
		r, err := NewReader(bytes.NewReader(data))
		if err != nil {
			t.Fatal(err)
		}
		it, err := r.Messages(UsingIndex(false))
		if err != nil {
			t.Fatal(err)
		}
		// take the first message(s) and abandon the scan
		for i := 0; i <= trial%3; i++ {
			if _, _, _, err := it.NextInto(nil); err != nil {
				t.Fatal(err)
			}
		}
		// the same Reader is asked for the messages again
		it2, err := r.Messages(UsingIndex(false))
		if err != nil {
			t.Fatal(err)
		}
		got, err := collect(it2)
		r.Close()
		if err != nil {
			t.Fatalf("trial %d: sequential scan after an abandoned scan on the same Reader failed after %d of %d messages: %v",
				trial, len(got), total, err)
		}
		if len(got) != len(ref) {
			t.Fatalf("trial %d: sequential scan after an abandoned scan returned %d messages, a fresh scan %d", trial, len(got), len(ref))
		}
		for i := range got {
			if got[i] != ref[i] {
				t.Fatalf("trial %d: message %d differs", trial, i)
			}
		}
	}
}
