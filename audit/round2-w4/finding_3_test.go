package mcap

// Finding 3 (C16, Python-writer direction, options "use_chunking=False, enable_data_crcs=True"; clause
// "any file written by the Python writer is read ... as exactly what Python wrote" taken together with
// the property's "with CRC validation"). PYTHON-SIDE defect (python/mcap/mcap/writer.py); the Go code
// is not at fault. Scope is debatable, see the end of this comment.
//
// Without chunking, register_schema()/register_channel() put the record into the writer's
// RecordBuilder but do not flush it. finish() then does
//
//	DataEnd(self.__data_section_crc).write(self.__record_builder)   # CRC value is taken HERE
//	self.__flush()                                                  # pending records are hashed HERE
//
// so whenever a schema or channel was registered after the last message/attachment/metadata, those
// record bytes are in the data section (before the DataEnd record) but not in data_section_crc.
// The spec: "data_section_crc: CRC-32 of all bytes in the data section. A value of 0 indicates the
// CRC-32 is not available." The value written is neither.
//
// Consequences: the repository's own Python StreamReader/NonSeekingReader(validate_crcs=True) reject
// the file ("crc validation failed in DataEnd"), as does any other validating reader. The Go lexer
// hands out the DataEnd record unvalidated, so the Go readers still return all content; a Go caller
// that checks the DataEnd token against the bytes it has lexed (below) sees the mismatch.
//
// Both readings: strictly, C16 lists "header, schemas, channels, messages, attachments, metadata and
// statistics" as the compared content, all of which the Go side reads correctly, so under the narrow
// reading C16 holds and this is a Python writer bug next to it. Under the reading that a file written
// with enable_data_crcs must be readable "with CRC validation", it is a violation.
//
// The test needs python3 and the repository's python/mcap directory; it is skipped without them.

import (
	"encoding/binary"
	"hash/crc32"
	"os"
	"os/exec"
	"path/filepath"
	"strings"
	"testing"
)

const finding3Script = `
import sys
sys.path.insert(0, sys.argv[1])
from mcap.writer import Writer, CompressionType
from mcap.stream_reader import StreamReader
w = Writer(sys.argv[2], compression=CompressionType.NONE, use_chunking=False, enable_data_crcs=True)
w.start("", "lib")
c1 = w.register_channel("/a", "json", 0)
w.add_message(c1, 1, b"x", 1, 0)
c2 = w.register_channel("/b", "json", 0)   # registered after the last flushed record
w.finish()
try:
    n = sum(1 for _ in StreamReader(sys.argv[2], validate_crcs=True).records)
    print("python-validating-read: ok", n)
except Exception as e:
    print("python-validating-read:", type(e).__name__, e)
`

func TestFinding3PythonUnchunkedWriterDataSectionCRC(t *testing.T) {
	py, err := exec.LookPath("python3")
	if err != nil {
		t.Skip("python3 not available")
	}
	pkg, err := filepath.Abs(filepath.Join("..", "..", "python", "mcap"))
	if err != nil {
		t.Fatal(err)
	}
	if _, err := os.Stat(filepath.Join(pkg, "mcap", "writer.py")); err != nil {
		t.Skip("python/mcap not found next to go/mcap")
	}
	path := filepath.Join(t.TempDir(), "f.mcap")
	out, err := exec.Command(py, "-c", finding3Script, pkg, path).CombinedOutput()
	if err != nil {
		t.Fatalf("python failed: %v\n%s", err, out)
	}
	data, err := os.ReadFile(path)
	if err != nil {
		t.Fatal(err)
	}
	// locate the DataEnd record by walking the top-level records
	pos := len(Magic)
	dataEnd := -1
	for pos+9 <= len(data)-len(Magic) {
		if OpCode(data[pos]) == OpDataEnd {
			dataEnd = pos
			break
		}
		pos += 9 + int(binary.LittleEndian.Uint64(data[pos+1:]))
	}
	if dataEnd < 0 {
		t.Fatal("no DataEnd record")
	}
	de, err := ParseDataEnd(data[dataEnd+9 : dataEnd+9+4])
	if err != nil {
		t.Fatal(err)
	}
	if de.DataSectionCRC == 0 {
		t.Fatal("writer was asked for data CRCs (enable_data_crcs=True) but wrote 0")
	}
	if actual := crc32.ChecksumIEEE(data[:dataEnd]); actual != de.DataSectionCRC {
		t.Errorf("DataEnd.data_section_crc written by Python is %08x, CRC-32 of all bytes of the data section is %08x", de.DataSectionCRC, actual)
	}
	if s := strings.TrimSpace(string(out)); !strings.HasPrefix(s, "python-validating-read: ok") {
		t.Errorf("the repository's Python StreamReader(validate_crcs=True) cannot read the file the Python writer just wrote: %s", s)
	}
}
