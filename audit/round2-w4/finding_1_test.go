package mcap

// Finding 1 (C16, clause "any file written by the Python writer is read by the Go lexer and readers as
// exactly what Python wrote: same header, schemas, channels, ... and statistics").
// PYTHON-SIDE defect (python/mcap/mcap/writer.py); nothing in the Go code is at fault.
//
// In chunked mode (the default) register_schema()/register_channel() only append the record to the
// ChunkBuilder. finish() -> __finalize_chunk() returns early when the builder holds no *message*
// ("if self.__chunk_builder.num_messages == 0: return"), so every schema and channel registered
// after the last chunk was cut (or in a file without any message) is never written to the data
// section. With repeat_channels/repeat_schemas=False they are in the file nowhere at all, while the
// Statistics record still counts them (channel_count / schema_count = "number of unique ... IDs in
// the file"). With the repeats enabled they exist only in the summary, contradicting the spec's
// "Channel records in the summary are duplicates of Channel records throughout the Data section".
//
// The Go writer in the same situation does write them (Close flushes a chunk that holds only
// schemas/channels), so the two directions are not symmetric.
//
// The test needs python3 and the repository's python/mcap directory; it is skipped without them.

import (
	"bytes"
	"errors"
	"io"
	"os"
	"os/exec"
	"path/filepath"
	"sort"
	"testing"
)

const finding1Script = `
import sys
sys.path.insert(0, sys.argv[1])
from mcap.writer import Writer, CompressionType
# (a) a chunk is cut after the message; one more schema and channel are registered afterwards
w = Writer(sys.argv[2], chunk_size=1, compression=CompressionType.NONE, repeat_channels=False, repeat_schemas=False)
w.start("", "lib")
s1 = w.register_schema("S1", "enc", b"\x01")
c1 = w.register_channel("/a", "json", s1, {"k": "v"})
w.add_message(c1, 1, b"x", 1, 0)
s2 = w.register_schema("S2", "enc", b"\x02")
c2 = w.register_channel("/late", "json", s2, {"k": "v"})
w.finish()
# (b) default chunk size, no message at all
w = Writer(sys.argv[3], compression=CompressionType.NONE, repeat_channels=False, repeat_schemas=False)
w.start("", "lib")
s1 = w.register_schema("S1", "enc", b"\x01")
c1 = w.register_channel("/a", "json", s1)
w.finish()
# (c) as (a) but with the summary repeats (defaults): data section vs summary
w = Writer(sys.argv[4], chunk_size=1, compression=CompressionType.NONE)
w.start("", "lib")
s1 = w.register_schema("S1", "enc", b"\x01")
c1 = w.register_channel("/a", "json", s1, {"k": "v"})
w.add_message(c1, 1, b"x", 1, 0)
s2 = w.register_schema("S2", "enc", b"\x02")
c2 = w.register_channel("/late", "json", s2, {"k": "v"})
w.finish()
`

type finding1Content struct {
	dataSchemas, dataTopics       []string // records before DataEnd
	summarySchemas, summaryTopics []string // records after DataEnd
	stats                         *Statistics
}

func finding1Lex(t *testing.T, path string) finding1Content {
	t.Helper()
	data, err := os.ReadFile(path)
	if err != nil {
		t.Fatal(err)
	}
	lexer, err := NewLexer(bytes.NewReader(data), &LexerOptions{ValidateChunkCRCs: true})
	if err != nil {
		t.Fatal(err)
	}
	var c finding1Content
	dataDone := false
	for {
		tok, rec, err := lexer.Next(nil)
		if errors.Is(err, io.EOF) {
			break
		}
		if err != nil {
			t.Fatal(err)
		}
		switch tok {
		case TokenSchema:
			s, err := ParseSchema(rec)
			if err != nil {
				t.Fatal(err)
			}
			if dataDone {
				c.summarySchemas = append(c.summarySchemas, s.Name)
			} else {
				c.dataSchemas = append(c.dataSchemas, s.Name)
			}
		case TokenChannel:
			ch, err := ParseChannel(rec)
			if err != nil {
				t.Fatal(err)
			}
			if dataDone {
				c.summaryTopics = append(c.summaryTopics, ch.Topic)
			} else {
				c.dataTopics = append(c.dataTopics, ch.Topic)
			}
		case TokenStatistics:
			c.stats, err = ParseStatistics(rec)
			if err != nil {
				t.Fatal(err)
			}
		case TokenDataEnd:
			dataDone = true
		}
	}
	sort.Strings(c.dataSchemas)
	sort.Strings(c.dataTopics)
	return c
}

func TestFinding1PythonChunkedWriterDropsTrailingSchemasAndChannels(t *testing.T) {
	py, err := exec.LookPath("python3")
	if err != nil {
		t.Skip("python3 not available")
	}
	pkg, err := filepath.Abs(filepath.Join("..", "..", "python", "mcap"))
	if err != nil {
		t.Fatal(err)
	}
	if _, err := os.Stat(filepath.Join(pkg, "mcap", "writer.py")); err != nil {
		t.Skip("python/mcap not found next to go/mcap")
	}
	dir := t.TempDir()
	a, b, c := filepath.Join(dir, "a.mcap"), filepath.Join(dir, "b.mcap"), filepath.Join(dir, "c.mcap")
	if out, err := exec.Command(py, "-c", finding1Script, pkg, a, b, c).CombinedOutput(); err != nil {
		t.Fatalf("python writer failed: %v\n%s", err, out)
	}

	// (a) Python registered (and was given ids for) two schemas and two channels.
	got := finding1Lex(t, a)
	if got.stats == nil || got.stats.SchemaCount != 2 || got.stats.ChannelCount != 2 {
		t.Fatalf("(a) unexpected statistics %+v", got.stats)
	}
	if len(got.dataSchemas) != 2 || len(got.dataTopics) != 2 {
		t.Errorf("(a) Python wrote schemas [S1 S2] and channels [/a /late] (statistics: schema_count=%d channel_count=%d); "+
			"the Go lexer finds schemas %v and channels %v in the whole file",
			got.stats.SchemaCount, got.stats.ChannelCount, got.dataSchemas, got.dataTopics)
	}

	// (b) one schema, one channel, no message.
	got = finding1Lex(t, b)
	if got.stats == nil || got.stats.SchemaCount != 1 || got.stats.ChannelCount != 1 {
		t.Fatalf("(b) unexpected statistics %+v", got.stats)
	}
	if len(got.dataSchemas) != 1 || len(got.dataTopics) != 1 {
		t.Errorf("(b) Python wrote schema [S1] and channel [/a] (statistics: schema_count=1 channel_count=1); "+
			"the Go lexer finds schemas %v and channels %v in the whole file", got.dataSchemas, got.dataTopics)
	}

	// (c) with the repeats on, the records exist in the summary only: the data section, which is what a
	// streaming reader that stops at DataEnd sees, lacks them ("Channel records in the summary are
	// duplicates of Channel records throughout the Data section").
	got = finding1Lex(t, c)
	if len(got.summaryTopics) != 2 || len(got.summarySchemas) != 2 {
		t.Fatalf("(c) unexpected summary %v %v", got.summarySchemas, got.summaryTopics)
	}
	if len(got.dataSchemas) != 2 || len(got.dataTopics) != 2 {
		t.Errorf("(c) summary repeats schemas %v and channels %v, but the data section only holds schemas %v and channels %v",
			got.summarySchemas, got.summaryTopics, got.dataSchemas, got.dataTopics)
	}
}
