package mcap

// Finding 2 (C16, clause "Any uncompressed file written by the Go writer is read by the repository's
// Python readers (streaming and seeking ...) as exactly the content that was written ... comparing full
// content and time-ordered reads"). PYTHON-SIDE defect (python/mcap/mcap/reader.py); the Go writer is
// not at fault.
//
// mcap.reader.make_reader() returns a SeekingReader for every seekable source. When the summary has no
// chunk indexes (Go writer with Chunked=false, or Chunked=true with SkipChunkIndex, or any file
// without a summary) SeekingReader.iter_messages falls back to
//
//	NonSeekingReader(self._stream).iter_messages(topics, start_time, end_time, log_time_order)
//
// and drops `reverse` (and also validate_crcs / record_size_limit). So
// iter_messages(log_time_order=True, reverse=True) silently yields ASCENDING log time order, although
// its docstring promises "messages will be yielded in descending log time order". The same call on the
// same content written with Chunked=true (chunk indexes present) is descending, and Go's
// Messages(InOrder(ReverseLogTimeOrder)) is descending or refuses.
//
// Scope note: the property's quantifier compares the seeking reader on files "whose summary carries the
// indexes they rely on"; an unchunked file carries no chunk index, so this is the seeking reader's
// documented fall-back path rather than its index path. It is reported because make_reader +
// iter_messages(reverse=True) is the public way to read any Go-written file from disk, and the result
// is wrong without any error.
//
// The test needs python3 and the repository's python/mcap directory; it is skipped without them.

import (
	"bytes"
	"os"
	"os/exec"
	"path/filepath"
	"strings"
	"testing"
)

const finding2Script = `
import sys
sys.path.insert(0, sys.argv[1])
from mcap.reader import make_reader
with open(sys.argv[2], "rb") as f:
    r = make_reader(f, validate_crcs=True)
    print(type(r).__name__, " ".join(str(m.log_time) for _, _, m in r.iter_messages(log_time_order=True, reverse=True)))
`

func finding2Write(t *testing.T, path string, opts *WriterOptions) {
	t.Helper()
	buf := &bytes.Buffer{}
	w, err := NewWriter(buf, opts)
	if err != nil {
		t.Fatal(err)
	}
	if err := w.WriteHeader(&Header{}); err != nil {
		t.Fatal(err)
	}
	if err := w.WriteChannel(&Channel{ID: 1, Topic: "/a", MessageEncoding: "json"}); err != nil {
		t.Fatal(err)
	}
	for i, lt := range []uint64{5, 3, 9, 1} {
		if err := w.WriteMessage(&Message{ChannelID: 1, Sequence: uint32(i), LogTime: lt, PublishTime: lt, Data: []byte{byte(i)}}); err != nil {
			t.Fatal(err)
		}
	}
	if err := w.Close(); err != nil {
		t.Fatal(err)
	}
	if err := os.WriteFile(path, buf.Bytes(), 0o600); err != nil {
		t.Fatal(err)
	}
}

func TestFinding2PythonSeekingReaderIgnoresReverseWithoutChunkIndex(t *testing.T) {
	py, err := exec.LookPath("python3")
	if err != nil {
		t.Skip("python3 not available")
	}
	pkg, err := filepath.Abs(filepath.Join("..", "..", "python", "mcap"))
	if err != nil {
		t.Fatal(err)
	}
	if _, err := os.Stat(filepath.Join(pkg, "mcap", "reader.py")); err != nil {
		t.Skip("python/mcap not found next to go/mcap")
	}
	const want = "SeekingReader 9 5 3 1"
	for _, tc := range []struct {
		name string
		opts *WriterOptions
	}{
		{"chunked-with-index (control)", &WriterOptions{Chunked: true, IncludeCRC: true}},
		{"unchunked", &WriterOptions{Chunked: false, IncludeCRC: true}},
		{"chunked-SkipChunkIndex", &WriterOptions{Chunked: true, SkipChunkIndex: true, IncludeCRC: true}},
	} {
		path := filepath.Join(t.TempDir(), "f.mcap")
		finding2Write(t, path, tc.opts)
		out, err := exec.Command(py, "-c", finding2Script, pkg, path).CombinedOutput()
		if err != nil {
			t.Fatalf("%s: python reader failed: %v\n%s", tc.name, err, out)
		}
		if got := strings.TrimSpace(string(out)); got != want {
			t.Errorf("%s: Go wrote log times 5 3 9 1; make_reader(f).iter_messages(log_time_order=True, reverse=True) "+
				"must yield them in descending order (%q), got %q", tc.name, want, got)
		}
	}
}
