package mcap

import (
	"bytes"
	"errors"
	"fmt"
	"io"
	"testing"
)

// C01: "Every schema, channel, message ... handed to the Go writer ... is returned by a
// sequential read of the resulting file ... messages come back in write order, each bound to the
// channel and schema it was written with" - read back through the non-indexed message iterator.
//
// The non-indexed iterator obtained with Messages(UsingIndex(false)) starts wherever an earlier,
// legal call on the same Reader (Info, GetMetadata, GetAttachmentReader, a previous Messages) left
// the seekable source. It then silently returns no messages at all (or fails on garbage), instead
// of the 20 messages that were written.

func finding1File(t *testing.T, chunked bool) []byte {
	t.Helper()
	buf := &bytes.Buffer{}
	w, err := NewWriter(buf, &WriterOptions{Chunked: chunked, ChunkSize: 64, IncludeCRC: true})
	if err != nil {
		t.Fatal(err)
	}
	must := func(err error) {
		t.Helper()
		if err != nil {
			t.Fatal(err)
		}
	}
	must(w.WriteHeader(&Header{}))
	must(w.WriteSchema(&Schema{ID: 1, Name: "s", Encoding: "e", Data: []byte("abc")}))
	must(w.WriteChannel(&Channel{ID: 0, SchemaID: 1, Topic: "/a", MessageEncoding: "x"}))
	must(w.WriteMetadata(&Metadata{Name: "m1", Metadata: map[string]string{"k": "v"}}))
	for i := 0; i < 10; i++ {
		must(w.WriteMessage(&Message{ChannelID: 0, Sequence: uint32(i), LogTime: uint64(i), Data: []byte{byte(i)}}))
	}
	must(w.WriteAttachment(&Attachment{Name: "att", DataSize: 3, Data: bytes.NewReader([]byte("xyz"))}))
	must(w.WriteMetadata(&Metadata{Name: "m2", Metadata: map[string]string{"k": "v"}}))
	for i := 10; i < 20; i++ {
		must(w.WriteMessage(&Message{ChannelID: 0, Sequence: uint32(i), LogTime: uint64(i), Data: []byte{byte(i)}}))
	}
	must(w.Close())
	return buf.Bytes()
}

// finding1Read reads every message through the non-indexed iterator and checks it against what
// was written: 20 messages, sequence 0..19 in write order, bound to channel "/a" and schema "s".
func finding1Read(r *Reader) error {
	it, err := r.Messages(UsingIndex(false))
	if err != nil {
		return err
	}
	n := 0
	for {
		s, c, m, err := it.NextInto(nil)
		if errors.Is(err, io.EOF) {
			break
		}
		if err != nil {
			return fmt.Errorf("after %d messages: %w", n, err)
		}
		if m.Sequence != uint32(n) || m.LogTime != uint64(n) || !bytes.Equal(m.Data, []byte{byte(n)}) {
			return fmt.Errorf("message %d differs: %+v", n, m)
		}
		if c == nil || c.Topic != "/a" || s == nil || s.Name != "s" {
			return fmt.Errorf("message %d bound to the wrong channel/schema", n)
		}
		n++
	}
	if n != 20 {
		return fmt.Errorf("sequential read returned %d of the 20 messages written", n)
	}
	return nil
}

func TestFinding1NonIndexedReadAfterOtherReaderCalls(t *testing.T) {
	for _, chunked := range []bool{true, false} {
		file := finding1File(t, chunked)

		// control: a fresh reader returns everything.
		r, err := NewReader(bytes.NewReader(file))
		if err != nil {
			t.Fatal(err)
		}
		if err := finding1Read(r); err != nil {
			t.Fatalf("chunked=%v control: %v", chunked, err)
		}
		info, err := r.Info()
		if err != nil {
			t.Fatal(err)
		}

		t.Run(fmt.Sprintf("chunked=%v/after-Info", chunked), func(t *testing.T) {
			r, err := NewReader(bytes.NewReader(file))
			if err != nil {
				t.Fatal(err)
			}
			if _, err := r.Info(); err != nil {
				t.Fatal(err)
			}
			if err := finding1Read(r); err != nil {
				t.Error(err)
			}
		})
		t.Run(fmt.Sprintf("chunked=%v/after-GetMetadata", chunked), func(t *testing.T) {
			r, err := NewReader(bytes.NewReader(file))
			if err != nil {
				t.Fatal(err)
			}
			md, err := r.GetMetadata(info.MetadataIndexes[1].Offset)
			if err != nil || md.Name != "m2" {
				t.Fatal(err, md)
			}
			if err := finding1Read(r); err != nil {
				t.Error(err)
			}
		})
		t.Run(fmt.Sprintf("chunked=%v/after-GetAttachmentReader", chunked), func(t *testing.T) {
			r, err := NewReader(bytes.NewReader(file))
			if err != nil {
				t.Fatal(err)
			}
			ar, err := r.GetAttachmentReader(info.AttachmentIndexes[0].Offset)
			if err != nil {
				t.Fatal(err)
			}
			if data, err := io.ReadAll(ar.Data()); err != nil || string(data) != "xyz" {
				t.Fatal(err, data)
			}
			if err := finding1Read(r); err != nil {
				t.Error(err)
			}
		})
		t.Run(fmt.Sprintf("chunked=%v/second-read", chunked), func(t *testing.T) {
			r, err := NewReader(bytes.NewReader(file))
			if err != nil {
				t.Fatal(err)
			}
			if err := finding1Read(r); err != nil {
				t.Fatal(err)
			}
			// the source is seekable; a second sequential read of the same file must return
			// the same 20 messages.
			if err := finding1Read(r); err != nil {
				t.Error(err)
			}
		})
	}
}
