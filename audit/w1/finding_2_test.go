package mcap

import (
	"bytes"
	"errors"
	"fmt"
	"io"
	"testing"
)

// C01, non-indexed message iterator, writer configuration SkipRepeatedChannelInfos (one of the
// ten Skip*/Override flags): such a file has no usable index, so Reader.Messages() falls back to a
// sequential read "from the start of the data". The fallback seeks the source back but keeps the
// lexer's chunk state: if an earlier iterator of the same Reader was left inside a chunk, the new
// sequential read decodes the start of the file as if it were the rest of that chunk.

func finding2File(t *testing.T, comp CompressionFormat) []byte {
	t.Helper()
	buf := &bytes.Buffer{}
	w, err := NewWriter(buf, &WriterOptions{
		Chunked: true, ChunkSize: 100, Compression: comp, IncludeCRC: true,
		SkipRepeatedChannelInfos: true,
	})
	if err != nil {
		t.Fatal(err)
	}
	must := func(err error) {
		t.Helper()
		if err != nil {
			t.Fatal(err)
		}
	}
	must(w.WriteHeader(&Header{}))
	must(w.WriteChannel(&Channel{ID: 0, Topic: "/a", MessageEncoding: "x"}))
	for i := 0; i < 20; i++ {
		must(w.WriteMessage(&Message{ChannelID: 0, Sequence: uint32(i), LogTime: uint64(i), Data: []byte{byte(i), 1, 2, 3}}))
	}
	must(w.Close())
	return buf.Bytes()
}

func finding2ReadAll(it MessageIterator) error {
	n := 0
	for {
		_, c, m, err := it.NextInto(nil)
		if errors.Is(err, io.EOF) {
			break
		}
		if err != nil {
			return fmt.Errorf("after %d messages: %w", n, err)
		}
		if m.Sequence != uint32(n) || !bytes.Equal(m.Data, []byte{byte(n), 1, 2, 3}) || c.Topic != "/a" {
			return fmt.Errorf("message %d differs: %+v", n, m)
		}
		n++
	}
	if n != 20 {
		return fmt.Errorf("sequential read returned %d of the 20 messages written", n)
	}
	return nil
}

func TestFinding2SequentialFallbackAfterAbandonedIterator(t *testing.T) {
	for _, comp := range []CompressionFormat{CompressionNone, CompressionLZ4, CompressionZSTD} {
		t.Run("compression="+string(comp), func(t *testing.T) {
			file := finding2File(t, comp)
			r, err := NewReader(bytes.NewReader(file))
			if err != nil {
				t.Fatal(err)
			}
			// look at the first message only (e.g. to learn the start time) ...
			it, err := r.Messages()
			if err != nil {
				t.Fatal(err)
			}
			if _, _, m, err := it.NextInto(nil); err != nil || m.Sequence != 0 {
				t.Fatal(err, m)
			}
			// ... then read the file.
			it, err = r.Messages()
			if err != nil {
				t.Fatal(err)
			}
			if err := finding2ReadAll(it); err != nil {
				t.Error(err)
			}
		})
	}
}
