package mcap

import (
	"bytes"
	"errors"
	"io"
	"testing"
)

// C01 (debatable, see FINDINGS.md): attachments with an empty payload are in the property's
// domain ("empty ... payloads"). An Attachment{DataSize: 0} whose Data reader is left nil - the
// zero value, and the natural way to say "no data" - makes WriteAttachment panic with a nil
// pointer dereference inside io.Copy instead of writing the empty attachment (or returning an
// error).

func TestFinding4EmptyAttachmentWithNilData(t *testing.T) {
	buf := &bytes.Buffer{}
	w, err := NewWriter(buf, &WriterOptions{})
	if err != nil {
		t.Fatal(err)
	}
	if err := w.WriteHeader(&Header{}); err != nil {
		t.Fatal(err)
	}
	func() {
		defer func() {
			if r := recover(); r != nil {
				t.Fatalf("WriteAttachment panicked on an empty attachment: %v", r)
			}
		}()
		err = w.WriteAttachment(&Attachment{LogTime: 1, CreateTime: 2, Name: "empty", MediaType: "text/plain", DataSize: 0})
	}()
	if err != nil {
		t.Fatalf("WriteAttachment: %v", err)
	}
	if err := w.Close(); err != nil {
		t.Fatal(err)
	}
	found := false
	lex, err := NewLexer(bytes.NewReader(buf.Bytes()), &LexerOptions{AttachmentCallback: func(ar *AttachmentReader) error {
		data, err := io.ReadAll(ar.Data())
		if err != nil {
			return err
		}
		found = ar.Name == "empty" && ar.MediaType == "text/plain" && ar.LogTime == 1 && ar.CreateTime == 2 && ar.DataSize == 0 && len(data) == 0
		return nil
	}})
	if err != nil {
		t.Fatal(err)
	}
	for {
		_, _, err := lex.Next(nil)
		if errors.Is(err, io.EOF) {
			break
		}
		if err != nil {
			t.Fatal(err)
		}
	}
	if !found {
		t.Fatal("the empty attachment was not returned by the sequential read")
	}
}
