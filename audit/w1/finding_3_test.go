package mcap

import (
	"bytes"
	"errors"
	"io"
	"testing"
)

// C01 (debatable, see FINDINGS.md): "Every schema, channel ... record handed to the Go writer ...
// is returned by a sequential read of the resulting file with every field byte-for-byte equal".
//
// WriteSchema/WriteChannel encode the record at once for the data section but keep the caller's
// *Schema / *Channel pointer for the copy written to the summary section at Close. A caller that
// fills one struct per record (as is routinely and safely done with *Message) gets summary
// records that carry the fields of whatever the struct held last: a sequential read returns
// schema/channel records that were never handed to the writer under that position, and some that
// were handed over are not repeated at all.

func TestFinding3SchemaChannelStructReuse(t *testing.T) {
	for _, chunked := range []bool{false, true} {
		buf := &bytes.Buffer{}
		w, err := NewWriter(buf, &WriterOptions{Chunked: chunked, IncludeCRC: true})
		if err != nil {
			t.Fatal(err)
		}
		if err := w.WriteHeader(&Header{}); err != nil {
			t.Fatal(err)
		}
		type written struct {
			id          uint16
			name, topic string
		}
		var want []written
		s := &Schema{}
		c := &Channel{}
		for i, name := range []string{"alpha", "beta", "gamma"} {
			*s = Schema{ID: uint16(i + 1), Name: name, Encoding: "e", Data: []byte(name)}
			if err := w.WriteSchema(s); err != nil {
				t.Fatal(err)
			}
			*c = Channel{ID: uint16(i + 1), SchemaID: uint16(i + 1), Topic: "/" + name, MessageEncoding: "x", Metadata: map[string]string{"n": name}}
			if err := w.WriteChannel(c); err != nil {
				t.Fatal(err)
			}
			if err := w.WriteMessage(&Message{ChannelID: uint16(i + 1), Data: []byte(name)}); err != nil {
				t.Fatal(err)
			}
			want = append(want, written{uint16(i + 1), name, "/" + name})
		}
		if err := w.Close(); err != nil {
			t.Fatal(err)
		}

		lex, err := NewLexer(bytes.NewReader(buf.Bytes()))
		if err != nil {
			t.Fatal(err)
		}
		byID := map[uint16]written{}
		for _, x := range want {
			byID[x.id] = x
		}
		var summarySchemas, summaryChannels []uint16
		inSummary := false
		for {
			tok, rec, err := lex.Next(nil)
			if errors.Is(err, io.EOF) {
				break
			}
			if err != nil {
				t.Fatal(err)
			}
			switch tok {
			case TokenDataEnd:
				inSummary = true
			case TokenSchema:
				got, err := ParseSchema(rec)
				if err != nil {
					t.Fatal(err)
				}
				if inSummary {
					summarySchemas = append(summarySchemas, got.ID)
				}
				if x := byID[got.ID]; got.Name != x.name || string(got.Data) != x.name {
					t.Errorf("chunked=%v summary=%v: schema %d read back as %q, written as %q", chunked, inSummary, got.ID, got.Name, x.name)
				}
			case TokenChannel:
				got, err := ParseChannel(rec)
				if err != nil {
					t.Fatal(err)
				}
				if inSummary {
					summaryChannels = append(summaryChannels, got.ID)
				}
				if x := byID[got.ID]; got.Topic != x.topic || got.Metadata["n"] != x.name {
					t.Errorf("chunked=%v summary=%v: channel %d read back with topic %q, written with %q", chunked, inSummary, got.ID, got.Topic, x.topic)
				}
			}
		}
		// every schema and channel handed to the writer is repeated once in the summary.
		if len(summarySchemas) != 3 || summarySchemas[0] != 1 || summarySchemas[1] != 2 || summarySchemas[2] != 3 {
			t.Errorf("chunked=%v: summary repeats schema ids %v, written 1,2,3", chunked, summarySchemas)
		}
		if len(summaryChannels) != 3 || summaryChannels[0] != 1 || summaryChannels[1] != 2 || summaryChannels[2] != 3 {
			t.Errorf("chunked=%v: summary repeats channel ids %v, written 1,2,3", chunked, summaryChannels)
		}
	}
}
