package ros

// C18 (debatable, crafted input): "Input that is not a valid bag ... produces an error".
//
// The data of an lz4 chunk is read until the lz4 reader reports io.EOF. pierrec/lz4 reports a plain
// io.EOF when the frame simply stops at a block boundary (no end mark, no content checksum), and
// the chunk header's "size" field (the uncompressed size) is never compared with what was
// decompressed. A chunk whose compressed data was cut at a block boundary that coincides with a
// record boundary therefore converts "successfully", without the messages of the lost blocks.

import (
	"bytes"
	"encoding/binary"
	"testing"

	"github.com/foxglove/mcap/go/mcap"
	"github.com/pierrec/lz4/v4"
)

func f2hdr(fields ...[2][]byte) []byte {
	var b bytes.Buffer
	for _, f := range fields {
		_ = binary.Write(&b, binary.LittleEndian, uint32(len(f[0])+1+len(f[1])))
		b.Write(f[0])
		b.WriteByte('=')
		b.Write(f[1])
	}
	return b.Bytes()
}

func f2rec(header, data []byte) []byte {
	var b bytes.Buffer
	_ = binary.Write(&b, binary.LittleEndian, uint32(len(header)))
	b.Write(header)
	_ = binary.Write(&b, binary.LittleEndian, uint32(len(data)))
	b.Write(data)
	return b.Bytes()
}

func f2u32(v uint32) []byte {
	b := make([]byte, 4)
	binary.LittleEndian.PutUint32(b, v)
	return b
}

func f2msg(sec uint32, data []byte) []byte {
	return f2rec(f2hdr(
		[2][]byte{[]byte("op"), {OpBagMessageData}},
		[2][]byte{[]byte("conn"), f2u32(0)},
		[2][]byte{[]byte("time"), append(f2u32(sec), f2u32(0)...)},
	), data)
}

func TestFindingTruncatedLZ4ChunkSilentlyLosesMessages(t *testing.T) {
	var payload bytes.Buffer
	payload.Write(f2rec(
		f2hdr([2][]byte{[]byte("op"), {OpBagConnection}}, [2][]byte{[]byte("conn"), f2u32(0)}, [2][]byte{[]byte("topic"), []byte("/a")}),
		f2hdr([2][]byte{[]byte("type"), []byte("t")}, [2][]byte{[]byte("md5sum"), []byte("m")}, [2][]byte{[]byte("message_definition"), []byte("d")}),
	))
	// first message pads the payload to exactly one 64 KiB lz4 block
	pad := 65536 - payload.Len() - len(f2msg(1, nil))
	payload.Write(f2msg(1, make([]byte, pad)))
	if payload.Len() != 65536 {
		t.Fatal("bad test setup")
	}
	for i := 0; i < 5; i++ {
		payload.Write(f2msg(2, []byte("more")))
	}
	var frame bytes.Buffer
	lw := lz4.NewWriter(&frame)
	_ = lw.Apply(lz4.BlockSizeOption(lz4.Block64Kb))
	_, _ = lw.Write(payload.Bytes())
	_ = lw.Close()
	full := frame.Bytes()
	firstBlock := binary.LittleEndian.Uint32(full[7:]) &^ (1 << 31)
	cut := 7 + 4 + int(firstBlock) // frame header + first block; second block, end mark and checksum are gone

	convert := func(chunkData []byte) (int, error) {
		var bag bytes.Buffer
		bag.Write(BagMagic)
		bag.Write(f2rec(f2hdr(
			[2][]byte{[]byte("op"), {OpBagChunk}},
			[2][]byte{[]byte("compression"), []byte("lz4")},
			[2][]byte{[]byte("size"), f2u32(uint32(payload.Len()))}, // still says 65536+5 records
		), chunkData))
		n := 0
		err := Bag2MCAP(&bytes.Buffer{}, &bag, &mcap.WriterOptions{}, func([]byte) error { n++; return nil })
		return n, err
	}
	n, err := convert(full)
	if err != nil || n != 6 {
		t.Fatalf("control: intact chunk: n=%d err=%v", n, err)
	}
	n, err = convert(full[:cut])
	if err == nil {
		t.Errorf("chunk data cut from %d to %d bytes (lz4 frame without its last block, end mark and checksum; header still announces size=%d): "+
			"conversion reported success with %d of 6 messages", len(full), cut, payload.Len(), n)
	}
}
