package ros1msg

// C19: "nested types resolved by exact, package-relative or Header-special lookup" /
// "parsing returns the field tree it describes ... or an error".
//
// A field whose type is written qualified (pkg/Type) and for which the definition has no
// "MSG: pkg/Type" section is not reported: the parser silently resolves it against an empty
// definition and returns a record with zero fields. The same omission for an unqualified type
// name is (correctly) an error.

import (
	"strings"
	"testing"
)

const findingSep = "================================================================================\n"

func TestFindingQualifiedTypeWithoutSectionBecomesEmptyRecord(t *testing.T) {
	// control: unqualified reference to a type that has no section is an error
	_, err := ParseMessageDefinition("geometry_msgs", []byte("Point position\nuint32 after\n"))
	if err == nil {
		t.Fatalf("control: unqualified missing dependency did not produce an error")
	}

	// the same, spelled qualified
	fields, err := ParseMessageDefinition("my_pkg", []byte("geometry_msgs/Point position\nuint32 after\n"))
	if err == nil {
		t.Errorf("geometry_msgs/Point has no MSG section, yet parsing succeeded and describes it as a record with %d fields: %+v",
			len(fields[0].Type.Fields), fields[0].Type)
	}

	// a mutated valid definition: tf2_msgs/TFMessage whose message_definition was cut off after
	// the first section (or whose MSG header line was damaged)
	tf := "geometry_msgs/TransformStamped[] transforms\n" + findingSep +
		"MSG: geometry_msgs/TransformStampe\n" + // damaged header
		"Header header\nstring child_frame_id\nTransform transform\n"
	fields, err = ParseMessageDefinition("tf2_msgs", []byte(tf))
	if err == nil {
		items := fields[0].Type.Items
		t.Errorf("TFMessage without a geometry_msgs/TransformStamped section parsed; transforms is an array of records with %d fields", len(items.Fields))
	}

	// Third spelling of Header accepted by ROS 1 (genmsg treats roslib/Header like std_msgs/Header):
	// resolves to nothing here, again silently.
	hdr := "roslib/Header header\nuint8 x\n" + findingSep + "MSG: std_msgs/Header\nuint32 seq\ntime stamp\nstring frame_id\n"
	fields, err = ParseMessageDefinition("p", []byte(hdr))
	if err == nil && len(fields[0].Type.Fields) != 3 {
		t.Errorf("roslib/Header resolved to a record with %d fields (want the 3 fields of std_msgs/Header, or an error)", len(fields[0].Type.Fields))
	}
	_ = strings.TrimSpace
}
