package ros

// C18 (debatable): "Converting a ROS 2 db3 yields every stored message of every message-typed topic".
//
// Whether a topic is "message-typed" is decided by the unanchored regexp `\w+/msg/.*` on the type
// string. A topic whose type is written without the "/msg/" namespace (the "pkg/Type" form rosbag2
// recorded before ROS 2 Dashing, and the form used inside .msg files) is treated like a service or
// action topic: it is skipped without any error, and the result is a well-formed MCAP with no
// channel and no message for it.

import (
	"bytes"
	"database/sql"
	"os"
	"path/filepath"
	"testing"

	"github.com/foxglove/mcap/go/mcap"
	_ "github.com/mattn/go-sqlite3"
)

func TestFindingDB3TypeWithoutMsgNamespaceSilentlyDropped(t *testing.T) {
	dir := t.TempDir()
	_ = os.MkdirAll(filepath.Join(dir, "share", "ament_index", "resource_index", "rosidl_interfaces"), 0o755)
	_ = os.MkdirAll(filepath.Join(dir, "share", "std_msgs", "msg"), 0o755)
	_ = os.WriteFile(filepath.Join(dir, "share", "ament_index", "resource_index", "rosidl_interfaces", "std_msgs"), []byte("msg/String.idl\nmsg/String.msg\n"), 0o644)
	_ = os.WriteFile(filepath.Join(dir, "share", "std_msgs", "msg", "String.msg"), []byte("string data\n"), 0o644)

	db, err := sql.Open("sqlite3", filepath.Join(t.TempDir(), "bag.db3"))
	if err != nil {
		t.Fatal(err)
	}
	defer db.Close()
	for _, q := range []string{
		`CREATE TABLE topics(id INTEGER PRIMARY KEY,name TEXT NOT NULL,type TEXT NOT NULL,serialization_format TEXT NOT NULL)`,
		`CREATE TABLE messages(id INTEGER PRIMARY KEY,topic_id INTEGER NOT NULL,timestamp INTEGER NOT NULL, data BLOB NOT NULL)`,
		`INSERT INTO topics VALUES (1, '/chatter', 'std_msgs/String', 'cdr')`,
		`INSERT INTO messages(topic_id, timestamp, data) VALUES (1, 10, x'000100000600000068656c6c6f00')`,
		`INSERT INTO messages(topic_id, timestamp, data) VALUES (1, 20, x'0001000006000000776f726c6400')`,
	} {
		if _, err := db.Exec(q); err != nil {
			t.Fatal(err)
		}
	}
	var out bytes.Buffer
	n := 0
	err = DB3ToMCAP(&out, db, &mcap.WriterOptions{}, []string{dir}, func([]byte) error { n++; return nil })
	if err == nil && n != 2 {
		t.Errorf("topic /chatter of type std_msgs/String has 2 stored messages; conversion succeeded with %d messages and no error", n)
	}
}
