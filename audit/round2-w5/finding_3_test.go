package ros

// C18 (theoretical): "a schema carrying its type and definition (one schema per distinct type/md5)".
//
// Schemas are deduplicated on the string type + "/" + md5sum. Type names contain "/", so two
// distinct (type, md5sum) pairs can produce the same key; the second connection is then put on the
// first one's schema, i.e. a schema that carries another type name and definition. Needs an md5sum
// field containing "/", which ROS itself never produces.

import (
	"bytes"
	"errors"
	"io"
	"testing"

	"github.com/foxglove/go-rosbag"
	"github.com/foxglove/mcap/go/mcap"
)

func TestFindingSchemaKeyCollision(t *testing.T) {
	var bag bytes.Buffer
	bw, err := rosbag.NewWriter(&bag)
	if err != nil {
		t.Fatal(err)
	}
	_ = bw.WriteBagHeader(rosbag.BagHeader{})
	_ = bw.WriteConnection(&rosbag.Connection{Conn: 0, Topic: "/x", Data: rosbag.ConnectionHeader{
		Topic: "/x", Type: "a/b", MD5Sum: "c", MessageDefinition: []byte("int8 first\n")}})
	_ = bw.WriteConnection(&rosbag.Connection{Conn: 1, Topic: "/y", Data: rosbag.ConnectionHeader{
		Topic: "/y", Type: "a", MD5Sum: "b/c", MessageDefinition: []byte("string second\n")}})
	_ = bw.WriteMessage(&rosbag.Message{Conn: 0, Time: 1, Data: []byte{1}})
	_ = bw.WriteMessage(&rosbag.Message{Conn: 1, Time: 2, Data: []byte{2}})
	if err := bw.Close(); err != nil {
		t.Fatal(err)
	}
	var out bytes.Buffer
	if err := Bag2MCAP(&out, &bag, &mcap.WriterOptions{}); err != nil {
		t.Fatal(err)
	}
	lexer, err := mcap.NewLexer(&out)
	if err != nil {
		t.Fatal(err)
	}
	schemas := map[uint16]*mcap.Schema{}
	channels := map[uint16]*mcap.Channel{}
	for {
		tt, tok, err := lexer.Next(nil)
		if errors.Is(err, io.EOF) {
			break
		}
		if err != nil {
			t.Fatal(err)
		}
		switch tt {
		case mcap.TokenSchema:
			s, _ := mcap.ParseSchema(tok)
			schemas[s.ID] = s
		case mcap.TokenChannel:
			c, _ := mcap.ParseChannel(tok)
			channels[c.ID] = c
		}
	}
	s := schemas[channels[1].SchemaID]
	if s.Name != "a" || string(s.Data) != "string second\n" {
		t.Errorf("connection 1 has type %q / definition %q, but its channel's schema carries name %q / definition %q",
			"a", "string second\n", s.Name, s.Data)
	}
	if len(schemas) != 2 {
		t.Errorf("%d schemas for 2 distinct (type, md5sum) pairs", len(schemas))
	}
}
