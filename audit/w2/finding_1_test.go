package mcap

// C02 (index-based read == sequential scan, never silently fewer) and C08 (Info lists every
// channel and schema of the file).
//
// Writer.WriteSchema / WriteChannel (through AddSchema / AddChannel) keep the caller's *Schema and
// *Channel pointers and serialise them again, as they are at Close() time, into the summary
// section. A caller that fills one struct per record kind and re-uses it for the next record (or
// edits the Metadata map / Data slice afterwards) gets a data section that is right and a summary
// section that describes only the last state of the struct.

import (
	"bytes"
	"errors"
	"fmt"
	"io"
	"reflect"
	"testing"
)

type finding1Triple struct {
	Schema  *Schema
	Channel Channel
	Message Message
}

func finding1Drain(it MessageIterator) ([]finding1Triple, error) {
	var out []finding1Triple
	for {
		s, c, m, err := it.NextInto(nil)
		if err != nil {
			if errors.Is(err, io.EOF) {
				return out, nil
			}
			return out, err
		}
		tr := finding1Triple{Channel: *c, Message: *m}
		tr.Channel.Metadata = map[string]string{}
		for k, v := range c.Metadata {
			tr.Channel.Metadata[k] = v
		}
		tr.Message.Data = append([]byte{}, m.Data...)
		if s != nil {
			cp := *s
			cp.Data = append([]byte{}, s.Data...)
			tr.Schema = &cp
		}
		out = append(out, tr)
	}
}

func finding1ScanAndIndexed(t *testing.T, file []byte) (scan, indexed []finding1Triple, info *Info) {
	t.Helper()
	r1, err := NewReader(bytes.NewReader(file))
	if err != nil {
		t.Fatal(err)
	}
	itS, err := r1.Messages(UsingIndex(false))
	if err != nil {
		t.Fatal(err)
	}
	scan, err = finding1Drain(itS)
	if err != nil {
		t.Fatalf("sequential scan failed: %v", err)
	}
	r2, err := NewReader(bytes.NewReader(file))
	if err != nil {
		t.Fatal(err)
	}
	info, err = r2.Info()
	if err != nil {
		t.Fatal(err)
	}
	itI, err := r2.Messages() // default options
	if err != nil {
		t.Logf("index-based read refused: %v (allowed)", err)
		return scan, nil, info
	}
	indexed, err = finding1Drain(itI)
	if err != nil {
		t.Logf("index-based read failed with an error: %v (allowed)", err)
		return scan, nil, info
	}
	return scan, indexed, info
}

// One Schema and one Channel value, refilled for every record: a loop many callers write.
func TestFindingWriterKeepsCallersChannelStruct(t *testing.T) {
	buf := &bytes.Buffer{}
	// indexed-capable configuration: chunk indexes, repeated schemas and channels all kept
	w, err := NewWriter(buf, &WriterOptions{Chunked: true, ChunkSize: 256, Compression: CompressionZSTD, IncludeCRC: true})
	if err != nil {
		t.Fatal(err)
	}
	if err := w.WriteHeader(&Header{}); err != nil {
		t.Fatal(err)
	}
	var s Schema
	var c Channel
	for i := 1; i <= 3; i++ {
		s.ID = uint16(i)
		s.Name = fmt.Sprintf("schema%d", i)
		s.Encoding = "enc"
		s.Data = []byte{byte(i)}
		if err := w.WriteSchema(&s); err != nil {
			t.Fatal(err)
		}
		c.ID = uint16(i)
		c.SchemaID = uint16(i)
		c.Topic = fmt.Sprintf("/topic%d", i)
		c.MessageEncoding = "enc"
		if err := w.WriteChannel(&c); err != nil {
			t.Fatal(err)
		}
	}
	for i := 0; i < 30; i++ {
		if err := w.WriteMessage(&Message{ChannelID: uint16(i%3 + 1), Sequence: uint32(i), LogTime: uint64(i), Data: []byte("payload")}); err != nil {
			t.Fatal(err)
		}
	}
	if err := w.Close(); err != nil {
		t.Fatal(err)
	}

	scan, indexed, info := finding1ScanAndIndexed(t, buf.Bytes())
	if len(scan) != 30 {
		t.Fatalf("scan returned %d messages, 30 written", len(scan))
	}
	if indexed != nil && len(indexed) < len(scan) {
		t.Errorf("C02: index-based read ended with a clean EOF after %d messages, the sequential scan of the same file yields %d",
			len(indexed), len(scan))
	}
	if indexed != nil && !reflect.DeepEqual(indexed, scan) {
		t.Errorf("C02: index-based read and sequential scan differ")
	}
	// C08: Info lists every channel and schema of the file; the statistics say how many there are.
	if info.Statistics.ChannelCount != 3 || info.Statistics.SchemaCount != 3 {
		t.Errorf("statistics: %d channels, %d schemas, want 3/3", info.Statistics.ChannelCount, info.Statistics.SchemaCount)
	}
	if len(info.Channels) != 3 {
		t.Errorf("C08: Info lists %d channels, the file has 3 (statistics say %d)", len(info.Channels), info.Statistics.ChannelCount)
	}
	if len(info.Schemas) != 3 {
		t.Errorf("C08: Info lists %d schemas, the file has 3 (statistics say %d)", len(info.Schemas), info.Statistics.SchemaCount)
	}
}

// The caller's Metadata map and schema Data buffer are kept too: editing them after the record
// has been written changes what the summary says, and with it what an index-based read returns.
func TestFindingWriterKeepsCallersMapAndBytes(t *testing.T) {
	buf := &bytes.Buffer{}
	w, err := NewWriter(buf, &WriterOptions{Chunked: true, ChunkSize: 256})
	if err != nil {
		t.Fatal(err)
	}
	if err := w.WriteHeader(&Header{}); err != nil {
		t.Fatal(err)
	}
	schemaBuf := []byte("definition-A")
	if err := w.WriteSchema(&Schema{ID: 1, Name: "s", Encoding: "e", Data: schemaBuf}); err != nil {
		t.Fatal(err)
	}
	md := map[string]string{"frame": "base"}
	if err := w.WriteChannel(&Channel{ID: 1, SchemaID: 1, Topic: "/a", MessageEncoding: "e", Metadata: md}); err != nil {
		t.Fatal(err)
	}
	// the caller goes on using its own buffer and map for something else
	copy(schemaBuf, "XXXXXXXXXXXX")
	md["frame"] = "other"
	md["extra"] = "1"
	for i := 0; i < 5; i++ {
		if err := w.WriteMessage(&Message{ChannelID: 1, LogTime: uint64(i), Data: []byte("payload")}); err != nil {
			t.Fatal(err)
		}
	}
	if err := w.Close(); err != nil {
		t.Fatal(err)
	}
	scan, indexed, _ := finding1ScanAndIndexed(t, buf.Bytes())
	if len(scan) != 5 {
		t.Fatalf("scan returned %d messages", len(scan))
	}
	if string(scan[0].Schema.Data) != "definition-A" || scan[0].Channel.Metadata["frame"] != "base" {
		t.Fatalf("scan does not return what was written: %q %v", scan[0].Schema.Data, scan[0].Channel.Metadata)
	}
	if indexed != nil && !reflect.DeepEqual(indexed, scan) {
		t.Errorf("C02: index-based read returns schema data %q / channel metadata %v, the sequential scan %q / %v",
			indexed[0].Schema.Data, indexed[0].Channel.Metadata, scan[0].Schema.Data, scan[0].Channel.Metadata)
	}
}
