package mcap

// C02: "when the file has no index ... the read falls back to the scan or fails with an error";
// "every ... metadata record that has an index entry is retrievable ... from the location the
// entry gives".
//
// The Reader owns one Lexer. A sequential iterator that is abandoned inside a chunk (the caller
// wanted the first message only) leaves that lexer switched to the chunk's decompressor
// (inChunk = true, reader = decoder). Reader.Messages() seeks the stream back to the first data
// record for its fall-back scan, and Reader.GetMetadata seeks to the record, but both then read
// through the stale decompressor: the fall-back scan first replays the rest of the old chunk and
// then the whole file (zstd: a clean read with extra, duplicated messages), GetMetadata is handed
// a message record from the old chunk and fails.

import (
	"bytes"
	"errors"
	"io"
	"reflect"
	"testing"
)

func finding3Messages(it MessageIterator) ([]Message, error) {
	var out []Message
	for {
		_, _, m, err := it.NextInto(nil)
		if err != nil {
			if errors.Is(err, io.EOF) {
				return out, nil
			}
			return out, err
		}
		out = append(out, Message{ChannelID: m.ChannelID, Sequence: m.Sequence, LogTime: m.LogTime, PublishTime: m.PublishTime, Data: append([]byte{}, m.Data...)})
	}
}

func finding3File(t *testing.T, opts *WriterOptions) []byte {
	t.Helper()
	buf := &bytes.Buffer{}
	w, err := NewWriter(buf, opts)
	if err != nil {
		t.Fatal(err)
	}
	must := func(err error) {
		t.Helper()
		if err != nil {
			t.Fatal(err)
		}
	}
	must(w.WriteHeader(&Header{}))
	must(w.WriteMetadata(&Metadata{Name: "calibration", Metadata: map[string]string{"k": "v"}}))
	must(w.WriteChannel(&Channel{ID: 1, Topic: "/a"}))
	must(w.WriteMessage(&Message{ChannelID: 1, Sequence: 1, LogTime: 1, Data: []byte{}}))
	must(w.WriteChannel(&Channel{ID: 2, Topic: "/b"}))
	must(w.WriteMessage(&Message{ChannelID: 2, Sequence: 2, LogTime: 2, Data: []byte{}}))
	must(w.WriteMessage(&Message{ChannelID: 2, Sequence: 3, LogTime: 3, Data: []byte{}}))
	must(w.Close())
	return buf.Bytes()
}

func TestFindingFallbackScanAfterAbandonedScanReplaysOldChunk(t *testing.T) {
	// chunked, no chunk indexes: Messages() has to fall back to the sequential scan
	file := finding3File(t, &WriterOptions{Chunked: true, Compression: CompressionZSTD, SkipChunkIndex: true})

	ref, err := NewReader(bytes.NewReader(file))
	if err != nil {
		t.Fatal(err)
	}
	itRef, err := ref.Messages(UsingIndex(false))
	if err != nil {
		t.Fatal(err)
	}
	scan, err := finding3Messages(itRef)
	if err != nil || len(scan) != 3 {
		t.Fatalf("scan: %d messages, err %v", len(scan), err)
	}

	r, err := NewReader(bytes.NewReader(file))
	if err != nil {
		t.Fatal(err)
	}
	first, err := r.Messages()
	if err != nil {
		t.Fatal(err)
	}
	if _, _, _, err := first.NextInto(nil); err != nil { // look at the first message only
		t.Fatal(err)
	}
	second, err := r.Messages() // read the file (again) with the default options
	if err != nil {
		return // allowed
	}
	got, err := finding3Messages(second)
	if err != nil {
		return // allowed
	}
	if !reflect.DeepEqual(got, scan) {
		seqs := []uint32{}
		for _, m := range got {
			seqs = append(seqs, m.Sequence)
		}
		t.Errorf("Messages() on a file without index returned %d messages (sequence numbers %v) without an error; the sequential scan of the file yields %d",
			len(got), seqs, len(scan))
	}
}

func TestFindingGetMetadataAfterAbandonedScan(t *testing.T) {
	for _, comp := range []CompressionFormat{CompressionZSTD, CompressionLZ4} {
		file := finding3File(t, &WriterOptions{Chunked: true, Compression: comp})
		r, err := NewReader(bytes.NewReader(file))
		if err != nil {
			t.Fatal(err)
		}
		it, err := r.Messages(UsingIndex(false))
		if err != nil {
			t.Fatal(err)
		}
		if _, _, _, err := it.NextInto(nil); err != nil { // first message only, iterator dropped
			t.Fatal(err)
		}
		info, err := r.Info()
		if err != nil {
			t.Fatal(err)
		}
		if len(info.MetadataIndexes) != 1 {
			t.Fatalf("%d metadata indexes", len(info.MetadataIndexes))
		}
		md, err := r.GetMetadata(info.MetadataIndexes[0].Offset)
		if err != nil {
			t.Errorf("compression %q: metadata record with an index entry is not retrievable from the entry's location: %v", comp, err)
			continue
		}
		if md.Name != "calibration" || !reflect.DeepEqual(md.Metadata, map[string]string{"k": "v"}) {
			t.Errorf("compression %q: got %+v", comp, md)
		}
	}
}
