package mcap

// C02: "a metadata callback receives every metadata record of the file during a sequential read"
// and the sequential scan as the reference that index-based access is measured against.
//
// On a seekable source Reader.Info(), GetMetadata(), GetAttachmentReader() and an index-based
// Messages() all move the shared stream. Messages(UsingIndex(false)) starts its scan wherever the
// stream happens to be, so after any of those calls the "sequential read of the file" ends with a
// clean io.EOF after no (or only the trailing) messages and metadata records. The index-based
// branch of Messages() was given a seek back to the first data record for exactly this reason
// (r.dataStart); the UsingIndex(false) branch was not.

import (
	"bytes"
	"errors"
	"io"
	"testing"
)

func finding2File(t *testing.T, opts *WriterOptions) []byte {
	t.Helper()
	buf := &bytes.Buffer{}
	w, err := NewWriter(buf, opts)
	if err != nil {
		t.Fatal(err)
	}
	must := func(err error) {
		t.Helper()
		if err != nil {
			t.Fatal(err)
		}
	}
	must(w.WriteHeader(&Header{}))
	must(w.WriteSchema(&Schema{ID: 1, Name: "s", Encoding: "e", Data: []byte{1}}))
	must(w.WriteChannel(&Channel{ID: 1, SchemaID: 1, Topic: "/a", MessageEncoding: "e"}))
	must(w.WriteMetadata(&Metadata{Name: "first", Metadata: map[string]string{"k": "v"}}))
	for i := 0; i < 30; i++ {
		must(w.WriteMessage(&Message{ChannelID: 1, Sequence: uint32(i), LogTime: uint64(i), Data: []byte("hello world payload")}))
		if i == 15 {
			must(w.WriteMetadata(&Metadata{Name: "mid", Metadata: map[string]string{"k2": "v2"}}))
			must(w.WriteAttachment(&Attachment{Name: "att", DataSize: 3, Data: bytes.NewReader([]byte("abc"))}))
		}
	}
	must(w.WriteMetadata(&Metadata{Name: "last", Metadata: map[string]string{}}))
	must(w.Close())
	return buf.Bytes()
}

func finding2Count(it MessageIterator) (int, error) {
	n := 0
	for {
		_, _, _, err := it.NextInto(nil)
		if err != nil {
			if errors.Is(err, io.EOF) {
				return n, nil
			}
			return n, err
		}
		n++
	}
}

func TestFindingSequentialReadAfterInfoIsSilentlyEmpty(t *testing.T) {
	configs := map[string]*WriterOptions{
		"chunked-indexed": {Chunked: true, ChunkSize: 200, Compression: CompressionZSTD, IncludeCRC: true},
		"unchunked":       {Chunked: false, IncludeCRC: true},
	}
	histories := map[string]func(t *testing.T, r *Reader){
		"Info": func(t *testing.T, r *Reader) {
			if _, err := r.Info(); err != nil {
				t.Fatal(err)
			}
		},
		"GetMetadata(last)": func(t *testing.T, r *Reader) {
			info, err := r.Info()
			if err != nil {
				t.Fatal(err)
			}
			idx := info.MetadataIndexes[len(info.MetadataIndexes)-1]
			if _, err := r.GetMetadata(idx.Offset); err != nil {
				t.Fatal(err)
			}
		},
		"complete Messages() pass": func(t *testing.T, r *Reader) {
			it, err := r.Messages()
			if err != nil {
				t.Fatal(err)
			}
			if n, err := finding2Count(it); err != nil || n != 30 {
				t.Fatalf("first pass: %d messages, err %v", n, err)
			}
		},
	}
	for cname, cfg := range configs {
		file := finding2File(t, cfg)
		for hname, history := range histories {
			t.Run(cname+"/"+hname, func(t *testing.T) {
				r, err := NewReader(bytes.NewReader(file))
				if err != nil {
					t.Fatal(err)
				}
				history(t, r)
				var names []string
				it, err := r.Messages(UsingIndex(false), WithMetadataCallback(func(m *Metadata) error {
					names = append(names, m.Name)
					return nil
				}))
				if err != nil {
					return // refusing would be fine
				}
				n, err := finding2Count(it)
				if err != nil {
					return // failing with an error would be fine
				}
				if n != 30 {
					t.Errorf("sequential read after %s ended with a clean EOF after %d of the file's 30 messages", hname, n)
				}
				if len(names) != 3 {
					t.Errorf("metadata callback of the sequential read received %v, the file has 3 metadata records", names)
				}
			})
		}
	}
}

// the same with the calls the other way round: the iterator is obtained first, Info is asked for
// (for a progress bar, say) before the first Next.
func TestFindingInfoBetweenMessagesAndFirstNext(t *testing.T) {
	file := finding2File(t, &WriterOptions{Chunked: true, ChunkSize: 200, Compression: CompressionZSTD})
	r, err := NewReader(bytes.NewReader(file))
	if err != nil {
		t.Fatal(err)
	}
	nmeta := 0
	it, err := r.Messages(UsingIndex(false), WithMetadataCallback(func(*Metadata) error { nmeta++; return nil }))
	if err != nil {
		t.Fatal(err)
	}
	if _, err := r.Info(); err != nil {
		t.Fatal(err)
	}
	n, err := finding2Count(it)
	if err == nil && (n != 30 || nmeta != 3) {
		t.Errorf("sequential read: clean EOF after %d of 30 messages and %d of 3 metadata records", n, nmeta)
	}
}
