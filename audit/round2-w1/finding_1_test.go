package mcap

import (
	"bytes"
	"errors"
	"io"
	"math/rand"
	"sync"
	"testing"
)

// lockedSource is an io.ReadSeeker that, like *os.File, may be used from several goroutines:
// every call is serialised. With it the failure below is not an artefact of an unsynchronised
// test source, it is the stream position being moved behind the Reader's back.
type lockedSource struct {
	mu sync.Mutex
	r  *bytes.Reader
}

func (s *lockedSource) Read(p []byte) (int, error) {
	s.mu.Lock()
	defer s.mu.Unlock()
	return s.r.Read(p)
}

func (s *lockedSource) Seek(off int64, whence int) (int64, error) {
	s.mu.Lock()
	defer s.mu.Unlock()
	return s.r.Seek(off, whence)
}

// C01: "Every ... message ... handed to the Go writer ... is returned by a sequential read of the
// resulting file with every field byte-for-byte equal; messages come back in write order" -
// read back through the non-indexed message iterator.
//
// History: one Reader over a seekable source holding a zstd chunk that spans many zstd blocks
// (ChunkSize 4 MiB here; the default 1 MiB chunk has 8 blocks and behaves the same). A first
// Messages(UsingIndex(false)) iterator is read for a few messages and dropped, then Messages is
// called again on the same Reader (the case Reader.seekLexer exists for) and read to the end.
func TestFindingZstdReadAheadSurvivesSeekLexer(t *testing.T) {
	const nMsgs, msgSize = 400, 10000
	buf := &bytes.Buffer{}
	w, err := NewWriter(buf, &WriterOptions{Chunked: true, ChunkSize: 4 << 20, Compression: CompressionZSTD, IncludeCRC: true})
	if err != nil {
		t.Fatal(err)
	}
	if err := w.WriteHeader(&Header{}); err != nil {
		t.Fatal(err)
	}
	if err := w.WriteSchema(&Schema{ID: 1, Name: "s", Encoding: "e", Data: []byte("d")}); err != nil {
		t.Fatal(err)
	}
	if err := w.WriteChannel(&Channel{ID: 1, SchemaID: 1, Topic: "/t", MessageEncoding: "x"}); err != nil {
		t.Fatal(err)
	}
	rng := rand.New(rand.NewSource(7))
	want := make([][]byte, nMsgs)
	for i := range want {
		want[i] = make([]byte, msgSize)
		rng.Read(want[i])
		if err := w.WriteMessage(&Message{ChannelID: 1, Sequence: uint32(i), LogTime: uint64(i), Data: want[i]}); err != nil {
			t.Fatal(err)
		}
	}
	if err := w.Close(); err != nil {
		t.Fatal(err)
	}
	file := buf.Bytes()

	for round := 0; round < 300; round++ {
		r, err := NewReader(&lockedSource{r: bytes.NewReader(file)})
		if err != nil {
			t.Fatal(err)
		}
		first, err := r.Messages(UsingIndex(false))
		if err != nil {
			t.Fatal(err)
		}
		dropAfter := 1 + round%60
		for i := 0; i < dropAfter; i++ {
			_, _, m, err := first.Next(nil)
			if err != nil {
				t.Fatalf("round %d: first iterator, message %d: %v", round, i, err)
			}
			if !bytes.Equal(m.Data, want[i]) {
				t.Fatalf("round %d: first iterator, message %d differs from what was written", round, i)
			}
		}
		second, err := r.Messages(UsingIndex(false))
		if err != nil {
			t.Fatal(err)
		}
		n := 0
		for {
			_, _, m, err := second.Next(nil)
			if errors.Is(err, io.EOF) {
				break
			}
			if err != nil {
				t.Fatalf("round %d (first iterator dropped after %d messages): sequential read failed at message %d of %d: %v",
					round, dropAfter, n, nMsgs, err)
			}
			if n >= nMsgs || m.Sequence != uint32(n) || !bytes.Equal(m.Data, want[n]) {
				t.Fatalf("round %d (first iterator dropped after %d messages): message %d is not the one written", round, dropAfter, n)
			}
			n++
		}
		if n != nMsgs {
			t.Fatalf("round %d (first iterator dropped after %d messages): sequential read returned %d of %d messages",
				round, dropAfter, n, nMsgs)
		}
		r.Close()
	}
}
