package mcap

import (
	"bytes"
	"encoding/binary"
	"fmt"
	"hash/crc32"
	"io"
	"testing"
)

// A caller-supplied chunk compressor whose streams start with a header that differs from stream to
// stream, and which writes that header as soon as the stream is opened, i.e. inside Reset. (Stream
// formats that open with a header are common; xz.NewWriter, for one, emits its header at once, and
// an encrypting "compressor" would put a fresh nonce there.) Here the header is an 8-byte key and
// the body is the data XORed with the low byte of the key.
type finding1Keyed struct {
	w   io.Writer
	key uint64
}

func (k *finding1Keyed) Reset(w io.Writer) {
	k.w = w
	k.key += 0x0101010101010101 // a new key for every stream
	var hdr [8]byte
	binary.LittleEndian.PutUint64(hdr[:], k.key)
	_, _ = w.Write(hdr[:])
}

func (k *finding1Keyed) Write(p []byte) (int, error) {
	q := make([]byte, len(p))
	for i := range p {
		q[i] = p[i] ^ byte(k.key)
	}
	if _, err := k.w.Write(q); err != nil {
		return 0, err
	}
	return len(p), nil
}

func (k *finding1Keyed) Close() error { return nil }

// the matching decompressor, applied to a whole chunk `records` field.
func finding1Decode(raw []byte) ([]byte, error) {
	if len(raw) < 8 {
		return nil, fmt.Errorf("stream shorter than its header")
	}
	key := binary.LittleEndian.Uint64(raw)
	out := make([]byte, len(raw)-8)
	for i := range out {
		out[i] = raw[8+i] ^ byte(key)
	}
	return out, nil
}

// TestFindingCustomCompressorChunkOverwritten: C05 (only schema/channel/message records inside
// chunks, every size exact) and C06 (every chunk's uncompressed-data CRC equals the CRC-32 of the
// chunk's uncompressed data), quantified over "a caller-supplied compressor paired with the
// matching caller-supplied decompressor".
//
// flushActiveChunk takes chunk.Records = w.compressed.Bytes(), then resets w.compressed and points
// the compressor at it again, and only afterwards writes chunk.Records to the output. Whatever the
// compressor emits while being reset lands in the same backing array, i.e. on top of the first
// bytes of the chunk that is about to be written.
func TestFindingCustomCompressorChunkOverwritten(t *testing.T) {
	buf := &bytes.Buffer{}
	w, err := NewWriter(buf, &WriterOptions{
		Chunked:    true,
		ChunkSize:  64,
		IncludeCRC: true,
		Compressor: NewCustomCompressor("keyed", &finding1Keyed{}),
	})
	if err != nil {
		t.Fatal(err)
	}
	if err := w.WriteHeader(&Header{}); err != nil {
		t.Fatal(err)
	}
	if err := w.WriteSchema(&Schema{ID: 1, Name: "s", Encoding: "e", Data: []byte("schema")}); err != nil {
		t.Fatal(err)
	}
	if err := w.WriteChannel(&Channel{ID: 1, SchemaID: 1, Topic: "topic", MessageEncoding: "enc"}); err != nil {
		t.Fatal(err)
	}
	const messages = 6
	for i := 0; i < messages; i++ {
		err := w.WriteMessage(&Message{ChannelID: 1, Sequence: uint32(i), LogTime: uint64(100 + i), PublishTime: uint64(i), Data: bytes.Repeat([]byte{byte(i)}, 40)})
		if err != nil {
			t.Fatal(err)
		}
	}
	if err := w.Close(); err != nil {
		t.Fatal(err)
	}

	// Decode the file from the specification, without the package's parsers.
	b := buf.Bytes()
	p := 8
	chunks, seenMessages := 0, 0
	for p < len(b)-8 {
		op := b[p]
		n := int(binary.LittleEndian.Uint64(b[p+1:]))
		body := b[p+9 : p+9+n]
		recordAt := p
		p += 9 + n
		if op == byte(OpDataEnd) {
			break
		}
		if op != byte(OpChunk) {
			continue
		}
		chunks++
		uncompressedSize := binary.LittleEndian.Uint64(body[16:])
		crc := binary.LittleEndian.Uint32(body[24:])
		clen := int(binary.LittleEndian.Uint32(body[28:]))
		if got := string(body[32 : 32+clen]); got != "keyed" {
			t.Fatalf("chunk at %d: compression %q", recordAt, got)
		}
		rlen := int(binary.LittleEndian.Uint64(body[32+clen:]))
		raw := body[40+clen : 40+clen+rlen]
		data, err := finding1Decode(raw)
		if err != nil {
			t.Fatalf("chunk at %d: %v", recordAt, err)
		}
		if uint64(len(data)) != uncompressedSize {
			t.Errorf("chunk at %d: uncompressed_size %d, the records decompress to %d bytes", recordAt, uncompressedSize, len(data))
		}
		if sum := crc32.ChecksumIEEE(data); sum != crc {
			t.Errorf("chunk at %d: uncompressed_crc %08x, but the CRC-32 of the chunk's uncompressed records is %08x", recordAt, crc, sum)
		}
		// the chunk must hold well-formed schema/channel/message records only
		q := 0
		for q < len(data) {
			if len(data)-q < 9 {
				t.Errorf("chunk at %d: truncated record header inside the chunk at %d", recordAt, q)
				break
			}
			iop := data[q]
			in := binary.LittleEndian.Uint64(data[q+1:])
			if iop != byte(OpSchema) && iop != byte(OpChannel) && iop != byte(OpMessage) {
				t.Errorf("chunk at %d: record with opcode %#x inside the chunk at %d", recordAt, iop, q)
				break
			}
			if in > uint64(len(data)-q-9) {
				t.Errorf("chunk at %d: record at %d claims %d bytes, %d remain", recordAt, q, in, len(data)-q-9)
				break
			}
			if iop == byte(OpMessage) {
				seenMessages++
			}
			q += 9 + int(in)
		}
	}
	if chunks < 2 {
		t.Fatalf("expected several chunks, got %d", chunks)
	}
	if seenMessages != messages {
		t.Errorf("%d messages were written, %d message records can be decoded from the chunks", messages, seenMessages)
	}
}
