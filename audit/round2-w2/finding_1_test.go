package mcap

import (
	"bytes"
	"encoding/binary"
	"runtime"
	"testing"
)

// C10: "never requests memory beyond its documented ceilings - 2 GiB for any single buffer, and the
// caller-configured record and chunk size limits where those are set - merely because a length,
// size or offset field in the input says so."
//
// A 138-byte file holds one zstd chunk whose declared uncompressed size is 1 byte. The zstd frame
// header inside it carries Window_Descriptor 0x98, i.e. a 512 MiB window. The caller has set
// MaxRecordSize = MaxDecompressedChunkSize = 1 MiB. Lexing the file nevertheless allocates
// 513 MiB (the streaming zstd decoder sizes its history buffer from the window field before it has
// seen a single byte of block data).
func TestFindingZstdWindowIgnoresChunkLimit(t *testing.T) {
	u32 := func(v uint32) []byte { b := make([]byte, 4); binary.LittleEndian.PutUint32(b, v); return b }
	u64 := func(v uint64) []byte { b := make([]byte, 8); binary.LittleEndian.PutUint64(b, v); return b }
	str := func(s string) []byte { return append(u32(uint32(len(s))), s...) }
	rec := func(op OpCode, body []byte) []byte {
		return append(append([]byte{byte(op)}, u64(uint64(len(body)))...), body...)
	}
	cat := func(parts ...[]byte) []byte { return bytes.Join(parts, nil) }

	// zstd frame: magic, frame header descriptor 0x00 (no FCS, not single-segment),
	// window descriptor 0x98 (exponent 19 -> 2^29 bytes), one last raw block of 1 byte ('A').
	frame := []byte{0x28, 0xB5, 0x2F, 0xFD, 0x00, 0x98, 0x09, 0x00, 0x00, 0x41}
	chunk := rec(OpChunk, cat(u64(0), u64(0), u64(1) /* uncompressed size */, u32(0), str("zstd"), u64(uint64(len(frame))), frame))
	file := cat(Magic, rec(OpHeader, cat(str(""), str(""))), chunk, rec(OpDataEnd, u32(0)),
		rec(OpFooter, cat(u64(0), u64(0), u32(0))), Magic)

	const limit = 1 << 20
	for _, validate := range []bool{false, true} {
		var before, after runtime.MemStats
		runtime.GC()
		runtime.ReadMemStats(&before)
		lexer, err := NewLexer(bytes.NewReader(file), &LexerOptions{
			ValidateChunkCRCs:        validate,
			MaxRecordSize:            limit,
			MaxDecompressedChunkSize: limit,
		})
		if err != nil {
			t.Fatal(err)
		}
		for i := 0; i < 100; i++ {
			if _, _, err := lexer.Next(nil); err != nil {
				break // an error is a perfectly good outcome
			}
		}
		lexer.Close()
		runtime.ReadMemStats(&after)
		allocated := after.TotalAlloc - before.TotalAlloc
		t.Logf("ValidateChunkCRCs=%v: %d-byte file, limits %d: allocated %d bytes", validate, len(file), limit, allocated)
		// 16x the configured limits is already far more than any bookkeeping could justify.
		if allocated > 16*limit {
			t.Errorf("ValidateChunkCRCs=%v: lexing a %d-byte file with MaxRecordSize=MaxDecompressedChunkSize=%d allocated %d bytes (%d MiB) because of a window size field in the input",
				validate, len(file), limit, allocated, allocated>>20)
		}
	}
}
