package mcap

import (
	"bytes"
	"encoding/binary"
	"runtime"
	"testing"
)

// C10: "never requests memory beyond ... the caller-configured record and chunk size limits where
// those are set - merely because a length, size or offset field in the input says so."
//
// With ValidateChunkCRCs the lexer sizes its decompression buffer at TWICE the chunk's declared
// uncompressed size. A 124-byte file whose single (empty) chunk declares exactly
// MaxDecompressedChunkSize bytes therefore makes the lexer request 2 x MaxDecompressedChunkSize,
// although not one byte of chunk data exists.
func TestFindingValidatingLexerAllocatesTwiceTheChunkLimit(t *testing.T) {
	u32 := func(v uint32) []byte { b := make([]byte, 4); binary.LittleEndian.PutUint32(b, v); return b }
	u64 := func(v uint64) []byte { b := make([]byte, 8); binary.LittleEndian.PutUint64(b, v); return b }
	str := func(s string) []byte { return append(u32(uint32(len(s))), s...) }
	rec := func(op OpCode, body []byte) []byte {
		return append(append([]byte{byte(op)}, u64(uint64(len(body)))...), body...)
	}
	cat := func(parts ...[]byte) []byte { return bytes.Join(parts, nil) }

	const limit = 32 << 20
	chunk := rec(OpChunk, cat(u64(0), u64(0), u64(limit) /* declared uncompressed size */, u32(0), str(""), u64(0) /* records length */))
	file := cat(Magic, rec(OpHeader, cat(str(""), str(""))), chunk, rec(OpDataEnd, u32(0)),
		rec(OpFooter, cat(u64(0), u64(0), u32(0))), Magic)

	var before, after runtime.MemStats
	runtime.GC()
	runtime.ReadMemStats(&before)
	lexer, err := NewLexer(bytes.NewReader(file), &LexerOptions{
		ValidateChunkCRCs:        true,
		MaxRecordSize:            limit,
		MaxDecompressedChunkSize: limit,
	})
	if err != nil {
		t.Fatal(err)
	}
	var lexErr error
	for i := 0; i < 100; i++ {
		if _, _, lexErr = lexer.Next(nil); lexErr != nil {
			break
		}
	}
	lexer.Close()
	runtime.ReadMemStats(&after)
	allocated := after.TotalAlloc - before.TotalAlloc
	t.Logf("%d-byte file, chunk limit %d: allocated %d bytes, lexer ended with: %v", len(file), limit, allocated, lexErr)
	if allocated > limit+(1<<20) {
		t.Errorf("lexing a %d-byte file with MaxDecompressedChunkSize=%d allocated %d bytes: more than the configured chunk limit, for a chunk that holds no data at all",
			len(file), limit, allocated)
	}
}
