package mcap

import (
	"bytes"
	"encoding/binary"
	"errors"
	"fmt"
	"io"
	"os"
	"os/exec"
	"runtime"
	"syscall"
	"testing"

	"github.com/klauspost/compress/zstd"
)

// C10 (title: "No input can crash or exhaust the process; bad files yield errors"): iterating the
// messages of any byte string "in any mode and order terminates by returning data or an error: the
// library ... never terminates the process".
//
// The file built here is about 16 KiB. It holds ONE zstd chunk that decompresses to 64 MiB (one
// 31-byte message followed by one unknown-opcode record full of zeros) and a summary with 128
// chunk index records that all designate that same chunk, each claiming the time range [0, 10].
// Read in log-time order, the indexed iterator loads every chunk whose start time precedes the
// first pending message before it yields anything; each load takes a fresh 64 MiB slot because the
// previous slots still hold an unread message. So 128 x 64 MiB = 8 GiB are wanted at once - no
// single buffer is anywhere near 2 GiB, nothing in the input is large, and the amount scales
// linearly with the number of 70-byte chunk index records (and with the declared chunk size, up
// to 2 GiB per index record: 1000 records, 70 KB, ask for 2 TB).
// The child process caps its address space at 3 GiB - more than the documented 2 GiB ceiling for a
// single buffer, so a ceiling-sized request alone would survive - and the Go runtime aborts with
// "out of memory" instead of the library returning an error. The same file with 2 index records
// is read without trouble under the same cap.
const finding3Env = "MCAP_FINDING3_CHILD_INPUT"

func finding3File(t testing.TB, slotSize, copies int) []byte {
	u16 := func(v uint16) []byte { b := make([]byte, 2); binary.LittleEndian.PutUint16(b, v); return b }
	u32 := func(v uint32) []byte { b := make([]byte, 4); binary.LittleEndian.PutUint32(b, v); return b }
	u64 := func(v uint64) []byte { b := make([]byte, 8); binary.LittleEndian.PutUint64(b, v); return b }
	str := func(s string) []byte { return append(u32(uint32(len(s))), s...) }
	cat := func(parts ...[]byte) []byte { return bytes.Join(parts, nil) }
	rec := func(op OpCode, body []byte) []byte { return cat([]byte{byte(op)}, u64(uint64(len(body))), body) }

	channel := rec(OpChannel, cat(u16(0), u16(0), str("/t"), str(""), u32(0)))
	message := rec(OpMessage, cat(u16(0), u32(0), u64(5), u64(5)))
	filler := cat([]byte{0x80}, u64(uint64(slotSize-len(message)-9)), make([]byte, slotSize-len(message)-9))
	content := cat(message, filler)
	enc, err := zstd.NewWriter(nil)
	if err != nil {
		t.Fatal(err)
	}
	compressed := enc.EncodeAll(content, nil)
	enc.Close()

	chunk := rec(OpChunk, cat(u64(0), u64(10), u64(uint64(len(content))), u32(0), str("zstd"), u64(uint64(len(compressed))), compressed))
	head := cat(Magic, rec(OpHeader, cat(str(""), str(""))))
	chunkOffset := uint64(len(head))
	data := cat(head, chunk, rec(OpDataEnd, u32(0)))
	summaryStart := uint64(len(data))
	summary := channel
	for i := 0; i < copies; i++ {
		summary = cat(summary, rec(OpChunkIndex, cat(u64(0), u64(10), u64(chunkOffset), u64(uint64(len(chunk))),
			u32(0), u64(0), str("zstd"), u64(uint64(len(compressed))), u64(uint64(len(content))))))
	}
	return cat(data, summary, rec(OpFooter, cat(u64(summaryStart), u64(0), u32(0))), Magic)
}

func TestFindingManyIndexesOneChunkExhaustMemory(t *testing.T) {
	const slotSize = 64 << 20
	const addressSpace = 3 << 30
	if path := os.Getenv(finding3Env); path != "" {
		// child: cap the address space, then read the file as any caller would
		file, err := os.ReadFile(path)
		if err != nil {
			fmt.Println("CHILD-SKIP", err)
			return
		}
		limit := syscall.Rlimit{Cur: addressSpace, Max: addressSpace}
		if err := syscall.Setrlimit(syscall.RLIMIT_AS, &limit); err != nil {
			fmt.Println("CHILD-SKIP setrlimit:", err)
			return
		}
		reader, err := NewReader(bytes.NewReader(file))
		if err != nil {
			fmt.Println("CHILD-OK error:", err)
			return
		}
		it, err := reader.Messages(UsingIndex(true), InOrder(LogTimeOrder))
		if err != nil {
			fmt.Println("CHILD-OK error:", err)
			return
		}
		n := 0
		for {
			_, _, _, err := it.NextInto(nil)
			if errors.Is(err, io.EOF) {
				break
			}
			if err != nil {
				fmt.Println("CHILD-OK error:", err)
				return
			}
			n++
		}
		fmt.Println("CHILD-OK messages:", n)
		return
	}

	run := func(copies int) (int, []byte, error) {
		file := finding3File(t, slotSize, copies)
		path := t.TempDir() + "/input.mcap"
		if err := os.WriteFile(path, file, 0o600); err != nil {
			t.Fatal(err)
		}
		cmd := exec.Command(os.Args[0], "-test.run", "^TestFindingManyIndexesOneChunkExhaustMemory$", "-test.v")
		cmd.Env = append(os.Environ(), finding3Env+"="+path)
		out, err := cmd.CombinedOutput()
		return len(file), out, err
	}

	// control: the same file with two index records is read without trouble under the same cap
	size, out, err := run(2)
	if bytes.Contains(out, []byte("CHILD-SKIP")) {
		t.Skipf("cannot set up the child process here: %s", out)
	}
	if err != nil || !bytes.Contains(out, []byte("CHILD-OK messages: 2")) {
		t.Skipf("control run (2 chunk indexes, %d bytes) failed under a %d-byte address space, the cap is unusable here: %v\n%s", size, addressSpace, err, out)
	}
	t.Logf("control: %d-byte file with 2 chunk index records read fine under a %d GiB address space", size, addressSpace>>30)

	const copies = 128
	size, out, err = run(copies)
	text := string(out)
	if len(text) > 1200 {
		text = text[:1200] + "\n...[truncated]"
	}
	t.Logf("file is %d bytes; its only chunk decompresses to %d MiB; %d chunk index records designate it", size, slotSize>>20, copies)
	if err != nil || !bytes.Contains(out, []byte("CHILD-OK")) {
		t.Errorf("reading a %d-byte file in log-time order in a process with a %d GiB address space did not end with data or an error; the process died (%v, GOOS=%s):\n%s",
			size, addressSpace>>30, err, runtime.GOOS, text)
	}
}
