package mcap

import (
	"bytes"
	"errors"
	"io"
	"testing"
)

// C04: "A read restricted to a set of topics and a time window returns precisely those messages of
// the full read ... identically with and without the index ... With no restriction given, every
// message is returned."
//
// History: one Reader over a seekable source, on which something else (Info, an earlier Messages
// read) happened before Messages(UsingIndex(false)) is called. The non-indexed read then starts
// wherever the earlier call left the stream and silently returns no (or only some) messages.
func finding1File(t *testing.T) []byte {
	t.Helper()
	var out bytes.Buffer
	w, err := NewWriter(&out, &WriterOptions{Chunked: true, ChunkSize: 64})
	if err != nil {
		t.Fatal(err)
	}
	if err := w.WriteHeader(&Header{}); err != nil {
		t.Fatal(err)
	}
	if err := w.WriteChannel(&Channel{ID: 1, Topic: "/a"}); err != nil {
		t.Fatal(err)
	}
	for i := 0; i < 9; i++ {
		if err := w.WriteMessage(&Message{ChannelID: 1, Sequence: uint32(i), LogTime: uint64(10 + i), Data: make([]byte, 40)}); err != nil {
			t.Fatal(err)
		}
	}
	if err := w.Close(); err != nil {
		t.Fatal(err)
	}
	return out.Bytes()
}

func finding1Count(t *testing.T, it MessageIterator) int {
	t.Helper()
	n := 0
	for {
		_, _, _, err := it.NextInto(nil)
		if errors.Is(err, io.EOF) {
			return n
		}
		if err != nil {
			t.Fatalf("read error: %v", err)
		}
		n++
	}
}

func TestFinding1NonIndexedReadAfterInfo(t *testing.T) {
	data := finding1File(t)
	r, err := NewReader(bytes.NewReader(data))
	if err != nil {
		t.Fatal(err)
	}
	defer r.Close()
	if _, err := r.Info(); err != nil {
		t.Fatal(err)
	}
	it, err := r.Messages(UsingIndex(false))
	if err != nil {
		t.Fatal(err)
	}
	if n := finding1Count(t, it); n != 9 {
		t.Errorf("Messages(UsingIndex(false)) after Info(): got %d messages, the file holds 9 (no error reported)", n)
	}
}

func TestFinding1NonIndexedReadAfterIndexedRead(t *testing.T) {
	data := finding1File(t)
	r, err := NewReader(bytes.NewReader(data))
	if err != nil {
		t.Fatal(err)
	}
	defer r.Close()
	it, err := r.Messages(UsingIndex(true), InOrder(LogTimeOrder))
	if err != nil {
		t.Fatal(err)
	}
	withIndex := finding1Count(t, it)
	it, err = r.Messages(UsingIndex(false))
	if err != nil {
		t.Fatal(err)
	}
	withoutIndex := finding1Count(t, it)
	if withIndex != 9 || withoutIndex != withIndex {
		t.Errorf("same reader, same (empty) selection: %d messages with the index, %d without", withIndex, withoutIndex)
	}
}

func TestFinding1NonIndexedReadRepeated(t *testing.T) {
	data := finding1File(t)
	r, err := NewReader(bytes.NewReader(data))
	if err != nil {
		t.Fatal(err)
	}
	defer r.Close()
	var counts []int
	for i := 0; i < 2; i++ {
		it, err := r.Messages(UsingIndex(false))
		if err != nil {
			t.Fatal(err)
		}
		counts = append(counts, finding1Count(t, it))
	}
	if counts[0] != 9 || counts[1] != 9 {
		t.Errorf("two non-indexed reads on one reader returned %v messages, want [9 9]", counts)
	}
}

// Same family, on the path that was already repaired for "Messages() after Info() on non-indexed
// files": the file is chunked but carries no chunk index (WriterOptions.SkipChunkIndex), so
// Messages() falls back to the sequential read and seeks to the start of the data - but the
// reader's lexer is still inside the chunk the abandoned first iterator stopped in.
func TestFinding1SecondReadAfterAbandonedRead(t *testing.T) {
	for _, comp := range []CompressionFormat{CompressionNone, CompressionLZ4} {
		var out bytes.Buffer
		w, err := NewWriter(&out, &WriterOptions{Chunked: true, ChunkSize: 200, SkipChunkIndex: true, Compression: comp})
		if err != nil {
			t.Fatal(err)
		}
		if err := w.WriteHeader(&Header{}); err != nil {
			t.Fatal(err)
		}
		if err := w.WriteChannel(&Channel{ID: 1, Topic: "/a"}); err != nil {
			t.Fatal(err)
		}
		for i := 0; i < 9; i++ {
			if err := w.WriteMessage(&Message{ChannelID: 1, Sequence: uint32(i), LogTime: uint64(10 + i), Data: make([]byte, 40)}); err != nil {
				t.Fatal(err)
			}
		}
		if err := w.Close(); err != nil {
			t.Fatal(err)
		}
		r, err := NewReader(bytes.NewReader(out.Bytes()))
		if err != nil {
			t.Fatal(err)
		}
		first, err := r.Messages()
		if err != nil {
			t.Fatal(err)
		}
		if _, _, _, err := first.NextInto(nil); err != nil { // look at one message, then start over
			t.Fatal(err)
		}
		second, err := r.Messages()
		if err != nil {
			t.Fatal(err)
		}
		n := 0
		for {
			_, _, _, err := second.NextInto(nil)
			if errors.Is(err, io.EOF) {
				break
			}
			if err != nil {
				t.Errorf("compression %q: second read fails after %d messages: %v", comp, n, err)
				break
			}
			n++
		}
		if n != 9 {
			t.Errorf("compression %q: second read returned %d messages, the file holds 9", comp, n)
		}
		r.Close()
	}
}

// With zstd the stale decoder does not fail: the second read first returns the rest of the chunk
// the first iterator stopped in and then the whole file - messages twice ("none extra").
func TestFinding1SecondReadReturnsMessagesTwice(t *testing.T) {
	var out bytes.Buffer
	w, err := NewWriter(&out, &WriterOptions{Chunked: true, ChunkSize: 1 << 20, SkipChunkIndex: true, Compression: CompressionZSTD})
	if err != nil {
		t.Fatal(err)
	}
	if err := w.WriteHeader(&Header{}); err != nil {
		t.Fatal(err)
	}
	steps := []error{
		w.WriteChannel(&Channel{ID: 1, Topic: "/a"}),
		w.WriteMessage(&Message{ChannelID: 1, Sequence: 0, LogTime: 1}),
		w.WriteChannel(&Channel{ID: 2, Topic: "/b"}),
		w.WriteMessage(&Message{ChannelID: 2, Sequence: 1, LogTime: 2}),
		w.WriteMessage(&Message{ChannelID: 2, Sequence: 2, LogTime: 3}),
		w.Close(),
	}
	for _, err := range steps {
		if err != nil {
			t.Fatal(err)
		}
	}
	r, err := NewReader(bytes.NewReader(out.Bytes()))
	if err != nil {
		t.Fatal(err)
	}
	defer r.Close()
	first, err := r.Messages()
	if err != nil {
		t.Fatal(err)
	}
	if _, _, _, err := first.NextInto(nil); err != nil {
		t.Fatal(err)
	}
	second, err := r.Messages()
	if err != nil {
		t.Fatal(err)
	}
	var seqs []uint32
	for {
		_, _, m, err := second.NextInto(nil)
		if errors.Is(err, io.EOF) {
			break
		}
		if err != nil {
			t.Fatalf("second read: %v", err)
		}
		seqs = append(seqs, m.Sequence)
	}
	if len(seqs) != 3 || seqs[0] != 0 || seqs[1] != 1 || seqs[2] != 2 {
		t.Errorf("second read returned sequence numbers %v, want [0 1 2]", seqs)
	}
}
