package mcap

import (
	"bytes"
	"errors"
	"io"
	"testing"
)

// C04: "every way the API offers to express a window means the same window."
//
// ReadOptions.Finalize treats StartNanos==0 / EndNanos==0 as "not given" and then falls back to the
// deprecated Start / End fields. After()/Before() leave those fields set, so a later
// AfterNanos(0) / BeforeNanos(0) in the same option list is silently undone, and a ReadOpt that
// fills the deprecated fields has its Start honoured but its End ignored (EndNanos defaults to
// MaxUint64, never 0).
func finding2Times(t *testing.T, opts ...ReadOpt) []uint64 {
	t.Helper()
	var out bytes.Buffer
	w, err := NewWriter(&out, &WriterOptions{Chunked: true, ChunkSize: 64})
	if err != nil {
		t.Fatal(err)
	}
	if err := w.WriteHeader(&Header{}); err != nil {
		t.Fatal(err)
	}
	if err := w.WriteChannel(&Channel{ID: 1, Topic: "/a"}); err != nil {
		t.Fatal(err)
	}
	for i := 0; i < 30; i += 5 { // log times 0 5 10 15 20 25
		if err := w.WriteMessage(&Message{ChannelID: 1, LogTime: uint64(i), Data: make([]byte, 40)}); err != nil {
			t.Fatal(err)
		}
	}
	if err := w.Close(); err != nil {
		t.Fatal(err)
	}
	r, err := NewReader(bytes.NewReader(out.Bytes()))
	if err != nil {
		t.Fatal(err)
	}
	defer r.Close()
	it, err := r.Messages(opts...)
	if err != nil {
		t.Fatalf("Messages: %v", err)
	}
	times := []uint64{}
	for {
		_, _, m, err := it.NextInto(nil)
		if errors.Is(err, io.EOF) {
			return times
		}
		if err != nil {
			t.Fatal(err)
		}
		times = append(times, m.LogTime)
	}
}

func equalTimes(a, b []uint64) bool {
	if len(a) != len(b) {
		return false
	}
	for i := range a {
		if a[i] != b[i] {
			return false
		}
	}
	return true
}

func TestFinding2LaterNanosStartOfZeroIsUndone(t *testing.T) {
	// the last start given is 0: window [0, 2^64-1)
	want := finding2Times(t, AfterNanos(10), AfterNanos(0))
	got := finding2Times(t, After(10), AfterNanos(0))
	if !equalTimes(got, want) {
		t.Errorf("After(10),AfterNanos(0) returned %v; AfterNanos(10),AfterNanos(0) returned %v", got, want)
	}
}

func TestFinding2LaterNanosEndOfZeroIsUndone(t *testing.T) {
	// the last end given is 0: window [0,0), empty
	want := finding2Times(t, BeforeNanos(10), BeforeNanos(0))
	got := finding2Times(t, Before(10), BeforeNanos(0))
	if !equalTimes(got, want) {
		t.Errorf("Before(10),BeforeNanos(0) returned %v; BeforeNanos(10),BeforeNanos(0) returned %v", got, want)
	}
}

func TestFinding2DeprecatedEndFieldIgnored(t *testing.T) {
	// the deprecated fields of the exported ReadOptions struct, set by a caller's own ReadOpt
	want := finding2Times(t, AfterNanos(10), BeforeNanos(20))
	got := finding2Times(t, func(ro *ReadOptions) error { ro.Start = 10; ro.End = 20; return nil })
	if !equalTimes(got, want) {
		t.Errorf("ReadOptions{Start:10, End:20} returned %v; AfterNanos(10),BeforeNanos(20) returned %v", got, want)
	}
}
