package mcap

import (
	"bytes"
	"errors"
	"io"
	"testing"
)

// C04: "... identically with and without the index and in every read order."
//
// A file written by this package's Writer with WriterOptions.SkipRepeatedSchemas (chunk indexes and
// channels are in the summary, schemas are not) reads fine without the index, but every index-based
// read fails on the first message with "channel N with unrecognized schema ID M".
// DEBATABLE: the spec says schemas MUST be repeated in the summary of an indexed file, so the
// writer option produces a file the spec does not allow; but it is this library's own documented
// option, the reader already falls back to a sequential read for the sibling option
// SkipRepeatedChannelInfos (Info.CanReadMessagesUsingIndex), and Messages() with no options fails.
func TestFinding3SkipRepeatedSchemas(t *testing.T) {
	var out bytes.Buffer
	w, err := NewWriter(&out, &WriterOptions{Chunked: true, ChunkSize: 64, SkipRepeatedSchemas: true})
	if err != nil {
		t.Fatal(err)
	}
	if err := w.WriteHeader(&Header{}); err != nil {
		t.Fatal(err)
	}
	if err := w.WriteSchema(&Schema{ID: 1, Name: "s", Encoding: "e", Data: []byte{1}}); err != nil {
		t.Fatal(err)
	}
	if err := w.WriteChannel(&Channel{ID: 1, SchemaID: 1, Topic: "/a"}); err != nil {
		t.Fatal(err)
	}
	for i := 0; i < 6; i++ {
		if err := w.WriteMessage(&Message{ChannelID: 1, Sequence: uint32(i), LogTime: uint64(i), Data: make([]byte, 40)}); err != nil {
			t.Fatal(err)
		}
	}
	if err := w.Close(); err != nil {
		t.Fatal(err)
	}
	count := func(opts ...ReadOpt) (int, error) {
		r, err := NewReader(bytes.NewReader(out.Bytes()))
		if err != nil {
			return 0, err
		}
		defer r.Close()
		it, err := r.Messages(opts...)
		if err != nil {
			return 0, err
		}
		n := 0
		for {
			_, _, _, err := it.NextInto(nil)
			if errors.Is(err, io.EOF) {
				return n, nil
			}
			if err != nil {
				return n, err
			}
			n++
		}
	}
	without, err := count(UsingIndex(false))
	if err != nil || without != 6 {
		t.Fatalf("non-indexed read: %d messages, err %v", without, err)
	}
	for _, opts := range [][]ReadOpt{nil, {InOrder(LogTimeOrder)}, {InOrder(ReverseLogTimeOrder)}} {
		with, err := count(opts...)
		if err != nil || with != without {
			t.Errorf("read with the index (%d options): %d messages, err %v; without the index: %d messages", len(opts), with, err, without)
		}
	}
}
