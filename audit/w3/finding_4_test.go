package mcap

import (
	"bytes"
	"encoding/binary"
	"errors"
	"io"
	"testing"
)

// C04: "... none missing, none extra - identically with and without the index".
//
// A file whose data section holds Message records both inside an indexed chunk and directly in the
// data section (built here with the public Writer API: Chunked=false + WriteChunkWithIndexes). The
// index-based read silently returns only the chunked message; the non-indexed read returns all.
// DEBATABLE: the spec allows the layout but discourages it ("all Message records should be written
// into Chunk records ... may not be found by readers using the index").
func TestFinding4MessagesOutsideChunks(t *testing.T) {
	var out bytes.Buffer
	w, err := NewWriter(&out, &WriterOptions{Chunked: false})
	if err != nil {
		t.Fatal(err)
	}
	if err := w.WriteHeader(&Header{}); err != nil {
		t.Fatal(err)
	}
	if err := w.WriteChannel(&Channel{ID: 1, Topic: "/a"}); err != nil {
		t.Fatal(err)
	}
	if err := w.WriteMessage(&Message{ChannelID: 1, Sequence: 0, LogTime: 5}); err != nil {
		t.Fatal(err)
	}
	// one message record, log time 7, inside a chunk
	body := make([]byte, 2+4+8+8)
	binary.LittleEndian.PutUint16(body[0:], 1)
	binary.LittleEndian.PutUint32(body[2:], 1)
	binary.LittleEndian.PutUint64(body[6:], 7)
	binary.LittleEndian.PutUint64(body[14:], 7)
	rec := make([]byte, 9, 9+len(body))
	rec[0] = byte(OpMessage)
	binary.LittleEndian.PutUint64(rec[1:], uint64(len(body)))
	rec = append(rec, body...)
	if err := w.WriteChunkWithIndexes(&Chunk{MessageStartTime: 7, MessageEndTime: 7, UncompressedSize: uint64(len(rec)), Records: rec}, nil); err != nil {
		t.Fatal(err)
	}
	if err := w.WriteMessage(&Message{ChannelID: 1, Sequence: 2, LogTime: 9}); err != nil {
		t.Fatal(err)
	}
	if err := w.Close(); err != nil {
		t.Fatal(err)
	}
	times := func(opts ...ReadOpt) []uint64 {
		r, err := NewReader(bytes.NewReader(out.Bytes()))
		if err != nil {
			t.Fatal(err)
		}
		defer r.Close()
		it, err := r.Messages(opts...)
		if err != nil {
			t.Fatal(err)
		}
		var ts []uint64
		for {
			_, _, m, err := it.NextInto(nil)
			if errors.Is(err, io.EOF) {
				return ts
			}
			if err != nil {
				t.Fatal(err)
			}
			ts = append(ts, m.LogTime)
		}
	}
	without := times(UsingIndex(false))
	with := times(UsingIndex(true))
	if len(without) != 3 {
		t.Fatalf("non-indexed read returned %v", without)
	}
	if len(with) != len(without) {
		t.Errorf("with the index: log times %v; without the index: %v", with, without)
	}
}
