package mcap

// Finding 1 (C16, clause "any file written by the Python writer is read by the Go lexer and readers as
// exactly what Python wrote: ... messages with all fields ... and statistics").
//
// A caller that takes the statistics from Reader.Info() and then reads the messages with the
// non-indexed (streaming) reader of the same Reader - Messages(UsingIndex(false)) - gets a clean
// io.EOF and ZERO messages, for every file (Python-written or Go-written, chunked or not).
// Commit 30fffd3 repaired only the implicit fall-back path of Messages(); the explicit
// UsingIndex(false) path still starts at whatever offset Info()/GetMetadata()/GetAttachmentReader()
// or a previous Messages() iteration left the stream at.
//
// The file below was produced by the repository's Python writer:
//
//	w = Writer(b, chunk_size=60, compression=CompressionType.NONE, index_types=IndexType.ALL, enable_data_crcs=True)
//	w.start("p", "mcap-python/test")
//	s = w.register_schema("S", "enc", b"\x01\x02")
//	c1 = w.register_channel("/a", "json", s, {"k": "v"}); c2 = w.register_channel("/b", "json", 0)
//	for i in range(6): w.add_message(c1 if i % 2 == 0 else c2, 10 + i, bytes([i]) * 5, 20 + i, i)
//	w.add_metadata("md", {"x": "y"}); w.add_attachment(2, 1, "att", "text/plain", b"abc"); w.finish()

import (
	"bytes"
	"encoding/hex"
	"errors"
	"io"
	"testing"
)

const finding1PythonFileHex = "" +
	"894d434150300d0a0119000000000000000100000070100000006d6361702d707974686f6e2f7465737406b1000000000000000a000000000000000a" +
	"00000000000000890000000000000050cb80bd0000000089000000000000000314000000000000000100010000005303000000656e63020000000102" +
	"04200000000000000001000100020000002f61040000006a736f6e0a000000010000006b010000007604160000000000000002000000020000002f62" +
	"040000006a736f6e00000000051b000000000000000100000000000a0000000000000014000000000000000000000000071600000000000000010010" +
	"0000000a0000000000000065000000000000000670000000000000000b000000000000000c000000000000004800000000000000d3784e6a00000000" +
	"4800000000000000051b000000000000000200010000000b0000000000000015000000000000000101010101051b000000000000000100020000000c" +
	"00000000000000160000000000000002020202020716000000000000000200100000000b000000000000000000000000000000071600000000000000" +
	"0100100000000c0000000000000024000000000000000670000000000000000d000000000000000e000000000000004800000000000000e025c86a00" +
	"0000004800000000000000051b000000000000000200030000000d0000000000000017000000000000000303030303051b0000000000000001000400" +
	"00000e00000000000000180000000000000004040404040716000000000000000200100000000d000000000000000000000000000000071600000000" +
	"0000000100100000000e0000000000000024000000000000000c1400000000000000020000006d640a00000001000000780100000079093400000000" +
	"00000001000000000000000200000000000000030000006174740a000000746578742f706c61696e03000000000000006162632bfeb938064c000000" +
	"000000000f000000000000000f0000000000000024000000000000008897bbc1000000002400000000000000051b000000000000000200050000000f" +
	"00000000000000190000000000000005050505050716000000000000000200100000000f0000000000000000000000000000000f0400000000000000" +
	"f84ff4350314000000000000000100010000005303000000656e6302000000010204200000000000000001000100020000002f61040000006a736f6e" +
	"0a000000010000006b010000007604160000000000000002000000020000002f62040000006a736f6e000000000b4200000000000000060000000000" +
	"00000100020000000100000001000000040000000a000000000000000f00000000000000140000000100030000000000000002000300000000000000" +
	"084a000000000000000a000000000000000a000000000000002a00000000000000ba000000000000000a0000000100e4000000000000001f00000000" +
	"00000000000000890000000000000089000000000000000854000000000000000b000000000000000c00000000000000030100000000000079000000" +
	"000000001400000002007c0100000000000001009b010000000000003e00000000000000000000004800000000000000480000000000000008540000" +
	"00000000000d000000000000000e00000000000000ba0100000000000079000000000000001400000002003302000000000000010052020000000000" +
	"003e000000000000000000000048000000000000004800000000000000084a000000000000000f000000000000000f00000000000000cb0200000000" +
	"000055000000000000000a000000020020030000000000001f0000000000000000000000240000000000000024000000000000000a3d000000000000" +
	"008e020000000000003d00000000000000010000000000000002000000000000000300000000000000030000006174740a000000746578742f706c61" +
	"696e0d160000000000000071020000000000001d00000000000000020000006d640e1100000000000000034c030000000000001d000000000000000e" +
	"110000000000000004690300000000000048000000000000000e11000000000000000bb1030000000000004b000000000000000e1100000000000000" +
	"08fc0300000000000060010000000000000e11000000000000000a5c0500000000000046000000000000000e11000000000000000da2050000000000" +
	"001f000000000000000214000000000000004c03000000000000c10500000000000061d90a82894d434150300d0a"

func finding1Drain(t *testing.T, it MessageIterator) []*Message {
	t.Helper()
	var out []*Message
	for {
		_, _, m, err := it.NextInto(nil)
		if errors.Is(err, io.EOF) {
			return out
		}
		if err != nil {
			t.Fatalf("read error after %d messages: %v", len(out), err)
		}
		out = append(out, m)
	}
}

func TestFinding1PythonFileStatisticsThenStreamingRead(t *testing.T) {
	data, err := hex.DecodeString(finding1PythonFileHex)
	if err != nil {
		t.Fatal(err)
	}

	// reference: a fresh reader, streaming read only
	ref, err := NewReader(bytes.NewReader(data))
	if err != nil {
		t.Fatal(err)
	}
	it, err := ref.Messages(UsingIndex(false))
	if err != nil {
		t.Fatal(err)
	}
	want := finding1Drain(t, it)
	if len(want) != 6 {
		t.Fatalf("fresh streaming read: %d messages, python wrote 6", len(want))
	}

	// the same file: statistics first, then the streaming read, on one Reader
	r, err := NewReader(bytes.NewReader(data))
	if err != nil {
		t.Fatal(err)
	}
	info, err := r.Info()
	if err != nil {
		t.Fatal(err)
	}
	if info.Statistics == nil || info.Statistics.MessageCount != 6 {
		t.Fatalf("statistics: %+v, python wrote 6 messages", info.Statistics)
	}
	it, err = r.Messages(UsingIndex(false))
	if err != nil {
		t.Fatal(err)
	}
	got := finding1Drain(t, it)
	if len(got) != len(want) {
		t.Fatalf("after Info(), Messages(UsingIndex(false)) returned %d messages and a clean io.EOF; "+
			"the file holds %d (statistics say %d)", len(got), len(want), info.Statistics.MessageCount)
	}
	for i := range want {
		if got[i].ChannelID != want[i].ChannelID || got[i].Sequence != want[i].Sequence || got[i].LogTime != want[i].LogTime ||
			got[i].PublishTime != want[i].PublishTime || !bytes.Equal(got[i].Data, want[i].Data) {
			t.Fatalf("message %d differs: %+v vs %+v", i, got[i], want[i])
		}
	}
}

// The same history with the index-based read first: a complete default Messages() pass followed by a
// streaming pass on the same Reader also ends with zero messages.
func TestFinding1PythonFileIndexedThenStreamingRead(t *testing.T) {
	data, err := hex.DecodeString(finding1PythonFileHex)
	if err != nil {
		t.Fatal(err)
	}
	r, err := NewReader(bytes.NewReader(data))
	if err != nil {
		t.Fatal(err)
	}
	it, err := r.Messages()
	if err != nil {
		t.Fatal(err)
	}
	if n := len(finding1Drain(t, it)); n != 6 {
		t.Fatalf("index-based read: %d messages, python wrote 6", n)
	}
	it, err = r.Messages(UsingIndex(false))
	if err != nil {
		t.Fatal(err)
	}
	if n := len(finding1Drain(t, it)); n != 6 {
		t.Fatalf("streaming read after an index-based read on the same Reader: %d messages and a clean io.EOF, python wrote 6", n)
	}
}

// Variant with the same root cause (Messages() does not re-initialise the shared lexer for a new
// sequential pass): a first pass that is abandoned inside a chunk leaves the lexer "in chunk"; the next
// Messages() call seeks back to the start of the data, meets the chunk record again and fails with
// "detected nested chunk" instead of returning the messages.
//
// Python: Writer(b, compression=CompressionType.NONE, index_types=IndexType.NONE); one channel, six messages
// (one chunk, no chunk index, so Messages() reads sequentially).
const finding1PythonFileNoIndexHex = "" +
	"894d434150300d0a0119000000000000000100000070100000006d6361702d707974686f6e2f74657374061f010000000000000a000000000000000f" +
	"00000000000000f700000000000000b10593f700000000f70000000000000004160000000000000001000000020000002f61040000006a736f6e0000" +
	"0000051b000000000000000100000000000a0000000000000014000000000000000000000000051b000000000000000100010000000b000000000000" +
	"0015000000000000000101010101051b000000000000000100020000000c0000000000000016000000000000000202020202051b0000000000000001" +
	"00030000000d0000000000000017000000000000000303030303051b000000000000000100040000000e000000000000001800000000000000040404" +
	"0404051b000000000000000100050000000f00000000000000190000000000000005050505050f040000000000000000000000041600000000000000" +
	"01000000020000002f61040000006a736f6e000000000b380000000000000006000000000000000000010000000000000000000000010000000a0000" +
	"00000000000f000000000000000a000000010006000000000000000e1100000000000000035f0100000000000000000000000000000e110000000000" +
	"0000045f010000000000001f000000000000000e11000000000000000b7e0100000000000041000000000000000214000000000000005f0100000000" +
	"0000bf0100000000000047b4a8db894d434150300d0a"

func TestFinding1PythonFileSecondPassAfterAbandonedPass(t *testing.T) {
	data, err := hex.DecodeString(finding1PythonFileNoIndexHex)
	if err != nil {
		t.Fatal(err)
	}
	r, err := NewReader(bytes.NewReader(data))
	if err != nil {
		t.Fatal(err)
	}
	it, err := r.Messages()
	if err != nil {
		t.Fatal(err)
	}
	for i := 0; i < 2; i++ { // look at the first two messages only
		if _, _, _, err := it.NextInto(nil); err != nil {
			t.Fatal(err)
		}
	}
	it, err = r.Messages()
	if err != nil {
		t.Fatal(err)
	}
	if n := len(finding1Drain(t, it)); n != 6 {
		t.Fatalf("second pass: %d messages, python wrote 6", n)
	}
}
