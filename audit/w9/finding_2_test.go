package mcap

// Finding 2 (C16, clause "any file written by the Python writer is read by the Go lexer and readers as
// exactly what Python wrote"). PYTHON-SIDE defect, reported because the property quantifies over the
// Python writer; nothing in the Go code is at fault.
//
// python/mcap/mcap/writer.py accepts a raw (unbuffered) binary stream explicitly:
//
//	elif isinstance(output, RawIOBase):
//	    self.__stream = BufferedWriter(output)
//
// but finish() never flushes that BufferedWriter ("it does not close the underlying output stream").
// With the usual `with open(path, "wb", buffering=0) as f:` the caller's file is closed while every byte
// (up to the 8 KiB buffer; for larger files the tail) still sits in the private BufferedWriter. The
// file on disk is empty/truncated, and the Go lexer and readers cannot read what Python "wrote".
//
// The test needs python3 and the repository's python/mcap directory; it is skipped without them.

import (
	"errors"
	"io"
	"os"
	"os/exec"
	"path/filepath"
	"testing"
)

const finding2Script = `
import sys
sys.path.insert(0, sys.argv[1])
from mcap.writer import Writer, CompressionType
with open(sys.argv[2], "wb", buffering=0) as f:      # a RawIOBase, which Writer wraps itself
    w = Writer(f, compression=CompressionType.NONE)
    w.start("", "lib")
    c = w.register_channel("/a", "json", 0)
    for i in range(3):
        w.add_message(c, i, b"hello", i)
    w.finish()
del w
`

func TestFinding2PythonWriterOnRawStreamLosesTheFile(t *testing.T) {
	py, err := exec.LookPath("python3")
	if err != nil {
		t.Skip("python3 not available")
	}
	pkg, err := filepath.Abs(filepath.Join("..", "..", "python", "mcap"))
	if err != nil {
		t.Fatal(err)
	}
	if _, err := os.Stat(filepath.Join(pkg, "mcap", "writer.py")); err != nil {
		t.Skip("python/mcap not found next to go/mcap")
	}
	path := filepath.Join(t.TempDir(), "raw.mcap")
	if out, err := exec.Command(py, "-c", finding2Script, pkg, path).CombinedOutput(); err != nil {
		t.Fatalf("python writer failed: %v\n%s", err, out)
	}
	st, err := os.Stat(path)
	if err != nil {
		t.Fatal(err)
	}
	f, err := os.Open(path)
	if err != nil {
		t.Fatal(err)
	}
	defer f.Close()
	r, err := NewReader(f)
	if err != nil {
		t.Fatalf("file written by the Python writer (size %d bytes) cannot be opened by the Go reader: %v", st.Size(), err)
	}
	it, err := r.Messages(UsingIndex(false))
	if err != nil {
		t.Fatal(err)
	}
	n := 0
	for {
		_, _, _, err := it.NextInto(nil)
		if errors.Is(err, io.EOF) {
			break
		}
		if err != nil {
			t.Fatalf("after %d messages: %v", n, err)
		}
		n++
	}
	if n != 3 {
		t.Fatalf("python wrote 3 messages, Go read %d", n)
	}
}
