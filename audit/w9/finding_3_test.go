package main

// Finding 3 (C17, write clause) - DEBATABLE, literal reading only. Belongs in
// go/conformance/test-write-conformance (package main).
//
// C17: "For every vector of the cross-language conformance matrix, the Go write-conformance tool turns
// the vector's description into a file whose record stream - including every offset, length and
// checksum the expectation lists - equals the expected one" (416 vectors, 208 of them padded).
//
// For the 208 padded vectors the tool accepts the "pad" feature (parseOptions: `case
// AddExtraDataToRecords: continue`) but the Go writer cannot emit padding, so every checksum (and,
// where present, every offset and length) of the produced file differs from the expectation.
// The project treats this as unsupported (GoStreamedWriterTestRunner.supportsVariant and
// TestWriterConformance both skip "pad"), so under the runner's reading C17 holds (208/208
// byte-identical); under the statement's literal "for every vector" it does not.

import (
	"bytes"
	"encoding/json"
	"errors"
	"io"
	"io/fs"
	"os"
	"path/filepath"
	"strconv"
	"strings"
	"testing"

	"github.com/foxglove/mcap/go/mcap"
)

func TestFinding3PaddedVectorsWriteTool(t *testing.T) {
	var inputs []string
	err := filepath.Walk("../../../tests/conformance/data", func(path string, info fs.FileInfo, err error) error {
		if err != nil {
			return err
		}
		if !info.IsDir() && filepath.Ext(path) == ".json" {
			for _, f := range strings.Split(strings.TrimSuffix(filepath.Base(path), ".json"), "-")[1:] {
				if f == "pad" {
					inputs = append(inputs, path)
				}
			}
		}
		return nil
	})
	if err != nil {
		t.Fatal(err)
	}
	if len(inputs) != 208 {
		t.Fatalf("expected 208 padded vectors, found %d", len(inputs))
	}
	bad := 0
	for _, input := range inputs {
		raw, err := os.ReadFile(input)
		if err != nil {
			t.Fatal(err)
		}
		var tc TextInput
		if err := json.Unmarshal(raw, &tc); err != nil {
			t.Fatal(err)
		}
		want := map[string]string{} // checksum fields the expectation lists
		for _, rec := range tc.Records {
			for _, f := range rec.Fields {
				if (rec.Type == "DataEnd" && f.Name == "data_section_crc") || (rec.Type == "Footer" && (f.Name == "summary_crc" || f.Name == "summary_start" || f.Name == "summary_offset_start")) {
					want[rec.Type+"."+f.Name] = f.Value.(string)
				}
			}
		}
		out := bytes.Buffer{}
		if err := jsonToMCAP(&out, input); err != nil {
			t.Fatalf("%s: %v", input, err)
		}
		got := map[string]string{}
		lexer, err := mcap.NewLexer(bytes.NewReader(out.Bytes()))
		if err != nil {
			t.Fatal(err)
		}
		for {
			tok, data, err := lexer.Next(nil)
			if errors.Is(err, io.EOF) {
				break
			}
			if err != nil {
				t.Fatal(err)
			}
			switch tok {
			case mcap.TokenDataEnd:
				de, _ := mcap.ParseDataEnd(data)
				got["DataEnd.data_section_crc"] = strconv.FormatUint(uint64(de.DataSectionCRC), 10)
			case mcap.TokenFooter:
				ft, _ := mcap.ParseFooter(data)
				got["Footer.summary_crc"] = strconv.FormatUint(uint64(ft.SummaryCRC), 10)
				got["Footer.summary_start"] = strconv.FormatUint(ft.SummaryStart, 10)
				got["Footer.summary_offset_start"] = strconv.FormatUint(ft.SummaryOffsetStart, 10)
			}
		}
		for k, v := range want {
			if got[k] != v {
				bad++
				if bad <= 5 {
					t.Errorf("%s: %s = %s, expectation lists %s", filepath.Base(input), k, got[k], v)
				}
				break
			}
		}
	}
	if bad > 0 {
		t.Errorf("%d of %d padded vectors: record stream of the written file differs from the expectation", bad, len(inputs))
	}
}
