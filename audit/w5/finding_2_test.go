package mcap

import (
	"bytes"
	"encoding/binary"
	"errors"
	"hash/crc32"
	"io"
	"testing"
)

// forgeCRCSuffix returns the four bytes that, appended to data whose CRC-32 (IEEE) is crcOfPrefix,
// make the CRC-32 of the whole equal to target.
func forgeCRCSuffix(crcOfPrefix, target uint32) []byte {
	tab := crc32.MakeTable(crc32.IEEE)
	var rev [256]byte
	for i := 0; i < 256; i++ {
		rev[tab[i]>>24] = byte(i)
	}
	state := ^crcOfPrefix
	want := ^target
	v := want
	for i := 0; i < 4; i++ {
		idx := rev[v>>24]
		v = ((v ^ tab[idx]) << 8) | uint32(idx)
	}
	out := make([]byte, 4)
	binary.LittleEndian.PutUint32(out, v^state)
	return out
}

// C07: "When a reader is asked to validate chunk checksums, a file whose chunk payload has been
// altered never yields records that differ from the original without reporting it ... for all
// written files with checksums enabled and every single-bit flip of every byte of every chunk's
// stored payload (... guaranteed detectable by CRC-32 for uncompressed chunks)".
//
// Input: a file written by the Go writer with IncludeCRC, whose (only) chunk has records whose
// CRC-32 is exactly 0. The writer stores that 0; the validating lexer takes a stored 0 to mean
// "no checksum" (lexer.go: `if uncompressedCRC > 0 && crc != uncompressedCRC`), so every bit flip
// in that chunk's payload is read back as good data.
func TestFindingC07ChunkWhoseChecksumIsZeroIsNeverValidated(t *testing.T) {
	write := func(tail []byte) ([]byte, *Writer) {
		buf := &bytes.Buffer{}
		w, err := NewWriter(buf, &WriterOptions{IncludeCRC: true, Chunked: true, ChunkSize: 1 << 20, Compression: CompressionNone})
		if err != nil {
			t.Fatal(err)
		}
		if err := w.WriteHeader(&Header{}); err != nil {
			t.Fatal(err)
		}
		if err := w.WriteChannel(&Channel{ID: 1, Topic: "/t", MessageEncoding: "m"}); err != nil {
			t.Fatal(err)
		}
		if err := w.WriteMessage(&Message{ChannelID: 1, Sequence: 1, LogTime: 1, Data: []byte("first message")}); err != nil {
			t.Fatal(err)
		}
		if err := w.WriteMessage(&Message{ChannelID: 1, Sequence: 2, LogTime: 2, Data: append([]byte("second message "), tail...)}); err != nil {
			t.Fatal(err)
		}
		if err := w.Close(); err != nil {
			t.Fatal(err)
		}
		return buf.Bytes(), w
	}
	// first pass: learn the chunk's records up to the last four bytes of the last message
	file, w := write([]byte{0, 0, 0, 0})
	ci := w.ChunkIndexes[0]
	end := int(ci.ChunkStartOffset + ci.ChunkLength)
	records := file[end-int(ci.CompressedSize) : end]
	tail := forgeCRCSuffix(crc32.ChecksumIEEE(records[:len(records)-4]), 0)
	// second pass: the message content that makes the chunk's CRC-32 zero
	file, w = write(tail)
	ci = w.ChunkIndexes[0]
	end = int(ci.ChunkStartOffset + ci.ChunkLength)
	start := end - int(ci.CompressedSize)
	if crc32.ChecksumIEEE(file[start:end]) != 0 {
		t.Fatalf("test construction: chunk CRC is %08x, wanted 0", crc32.ChecksumIEEE(file[start:end]))
	}

	lex := func(data []byte) (msgs [][]byte, err error) {
		l, err := NewLexer(bytes.NewReader(data), &LexerOptions{ValidateChunkCRCs: true})
		if err != nil {
			return nil, err
		}
		defer l.Close()
		for {
			tt, rec, err := l.Next(nil)
			if err != nil {
				return msgs, err
			}
			if tt == TokenMessage {
				msgs = append(msgs, append([]byte{}, rec...))
			}
		}
	}
	orig, err := lex(file)
	if !errors.Is(err, io.EOF) || len(orig) != 2 {
		t.Fatalf("original: %d messages, %v", len(orig), err)
	}

	// flip one bit inside the first message's data ("first message")
	pos := bytes.Index(file[start:end], []byte("first message")) + start
	mut := append([]byte{}, file...)
	mut[pos] ^= 0x01
	got, err := lex(mut)
	if errors.Is(err, io.EOF) && len(got) == 2 && !bytes.Equal(got[0], orig[0]) {
		t.Errorf("validating lexer returned altered message %q for original %q and reported nothing (stored chunk CRC is 0)",
			got[0][22:], orig[0][22:])
	}
	// every single-bit flip inside the two messages' data bytes (flips elsewhere in the payload go
	// just as unnoticed, but flips of record lengths make the lexer allocate gigabytes: slow)
	undetected, flips := 0, 0
	for p := start; p < end; p++ {
		inFirst := p >= pos && p < pos+len("first message")
		second := bytes.Index(file[start:end], []byte("second message ")) + start
		if !inFirst && !(p >= second && p < end) {
			continue
		}
		for bit := 0; bit < 8; bit++ {
			mut := append([]byte{}, file...)
			mut[p] ^= 1 << bit
			flips++
			got, err := lex(mut)
			same := len(got) == len(orig)
			for i := 0; same && i < len(got); i++ {
				same = bytes.Equal(got[i], orig[i])
			}
			if errors.Is(err, io.EOF) && !same {
				undetected++
			}
		}
	}
	if undetected > 0 {
		t.Errorf("%d of %d single-bit flips of the chunk payload ended in a clean EOF with records that differ from the original",
			undetected, flips)
	}
}
