package mcap

import (
	"bytes"
	"errors"
	"fmt"
	"io"
	"testing"
)

// C09: "If a written file is truncated at any byte position ... a sequential read of the
// remainder returns a prefix of the original record sequence ... Every message of every chunk
// that was completely written before the cut is among the records returned."
//
// History: the caller opens the cut file with NewReader over a seekable source, first tries the
// default (index-based) read or Info() - which fails, because a cut file has no footer - and then
// falls back, on the same Reader, to the sequential read Messages(UsingIndex(false)). The failed
// attempt has left the source positioned at the end of the file and nothing puts it back, so the
// sequential read reports a clean io.EOF with zero messages: every completely written chunk is
// silently lost.
func TestFindingC09SequentialReadAfterFailedIndexedAttempt(t *testing.T) {
	for _, comp := range []CompressionFormat{CompressionNone, CompressionZSTD, CompressionLZ4} {
		buf := &bytes.Buffer{}
		w, err := NewWriter(buf, &WriterOptions{IncludeCRC: true, Chunked: true, ChunkSize: 64, Compression: comp})
		if err != nil {
			t.Fatal(err)
		}
		if err := w.WriteHeader(&Header{}); err != nil {
			t.Fatal(err)
		}
		if err := w.WriteSchema(&Schema{ID: 1, Name: "s", Encoding: "e", Data: []byte("d")}); err != nil {
			t.Fatal(err)
		}
		if err := w.WriteChannel(&Channel{ID: 1, SchemaID: 1, Topic: "/t", MessageEncoding: "m"}); err != nil {
			t.Fatal(err)
		}
		const total = 8
		for i := 0; i < total; i++ {
			if err := w.WriteMessage(&Message{ChannelID: 1, Sequence: uint32(i), LogTime: uint64(i + 1), Data: bytes.Repeat([]byte{byte(i)}, 40)}); err != nil {
				t.Fatal(err)
			}
		}
		if err := w.Close(); err != nil {
			t.Fatal(err)
		}
		file := buf.Bytes()
		if len(w.ChunkIndexes) < 4 {
			t.Fatalf("expected several chunks, got %d", len(w.ChunkIndexes))
		}

		read := func(data []byte, failedAttemptFirst string) ([]uint32, error) {
			r, err := NewReader(bytes.NewReader(data))
			if err != nil {
				return nil, err
			}
			defer r.Close()
			switch failedAttemptFirst {
			case "Messages":
				if _, err := r.Messages(); err == nil {
					t.Fatalf("index-based read of a cut file unexpectedly possible")
				}
			case "Info":
				if _, err := r.Info(); err == nil {
					t.Fatalf("Info of a cut file unexpectedly possible")
				}
			}
			it, err := r.Messages(UsingIndex(false))
			if err != nil {
				return nil, err
			}
			var seqs []uint32
			for {
				_, _, m, err := it.NextInto(nil)
				if err != nil {
					return seqs, err
				}
				seqs = append(seqs, m.Sequence)
			}
		}

		// the cut a dying recorder most plausibly leaves: all chunks flushed, nothing of the
		// DataEnd/summary/footer written; and a cut in the middle of the last chunk.
		last := w.ChunkIndexes[len(w.ChunkIndexes)-1]
		cuts := []int{
			int(last.ChunkStartOffset + last.ChunkLength + last.MessageIndexLength),
			int(last.ChunkStartOffset + last.ChunkLength/2),
			len(file) - 1,
		}
		for _, cut := range cuts {
			complete := 0 // every chunk holds exactly one message here (ChunkSize 64 < record size... checked below)
			for _, ci := range w.ChunkIndexes {
				if int(ci.ChunkStartOffset+ci.ChunkLength) <= cut {
					complete++
				}
			}
			if len(w.ChunkIndexes) != total {
				t.Fatalf("test assumes one message per chunk, have %d chunks for %d messages", len(w.ChunkIndexes), total)
			}
			baseline, err := read(file[:cut], "")
			if err == nil || len(baseline) < complete {
				t.Fatalf("compression %q cut %d: plain sequential read returned %d messages, err %v", comp, cut, len(baseline), err)
			}
			for _, first := range []string{"Messages", "Info"} {
				got, err := read(file[:cut], first)
				id := fmt.Sprintf("compression %q, cut at %d of %d, sequential read after failed %s()", comp, cut, len(file), first)
				if len(got) < complete {
					t.Errorf("%s: returned %d messages (err: %v, is io.EOF: %v) but %d messages lie in chunks that were completely written before the cut",
						id, len(got), err, errors.Is(err, io.EOF), complete)
				}
				for i, s := range got {
					if s != uint32(i) {
						t.Errorf("%s: message %d has sequence %d: not a prefix of what was written", id, i, s)
					}
				}
			}
		}
	}
}
