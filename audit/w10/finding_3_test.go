package ros1msg

import (
	"os"
	"os/exec"
	"strconv"
	"strings"
	"testing"
)

// C19: "For any input at all, parsing returns a result or an error in bounded time and stack; it
// never crashes the process."
//
// resolveDependentFields recurses once per level of nesting, and the only limit on the nesting is
// the number of "MSG:" sections in the input. A definition that is a plain chain
//
//	a0 x / ==== MSG: a0 / a1 x / ==== MSG: a1 / a2 x / ...
//
// (no type refers to itself, so the recursion check does not apply) drives the recursion as deep
// as the chain is long. Go's goroutine stack limit is 1 GB and each level costs roughly 800 bytes
// of stack, so a chain of 1.2 million types (about 21 MB of text; a schema record may carry up to
// 4 GiB) ends in "fatal error: stack overflow", which cannot be recovered and kills the process.
//
// The parse runs in a child process so that the test itself can report the crash.

const finding3Levels = 1200000

func finding3Input() []byte {
	var sb strings.Builder
	name := func(i int) string { return "p/" + strconv.FormatInt(int64(i), 36) }
	sb.WriteString(name(0) + " x\n")
	for i := 0; i < finding3Levels; i++ {
		sb.WriteString("=\n")          // any line starting with '=' separates definitions
		sb.WriteString(name(i) + "\n") // the "MSG: " prefix is optional for the parser
		if i+1 < finding3Levels {
			sb.WriteString(name(i+1) + " x\n")
		} else {
			sb.WriteString("int32 x\n")
		}
	}
	return []byte(sb.String())
}

func TestFindingDeepTypeChainOverflowsTheStack(t *testing.T) {
	if os.Getenv("FINDING3_CHILD") == "1" {
		fields, err := ParseMessageDefinition("p", finding3Input())
		// either outcome is fine: a tree or an error
		t.Logf("parser returned: %d fields, err=%v", len(fields), err)
		return
	}
	if testing.Short() {
		t.Skip("takes a minute or two")
	}
	cmd := exec.Command(os.Args[0], "-test.run=^TestFindingDeepTypeChainOverflowsTheStack$", "-test.timeout=60m", "-test.v")
	cmd.Env = append(os.Environ(), "FINDING3_CHILD=1")
	out, err := cmd.CombinedOutput()
	if err != nil {
		text := string(out)
		if len(text) > 600 {
			text = text[:600]
		}
		t.Fatalf("parsing a %d-level chain of types (%d bytes of definition) did not return a result or an error, "+
			"the process died: %v\n%s", finding3Levels, len(finding3Input()), err, text)
	}
}
