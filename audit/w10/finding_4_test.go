package ros1msg

import (
	"fmt"
	"runtime"
	"strings"
	"testing"
	"time"
)

// C19 (DEBATABLE): "For any input at all, parsing returns a result or an error in bounded time".
//
// Commit 71055ae made the parser resolve "each dependent type once" to get rid of exponential
// work. The cache it added is keyed by (package of the referring type, resolved type name), and a
// type whose section header carries no package ("MSG: T0") is found by exact lookup under every
// referring package. A definition that refers to one chain T0 -> T1 -> ... -> T(L-1) from P
// different packages therefore resolves the whole chain P times: P*L resolutions for an input of
// O(P+L) lines - quadratic. 2000 packages x 2000 types is a 116 KB definition and 4 million
// resolutions (minutes of CPU); the result is correct, and sharing the chain would make it linear.
//
// The test is deterministic: it counts heap allocations (every resolution of a section allocates
// its line and field slices) instead of measuring time. Quadrupling the input must not cost much
// more than four times the work; on this tree it costs about sixteen times as much.

func finding4Input(p, l int) []byte {
	var sb strings.Builder
	for i := 0; i < p; i++ {
		fmt.Fprintf(&sb, "q%d/X a%d\n", i, i)
	}
	for i := 0; i < p; i++ {
		fmt.Fprintf(&sb, "====\nMSG: q%d/X\nT0 t\n", i)
	}
	for i := 0; i < l; i++ {
		if i+1 < l {
			fmt.Fprintf(&sb, "====\nMSG: T%d\nT%d t\n", i, i+1)
		} else {
			fmt.Fprintf(&sb, "====\nMSG: T%d\nint32 v\n", i)
		}
	}
	return []byte(sb.String())
}

func finding4Work(t *testing.T, n int) (work uint64, size int) {
	input := finding4Input(n, n)
	var before, after runtime.MemStats
	runtime.GC()
	runtime.ReadMemStats(&before)
	start := time.Now()
	fields, err := ParseMessageDefinition("p", input)
	d := time.Since(start)
	runtime.ReadMemStats(&after)
	if err != nil || len(fields) != n {
		t.Fatalf("n=%d: %d fields, err=%v", n, len(fields), err)
	}
	work = after.Mallocs - before.Mallocs
	t.Logf("P=L=%d: %d bytes of definition, %d allocations, %v", n, len(input), work, d)
	return work, len(input)
}

func TestFindingParseWorkQuadraticInDefinitionSize(t *testing.T) {
	smallWork, smallSize := finding4Work(t, 100)
	largeWork, largeSize := finding4Work(t, 400)
	sizeRatio := float64(largeSize) / float64(smallSize)
	workRatio := float64(largeWork) / float64(smallWork)
	if workRatio > 2*sizeRatio {
		t.Fatalf("a definition %.1fx as long took %.1fx as much work to parse: the work grows quadratically "+
			"with the input (a definition of ~100 KB needs millions of section resolutions, minutes of CPU)",
			sizeRatio, workRatio)
	}
}
