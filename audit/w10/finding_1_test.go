package ros

import (
	"bytes"
	"database/sql"
	"errors"
	"io"
	"os"
	"path/filepath"
	"testing"

	"github.com/foxglove/mcap/go/mcap"
	_ "github.com/mattn/go-sqlite3"
)

// C18: "Converting a ROS 2 db3 yields every stored message of every message-typed topic ...
// Input that is not a valid bag or database produces an error, never a crash or process exit."
//
// A db3 file with a damaged page in its interior (bad sector, interrupted copy that was resumed,
// bit rot) is not a valid database: sqlite opens it, serves the topics table and the first
// messages, and reports "database disk image is malformed" from the step that reaches the damaged
// page. database/sql delivers that through rows.Err() after rows.Next() has returned false.
// transformMessages (and getTopics) never look at rows.Err(), so DB3ToMCAP returns nil and leaves
// a well-formed MCAP that silently lacks the rest of the messages.

func f1WriteDB3(t *testing.T, path string, n int) {
	t.Helper()
	db, err := sql.Open("sqlite3", path)
	if err != nil {
		t.Fatal(err)
	}
	defer db.Close()
	for _, stmt := range []string{
		`CREATE TABLE topics(id INTEGER PRIMARY KEY, name TEXT NOT NULL, type TEXT NOT NULL, serialization_format TEXT NOT NULL, offered_qos_profiles TEXT NOT NULL)`,
		`CREATE TABLE messages(id INTEGER PRIMARY KEY, topic_id INTEGER NOT NULL, timestamp INTEGER NOT NULL, data BLOB NOT NULL)`,
		`CREATE INDEX timestamp_idx ON messages (timestamp ASC)`,
		`INSERT INTO topics VALUES (1, '/chatter', 'std_msgs/msg/String', 'cdr', '')`,
	} {
		if _, err := db.Exec(stmt); err != nil {
			t.Fatal(err)
		}
	}
	tx, err := db.Begin()
	if err != nil {
		t.Fatal(err)
	}
	payload := bytes.Repeat([]byte{0xAB}, 1000)
	for i := 0; i < n; i++ {
		if _, err := tx.Exec(`INSERT INTO messages(topic_id, timestamp, data) VALUES (1, ?, ?)`, int64(1000+i), payload); err != nil {
			t.Fatal(err)
		}
	}
	if err := tx.Commit(); err != nil {
		t.Fatal(err)
	}
}

func f1Convert(t *testing.T, path string) (int, error) {
	t.Helper()
	db, err := sql.Open("sqlite3", "file:"+path+"?mode=ro")
	if err != nil {
		t.Fatal(err)
	}
	defer db.Close()
	out := &bytes.Buffer{}
	err = DB3ToMCAP(out, db, &mcap.WriterOptions{Chunked: true, ChunkSize: 4096}, []string{"./testdata/galactic"})
	if err != nil {
		return 0, err
	}
	reader, rerr := mcap.NewReader(bytes.NewReader(out.Bytes()))
	if rerr != nil {
		t.Fatalf("conversion reported success but the output is not readable: %v", rerr)
	}
	it, rerr := reader.Messages(mcap.UsingIndex(false))
	if rerr != nil {
		t.Fatal(rerr)
	}
	count := 0
	for {
		_, _, _, nerr := it.NextInto(nil)
		if errors.Is(nerr, io.EOF) {
			break
		}
		if nerr != nil {
			t.Fatalf("conversion reported success but the output does not read back: %v", nerr)
		}
		count++
	}
	return count, nil
}

func TestFindingDB3DamagedDatabaseConvertsWithoutError(t *testing.T) {
	const n = 3000
	dir := t.TempDir()
	good := filepath.Join(dir, "good.db3")
	f1WriteDB3(t, good, n)

	count, err := f1Convert(t, good)
	if err != nil {
		t.Fatalf("intact database: %v", err)
	}
	if count != n {
		t.Fatalf("intact database: %d messages, want %d", count, n)
	}

	raw, err := os.ReadFile(good)
	if err != nil {
		t.Fatal(err)
	}
	const pageSize = 4096
	pages := len(raw) / pageSize
	for _, at := range []int{25, 50, 75, 90} {
		damaged := append([]byte{}, raw...)
		// overwrite one interior page (file length, header and schema pages stay as they are)
		page := pages * at / 100
		for i := page * pageSize; i < (page+1)*pageSize; i++ {
			damaged[i] = 0xFF
		}
		bad := filepath.Join(dir, "bad.db3")
		if err := os.WriteFile(bad, damaged, 0o600); err != nil {
			t.Fatal(err)
		}
		count, err := f1Convert(t, bad)
		if err == nil && count != n {
			t.Errorf("database with page %d of %d overwritten: DB3ToMCAP returned nil and an MCAP with %d of the %d stored messages; "+
				"a database that cannot be read to its end must produce an error", page, pages, count, n)
		} else {
			t.Logf("page %d of %d overwritten: count=%d err=%v", page, pages, count, err)
		}
	}
}
