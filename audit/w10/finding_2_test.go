package ros

import (
	"bytes"
	"database/sql"
	"errors"
	"io"
	"os"
	"path/filepath"
	"testing"

	"github.com/foxglove/mcap/go/mcap"
	_ "github.com/mattn/go-sqlite3"
)

// C18: "Converting a ROS 2 db3 yields every stored message of every message-typed topic in
// timestamp order ... and a schema assembled from the type's definition files."
//
// wstring is one of the built-in field types of the ROS 2 interface definition language
// (test_msgs/msg/WStrings.msg ships with every ROS 2 distribution). The converter decides what is
// a primitive with the ROS 1 table in constants.go, which has time and duration (not ROS 2
// primitives) but no wstring, so it goes looking for <package>/msg/wstring and the whole
// conversion fails.

func TestFindingDB3TopicWithWStringFieldCannotBeConverted(t *testing.T) {
	dir := t.TempDir()
	// an ament prefix holding one package with one message type, laid out as `colcon`/ament do
	index := filepath.Join(dir, "prefix", "share", "ament_index", "resource_index", "rosidl_interfaces")
	msgdir := filepath.Join(dir, "prefix", "share", "test_msgs", "msg")
	for _, d := range []string{index, msgdir} {
		if err := os.MkdirAll(d, 0o755); err != nil {
			t.Fatal(err)
		}
	}
	if err := os.WriteFile(filepath.Join(index, "test_msgs"), []byte("msg/WStrings.idl\nmsg/WStrings.msg\n"), 0o600); err != nil {
		t.Fatal(err)
	}
	// verbatim from ros2/rcl_interfaces test_msgs/msg/WStrings.msg
	definition := "wstring wstring_value\n" +
		"wstring wstring_value_default1 \"Hello world!\"\n" +
		"wstring wstring_value_default2 \"Hellö wörld!\"\n" +
		"wstring wstring_value_default3 \"ハローワールド\"\n" +
		"#wstring WSTRING_CONST=\"Hello world!\"\n" +
		"#wstring<=22 bounded_wstring_value\n" +
		"#wstring<=22 bounded_wstring_value_default1 \"Hello world!\"\n" +
		"wstring[3] array_of_wstrings\n" +
		"wstring[<=3] bounded_sequence_of_wstrings\n" +
		"wstring[] unbounded_sequence_of_wstrings\n"
	if err := os.WriteFile(filepath.Join(msgdir, "WStrings.msg"), []byte(definition), 0o600); err != nil {
		t.Fatal(err)
	}

	dbpath := filepath.Join(dir, "bag.db3")
	db, err := sql.Open("sqlite3", dbpath)
	if err != nil {
		t.Fatal(err)
	}
	defer db.Close()
	for _, stmt := range []string{
		`CREATE TABLE topics(id INTEGER PRIMARY KEY, name TEXT NOT NULL, type TEXT NOT NULL, serialization_format TEXT NOT NULL, offered_qos_profiles TEXT NOT NULL)`,
		`CREATE TABLE messages(id INTEGER PRIMARY KEY, topic_id INTEGER NOT NULL, timestamp INTEGER NOT NULL, data BLOB NOT NULL)`,
		`CREATE INDEX timestamp_idx ON messages (timestamp ASC)`,
		`INSERT INTO topics VALUES (1, '/wide', 'test_msgs/msg/WStrings', 'cdr', '')`,
		`INSERT INTO messages(topic_id, timestamp, data) VALUES (1, 10, x'0001000000000000')`,
		`INSERT INTO messages(topic_id, timestamp, data) VALUES (1, 20, x'0001000000000001')`,
	} {
		if _, err := db.Exec(stmt); err != nil {
			t.Fatal(err)
		}
	}

	out := &bytes.Buffer{}
	err = DB3ToMCAP(out, db, &mcap.WriterOptions{}, []string{filepath.Join(dir, "prefix")})
	if err != nil {
		t.Fatalf("a valid database whose only topic has type test_msgs/msg/WStrings (definition file present) "+
			"was not converted: %v", err)
	}
	reader, err := mcap.NewReader(bytes.NewReader(out.Bytes()))
	if err != nil {
		t.Fatal(err)
	}
	it, err := reader.Messages(mcap.UsingIndex(false))
	if err != nil {
		t.Fatal(err)
	}
	count := 0
	for {
		schema, _, _, err := it.NextInto(nil)
		if errors.Is(err, io.EOF) {
			break
		}
		if err != nil {
			t.Fatal(err)
		}
		if string(schema.Data) != definition {
			t.Errorf("schema is not the type's definition file: %q", schema.Data)
		}
		count++
	}
	if count != 2 {
		t.Errorf("%d messages, want 2", count)
	}
}
